"""C03 - MusicXML export then import returns the same score; re-export is a fixpoint.

READINGS (the oracle is written under these; each is the reading under which the repaired code is right)

* Equality of scores is equality of `abstract(score)` below, with the identifications MusicXML itself makes:
  a missing voice or staff denotes 1 (also on directions), a missing alteration denotes 0, a tempo mark is its
  quarter-note tempo, a missing/empty part name is no name, a symbolic duration is what the note shows (explicit dict
  or the estimate partitura derives from the numeric duration; `dots` missing = 0), `raw_text` missing = the text,
  (EXACTLY: the tempo written is a binary64 number, MusicXML's `tempo` attribute is a decimal of any length, and a decimal with
  enough digits - Python's `repr`, 17 significant digits at most - is read back as the same binary64 number; so the loaded
  quarter tempo must be the very same number, whatever its size (whole numbers beyond 2**53, values below 1e-4 where `repr`
  uses an exponent) and however many digits it needs; `bpm`/`unit` themselves are not kept, 120.0 and 120 are the same tempo),
  an empty key mode is no mode, a tuplet that lacks one of its four values shows what the symbolic duration of its first note
  implies (that is what the file says: `<tuplet>` without `<tuplet-actual>`), an articulation is one of the sixteen elements
  MusicXML has (other strings cannot be written), a fingering is a non-negative number.
  Pages/systems are not in the property's list and are not compared (the importer numbers systems twice at a
  `<print new-page new-system>`).
* "Scores MusicXML can express" (`domain_issues` lists the reasons for which the oracle stays silent; the model streams
  still run): every note lies inside a measure, the first measure starts at 0, measures are contiguous, notes do not
  cross a change of divisions and such a change sits on a time point of the part (something starts or ends there:
  `linearize_measure_contents` splits at time points), note ids are unique in the whole score (one counter renames
  duplicates), non-grace notes have a positive duration, grace notes have none and sit with their main note in one
  voice (the first note written after the run: the highest pitched one of a chord, no unpitched note in that chord); a
  part either numbers all its voices or none; every part starts with page 1 / system 1 at time 0 (what every imported
  score has and what the repo's own round-trip test builds by hand: the importer always creates them and the exporter
  always writes them as `<print new-page new-system>` - tests/test_xml.py pins both); at most one time signature, key
  signature, tempo (and clef per staff) at one time; directions have an extent or none; pedals end; barline fermatas
  have a location, and a mid-measure one does not coincide with a change of divisions (do_barlines sees segments);
  textual directions are the ones the direction parser produces from their own words (class, text and raw_text are
  *derived* from the words in MusicXML); a tie does not run backwards in the document (from a higher to a lower voice
  inside one measure) and - the property's own hypothesis - two ties of one pitch do not sound at the same time.
* MusicXML has no polyphony inside a voice (`remove_voice_polyphony` docstring): notes that cannot stay in their
  voice (longer than the shortest note of their onset, or running past the next onset of the voice) are given a
  voice number that no note of that measure segment uses.  The oracle therefore demands the *same* voice only of
  notes in voices that are monophonic in their segment, and of the others that they end up in a voice unused
  before (and does not ask a grace note to keep the link to a main note that had to move).  Which voice exactly is
  checked against the Lean model, stream (i).
* Ends of constant loudness/tempo/articulation directions are derived data (`set_end_times`: the start of the next one
  of the same kind, else the end of the part); `abstract` does not compare them, the oracle checks that the imported
  score has exactly those derived ends.
* Repeats, endings, barline fermatas: MusicXML has one `<repeat>`, one `<ending>` per `<barline>` and no nesting; the oracle
  demands the same repeats / endings (start, end, number as text) and barline fermatas (time, location); a repeat, ending or
  located fermata on a mid-measure change of divisions is outside the domain (do_barlines sees divisions segments, the location
  it writes is relative to the segment).  Harmony (roman numerals, chord symbols with kind and bass) and cadence annotations are
  compared as well ("an equal score"): a chord symbol without kind is one with the empty kind; a cadence of no known type
  (`score.Cadence` keeps `None`) cannot be written at all and is outside the domain.
* Byte fixpoint: `save(load(save(s))) == save(s)` is demanded when the notes of `s` carry voice numbers (and staff
  numbers where the part has several staves) and its tuplets have their four values (or nothing the importer would infer):
  the identifications "missing = 1", "missing tuplet content = what the note shows" are many-to-one and the file can only
  be reproduced from the representative the importer picks.  For every `s`, the re-written file `x = save(load(save(s)))`
  must satisfy `save(load(x)) == x`.

STREAMS (requests to the Lean driver drv_c03)
  lin   (i)   abstract measure content  ->  `linearize` must give the event list parsed from the bytes written
  wf          the hypothesis `MeasureWF` of the theorem reader_writer holds for every measure of a score in the domain
  stab        every measure of the score LOADED from the file (its notes with the voices read) -> `assignVoices` = `partitionVoices`
              (second_export_moves_nothing) must hold exactly when the file written from the loaded score gives every note
              the voice it was loaded with
  int 0 (ii)  events parsed from the bytes ->  `readMeasure` must give what load_musicxml produced (doc order)
  snd   (ii)  events parsed from the bytes ->  `interpret` (MusicXML semantics) must give the score's own notes
  numg / num  the numbers written for slurs+tuplets (per note, counter shared by the file) / wedges+dashes
  pair / tie  the importer's pairing of slurs and tuplets by number, of ties by pitch (Model/RangeNumbers.lean)
 element codecs (Model/XmlNote.lean, Model/XmlDir.lean; every <note>, <direction>, <sound>, <attributes> written):
  wnote       the score's note (all fields make_note_el looks at) -> `writeNote` must give the element written, tree for tree
  rnote       the element written -> `readNote` must give every field of the note load_musicxml made of it
  cnote       the score's note -> `canon` (right-hand side of note_roundtrip) must give that loaded note too
  evnote      the element written -> `toEv` must give the event the measure streams are fed with (parse_written)
  fnote       the score's note -> `writeNote (reexport (canon n))` must give the <note> of save(load(save(s))) (note_fixpoint)
  wdir/wsound/wattr   the object(s) behind an element of do_directions / do_attributes -> `writeDir`/`writeSound`/
              `writeAttributes` must give that element (the harness mirrors the loop structure, not the element building)
  dirs        the <direction> elements of a part in order -> `readDirections` must give the objects the importer's own
              _handle_direction makes of that sequence on a scratch part (class, text, line, staff, start, end: i.e. the
              pairing of wedges, dashes and pedals through `ongoing`)
  slots       the wedge (dashes) numbers in document order -> `slotAll` must give the (start, stop) pairs of those objects
  rsound/rattr the element -> `readSound`/`readAttributes` must give what _handle_sound/_handle_attributes add to a scratch part
  wattrs      the results of the five iteration calls of do_attributes (quarter durations, key and time signatures, staffs,
              clefs with `getattr(clef, "number", 0)`; nothing else is mirrored) -> `doAttributes` (Model/XmlAttrs.lean: grouping
              by time, clef lists sorted per time, the `staves_included` flag, the leaked `len(clefs)`) must give the
              (time, <attributes>) list do_attributes returns
  rsd         every <attributes> written -> `readStaffs` must give the score.Staff objects _handle_attributes adds (fix C03-20)
  fattr       every <attributes> written for the score -> `writeAttributes (reexportItems …)` of what the model readers make of
              it must give the <attributes> at the same place of save(load(save(s))) (attributes_fixpoint; scores in the domain)
 the tempo as a number (Model/Binary64.lean: decimal text -> rational -> binary64 by correct rounding):
  wsci        mantissa and exponent of the repr of a tempo below 1e-4 -> `writeSoundSci` must give the <sound> written
  fsound      the <sound> written -> `readSoundNum` (model of float(text)) must give the binary64 number m*2^e of the bpm
              _handle_sound made
  wfsound     the quarter tempo m*2^e of the SCORE and the <sound> written for it -> the hypotheses of
              tempo_number_roundtrip_exponent (normal number, well-formed literal, text inside the rounding interval of the tempo:
              `closeTo`) and its conclusion must all hold: "the exporter wrote enough digits"
  arts / dyns the enumeration `Artic` == exporter's ARTICULATIONS == what get_articulations reads; `dynTable` == DYN_DIRECTIONS
 barlines, harmony, print, part list (Model/XmlBar.lean, Model/XmlPartList.lean) and positions (Model/XmlTrace.lean):
  wbar        the fermatas / repeats / endings do_barlines iterates over in a segment (the `iter_all` calls are mirrored,
              nothing else) -> `doBarlines` (selection of fermatas by `ref`, grouping by onset, sorting, location, children)
              must give the (onset, <barline>) list do_barlines returns
  cbar        the children of every <barline> written -> `writeBarline` must give the element, `BarSimple` the harness's own
              count, and `itemsOfRead (readBarline …)` the fermata / first repeat / first ending (barline_items_recovered)
  bars        <measure> elements that hold only <backup>/<forward>/<barline> (the written part reduced to them, and generated
              sequences, malformed ones included) -> `readBarMeasures` must give the repeats, endings, barline fermatas and bar
              styles the importer's own _handle_measure puts on a scratch part (positions, pairing through `ongoing`,
              backward without forward, stop without start, missing location, discontinue …)
  wharm / rharm / charm   RomanNumeral / ChordSymbol / Cadence -> `writeHarmony` == the element do_harmony built;
              any <harmony> (written or generated) -> `readHarmony` == what _handle_harmony adds ("err" when it raises);
              `canonHarmony` (right-hand side of harmony_roundtrip) == that too
  wprint / prints   page and system onsets -> `doPrints` == do_prints; <print> elements with the starts of their measures ->
              `readPrints` == pages and systems (number, start, end) _handle_print makes on a scratch part
  wpl / rpl   the parts with their parent chains (object identities numbered) -> `writePartList`+`plXml` == the children
              of the <part-list> written; any children of a <part-list> (written or generated: stops without start,
              unclosed groups, other tags) -> `parsePartList` == the structure _parse_partlist returns ("err" when it raises)
  otr         events of a written measure -> `readOthers` (position and measure_maxtime at every non-note child) must give
              the onsets do_attributes/do_directions/do_barlines/do_harmony/do_prints wrote them for, in document order, each
              with position <= maxtime <= end of the measure (theorem others_in_place)
 literal data (harness/translate_c03.py -> Gen/C03Tables.lean, Props/C03Gen.lean): the exporter's / importer's tables and
 the elements the live save_musicxml writes for a probe score are regenerated on every run; the theorems *_probes /
 *_table(s) state that the model writers give exactly these trees
ORACLE (Python only): abstract(load(save(s))) == abstract(s) field by field; save(load(save(s))) == save(s);
an independent interpretation of the written file in quarter notes (divisions, backup/forward, chord, grace, ties
by pitch and adjacency) == the sounding notes and measure extents of the score; in the document no two open
slurs/tuplets/wedges/dashes share a number.
FIELDS COMPARED after save -> load (abstract): part id, name, abbreviation, group nesting (symbol, name, number); divisions
changes; measures (start, end, number, name); time signatures; key signatures (fifths, mode); clefs (staff, sign, line, octave
change); per note/rest/unpitched/grace note: class, id, start, end, voice, staff, symbolic duration (type, dots, actual/normal
notes), tie_next/tie_prev, articulations, fingerings (all of them), stem, note fermata, step/octave/alter, grace type and
grace_next/grace_prev, notehead and its filled flag; slurs and tuplets (start/end note, times, the tuplet's four values);
directions (class, text, raw text, staff, end, wedge, line: dynamics, wedges, dashes words, tempo/constant words, pedals); Words;
tempi (quarter tempo, incl. non-whole and dotted units); repeats; endings (number); barline fermatas; harmony (roman numerals,
chord symbols with kind and bass); cadences; staffs (time, lines).
"""
import io
import os
import zlib
from fractions import Fraction

import wire as W
from core import Eval

PROPERTY = "C03"
DRIVER = "drv_c03"
PROPS = ["PartituraModel.Props.C03", "PartituraModel.Props.C03Codec", "PartituraModel.Props.C03Bar",
         "PartituraModel.Props.C03PartList", "PartituraModel.Props.C03Gen", "PartituraModel.Props.C03Place",
         "PartituraModel.Props.C03DirRead", "PartituraModel.Props.C03Fixpoint", "PartituraModel.Props.C03Attrs",
         "PartituraModel.Props.C03Prints", "PartituraModel.Props.C03Stable"]
TRUSTED = [
    "lxml serialisation/parsing (etree.tostring pretty_print, XMLParser remove_blank_text) is the identity on element trees whose "
    "texts are not blank; find/findall/xpath/iteration = `find`/`findall`/`findPath` of Model/XmlNote.lean",
    "Part.iter_all order inside a time point (class registry order) is taken from the implementation as input of the writer model",
    "which objects do_directions turns into elements and at which time (the loop structure) is mirrored in the "
    "harness, the elements themselves are modelled (streams wdir/wsound); for do_attributes/do_barlines/do_harmony/do_prints "
    "only the `iter_all` / `quarter_durations` calls are mirrored and everything after them is in the model "
    "(wattrs/wbar/wharm/wprint; stream wattr still checks the single elements against a harness copy of the loop); the split "
    "of a measure into divisions segments is recomputed in the harness and checked through stream lin",
    "PartGroup / Part objects as values with an identity number (`pg in group_stack`, `pg == group_stack[-1]` compare "
    "objects); `e.xpath('part-name/text()')` = the non-empty texts of the part-name children; str.upper / re.findall('[A-Z]+') "
    "of score.Cadence on ASCII letters (`Char.toUpper`, `Char.isUpper`)",
    "harness/translate_c03.py: the probe score and its Lean counterpart in Props/C03Gen.lean are written by hand; a mismatch "
    "between them can only make a theorem fail, never pass",
    "estimate_symbolic_duration / parse_direction / to_quarter_tempo are used as given (C12 covers the duration tables); "
    "parse_direction is opaque in the model (`DirItem.words` carries the text)",
    "Python str(int)/int(str) = showIntC/parseIntC (plain decimal forms; underscores, non-ASCII digits not modelled); "
    "float(text) rounds the decimal correctly to binary64 = `readFloat` (round half even of the significand in the binade found "
    "with Nat.log2; compared with Python on every tempo: stream fsound); the range limits of binary64 (overflow, subnormals) "
    "are not modelled; repr(x) is taken from Python: that it lies inside the rounding interval of x is evaluated on every "
    "tempo written (stream wfsound), WHEN it switches to exponent notation is not modelled; re.findall(r'\\d+') = first "
    "maximal digit run",
    "Python dict (ongoing, counters) as a finite map; list.sort stable",
]
PARTIAL = [
    "byte-level fixpoint save(load(save(s))) == save(s) is compared on every case; proved is its element-level part "
    "(note_fixpoint, direction_fixpoint, tempo_fixpoint, barline_fixpoint, harmony_fixpoint, print_fixpoint, "
    "attributes_fixpoint: writing what was read from a written element gives the element again - for <attributes> with the "
    "same <staves> value, which is compared (stream fattr), not derived; partlist_fixpoint: the whole part list), not the "
    "re-linearisation of a measure: proved is that remove_voice_polyphony moves no note of a voice it produced, whatever the "
    "order and the other fields of the notes read back (voices_stable, second_export_moves_nothing; stream stab evaluates it "
    "on the measures of the loaded score for cases in the domain of the byte fixpoint); that the loaded segment IS the saved one voice by voice (reader_writer gives "
    "onset, duration, voice, staff of every note; pitch order inside chords and grace chains come from the note codec) and "
    "that sorting and merging it gives the same event list is compared on the bytes; nor lxml's serialisation",
    "the completion of half-open repeats and endings at the end of _parse_parts (measure_map / searchsorted heuristics) is not "
    "modelled: the exporter writes none, and `repeats_paired` / `endings_paired` assume the calls come in pairs (what "
    "non-overlapping repeats give; MusicXML has one <repeat> and one <ending> per barline and no nesting); that the document "
    "presents them in that order is checked by stream bars and the oracle, not proved",
    "`barlines_written` / `barline_position` speak about one divisions segment = one measure; a repeat, ending or barline "
    "fermata on a mid-measure change of divisions gets the location of the segment (outside the oracle's domain)",
    "pages and systems: the <print> codec (print_roundtrip) and the numbering state machine in closed form (prints_read, "
    "pages_numbered, systems_numbered: any <print> sequence) are proved; that the pages of a SCORE come back (do_prints "
    "composed with the reader over the measures) is not stated - it is false for systems (a <print new-page new-system> makes "
    "two) and pages and systems are not in the property's list",
    "partlist_roundtrip / partlist_fixpoint are about forests whose groups all contain a part (a group without parts never "
    "reaches the file: the exporter walks up from the parts) and whose groups are different objects",
    "not modelled inside the modelled elements (the exporter writes none of them): <accidental> fallback for alter, <beam>, "
    "ornaments, steal-time attributes of <grace>, <transpose>, <sound> children of <direction>, octave-shift, metronome; "
    "float literals other than digits[.digits][e[+-]digits] (signs, blanks, E, inf, nan, underscores)",
    "wedges_read / dashes_read / pedals_read are about elements of the shapes the exporter writes (`canonDir`: one object per "
    "element, words with at most one dashes start); <direction> elements of other shapes (several <direction-type> of one "
    "kind, octave-shift, …) are covered by stream dirs only",
    "numbers_distinct speaks about the order in which the exporter meets the ranges; that document-open wedges are counter-open "
    "when a new wedge is numbered (fix C03-6) is checked on the bytes by the oracle, not proved",
    "that the `<staves>` value is the number of staves is not claimed: do_attributes writes len() of a list that leaks out of a "
    "loop (the clefs of the last clef time of the segment: `leakedLen`, example in Props/C03Attrs.lean), once per call, i.e. "
    "per divisions segment (staves_written_once); the importer ignores <staves>; the model mirrors the code",
    "attributes_written / attributes_read_back speak about one call of do_attributes (one divisions segment of a measure); "
    "score.Staff: the exporter writes no `number` on <staff-details>, a staff with another number is read back as staff 1 "
    "(staff_details_roundtrip says so; the oracle compares staffs by time and lines); <transpose> is not modelled",
]
RULE = ("seeded structured scores (1-3 parts, nested groups, 1-3 staves, 1-4 voices or no voice numbers, shared or separate "
        "registers, chords of unequal duration, notes running past the next onset, gaps, silent measures, late entries, "
        "mid-measure division/clef/signature changes, pickups and irregular measures, tie chains over barlines, grace runs, "
        "nested/overlapping slurs and tuplets (triplets, quintuplets, nested, with and without their four values), dynamics "
        "(constant and impulsive marks), wedges, dashes, tempo words, tempi (gen_tempo: metronome numbers, whole numbers stored as floats, 1-6 decimals, tempi "
        "computed from a beat period or MIDI microseconds = 17 significant digits, arbitrary doubles, whole numbers of 7+ digits "
        "below and beyond 2**53, large non-whole, below 1, below 1e-4 (exponent notation), zero; every unit name with 0-3 dots), "
        "pedals, "
        "repeats/endings, barline and note fermatas, all sixteen articulations and unknown ones, 1-3 fingerings, stems, explicit "
        "symbolic durations with dots and tuplet ratios, unpitched notes with noteheads, clefs with octave change and without "
        "line, key modes, score.Staff objects (0-3 times, 1..nstaves at a time, lines 5/1/4/6/11/0/None), harmony: roman numerals, chord symbols with and without kind and bass, cadences; two repeats meeting "
        "at a barline, repeats and endings that start or end inside a measure, barline fermatas without location) "
        "+ a family of one-voice scores in which every NUMBER printed is large (gen_numeric: a tempo "
        "in every measure, divisions up to 3628800 so that durations/backup/forward have 7-8 digits, measure names, "
        "fingerings and ending numbers of many digits, octaves 0-9, alter up to 3, time signatures 33/32, 128/128) "
        "+ element-level cases (gen_elems: measures of backup/forward/barline with any location, several repeats/endings of "
        "any type, bar styles, fermatas; <harmony> with function texts with 0-2 bars, with and without kind/root/bass; <print> "
        "sequences; <part-list> children balanced or not, nested three deep, stray stops, other tags: `branches` in the "
        "distribution counts the outcomes) "
        "+ hand-written corpus (witnesses of all repaired defects) + every tests/data/musicxml "
        "fixture (load, then the same checks); distinct = distinct structural signature (parts, voices, features used, notes); "
        "non-trivial = more than two notes or two voices or a feature")
LEVEL_TEXT = ("Lean 4 theorems over all measure contents / event streams about executable models of the exporter's measure "
              "linearisation and voice clean-up, of an independent MusicXML measure reader and of the importer's reader, of "
              "range numbering, pairing by number (slurs, tuplets, wedges, dashes) and tie pairing, and over all field values "
              "about the element codecs of <note>, <direction>, <sound tempo>, <attributes>, <barline>, <harmony>, <print> and "
              "the <part-list> (what the importer extracts from the element the exporter writes is exactly what the object "
              "denotes; every forest of parts and nested groups is written as its bracket sequence and parsed back as itself; "
              "remove_voice_polyphony leaves the voices it produced alone on the next export; "
              "do_barlines and do_attributes lose, duplicate and move nothing and what is read from each of their elements is "
              "what the objects of its time denote; writing what was read gives the element again; repeats and endings are "
              "paired through `ongoing`; pages and systems of any <print> sequence in closed form), about the position at "
              "which every non-note child of a measure is read (the onset it was written for), and over all binary64 numbers and "
              "rationals about the decimal-text round trip of a tempo (correct rounding returns the number in whose rounding "
              "interval the text lies, 17 significant digits always lie in it, a text further than half an ulp away is read "
              "as another number); the models are tied to partitura by "
              "differential runs on generated scores (writer models vs. the elements and bytes written, reader models vs. "
              "load_musicxml, vs. the importer's own handlers on scratch parts and vs. the score, the theorems' hypotheses "
              "evaluated on every measure and element, the constant tables and the elements of a probe score regenerated from the "
              "live source on every run and compared with the model writers by theorems), and the round trip "
              "and byte fixpoint are checked directly on every case and every MusicXML fixture of the repository.")

REPO = os.environ.get("VERIF_REPO", "/repo")
FIXDIR = os.path.join(REPO, "tests", "data", "musicxml")
STEPS = "CDEFGAB"
ORDER = {"barline": 0, "attributes": 1, "direction": 2, "print": 3, "sound": 4, "harmony": 5, "note": 6}


# ====================================================================== generator
def _durations(q, remaining):
    """note lengths (in ticks) available on the grid of q ticks per quarter"""
    out = []
    for num, den in ((1, 4), (1, 2), (3, 4), (1, 1), (3, 2), (2, 1), (3, 1), (4, 1), (1, 3), (2, 3)):
        if (q * num) % den == 0:
            d = q * num // den
            if 0 < d <= remaining:
                out.append(d)
    return out or [remaining]


def gen_part(rng, pid, big=False, feat=None):
    feat = feat or {}
    q = rng.choice([1, 2, 3, 4, 4, 6, 8, 12, 20, 24, 480])
    nm = rng.randint(1, 5 if big else 3)
    nstaves = rng.choice([1, 1, 2, 3])
    novoice = rng.random() < 0.12
    nvoices = 1 if novoice else rng.choice([1, 2, 2, 3, 4])
    d = {"id": pid, "name": rng.choice([pid, "Piano", "", None, "Vl. & Vc <1>"]),
         "abbr": rng.choice([None, None, "Pno."]), "divs": q, "qd": [], "ts": [], "ks": [], "clefs": [],
         "measures": [], "notes": [], "slurs": [], "tuplets": [], "extras": [], "pages": True}
    ts_pool = [(4, 4), (3, 4), (2, 4), (6, 8), (5, 4), (2, 2), (3, 8), (1, 4)]
    beats, bt = rng.choice(ts_pool)
    t = 0
    cells = []  # (start, end, q)
    for m in range(nm):
        if m == 0 or rng.random() < 0.25:
            if m > 0:
                beats, bt = rng.choice(ts_pool)
            d["ts"].append([t, beats, bt])
        if m == 0 or rng.random() < 0.2:
            d["ks"].append([t, rng.randint(-7, 7), rng.choice(["major", "minor", None, "dorian", ""])])
        if m == 0:
            for s in range(1, nstaves + 1):
                d["clefs"].append([t, s, rng.choice(["G", "F", "C"]), rng.choice([2, 3, 4]), rng.choice([0, 0, 0, -1, 1])])
        nq = Fraction(4 * beats, bt)  # quarters per measure
        if m == 0 and rng.random() < 0.3:
            nq = Fraction(rng.choice([1, 2]) * 4, bt)  # pickup
        elif rng.random() < 0.1:
            nq = nq + Fraction(4, bt)  # irregular
        mstart = t
        # cells: split at a quarter boundary, possibly with a change of divisions / clef / signatures
        parts_q = [nq]
        if nq >= 2 and nq.denominator == 1 and rng.random() < 0.35:
            k = rng.randint(1, int(nq) - 1)
            parts_q = [Fraction(k), nq - k]
        for ci, cq in enumerate(parts_q):
            if ci > 0:
                r = rng.random()
                if r < 0.5:
                    q = rng.choice([1, 2, 3, 4, 6, 8, 12])
                    d["qd"].append([t, q])
                elif r < 0.7 and nstaves >= 1:
                    d["clefs"].append([t, rng.randint(1, nstaves), rng.choice(["G", "F", "C", "percussion"]), rng.choice([2, 4, None]),
                                       rng.choice([0, 0, 1, -1, None])])
                elif r < 0.8:
                    d["ks"].append([t, rng.randint(-7, 7), rng.choice(["major", "minor", None, "dorian", ""])])
                elif r < 0.9:
                    d["ts"].append([t, *rng.choice(ts_pool)])
            ln = cq * q
            if ln.denominator != 1:
                q2 = q * ln.denominator
                if ci == 0 and m == 0:
                    d["divs"] = q = q2
                else:
                    d["qd"] = [x for x in d["qd"] if x[0] != t] + [[t, q2]]
                    q = q2
                ln = cq * q
            cells.append((t, t + int(ln), q, m))
            t += int(ln)
        d["measures"].append([mstart, t, m + 1, rng.choice([str(m + 1), str(m + 1), "X%d" % m, None]) if rng.random() < 0.2 else str(m + 1)])
    # ---- notes, voice by voice
    nid = [0]

    def new_id(p="n"):
        nid[0] += 1
        return "%s%s_%d" % (p, pid, nid[0])

    shared_register = rng.random() < 0.3
    for v in range(1, nvoices + 1):
        staff = rng.randint(1, nstaves)
        octave = 3 if shared_register else 1 + v
        prev_single = None  # last single note (for ties)
        silent_measures = set(m for m in range(nm) if rng.random() < 0.12)
        for (cs, ce, cq, m) in cells:
            if m in silent_measures:
                prev_single = None
                continue
            pos = cs
            if rng.random() < 0.15:  # the voice enters late
                pos += rng.choice(_durations(cq, ce - cs))
                prev_single = None
            while pos < ce:
                durs = _durations(cq, ce - pos)
                dur = rng.choice(durs)
                r = rng.random()
                if r < 0.12:  # gap (no rest)
                    pos += dur
                    prev_single = None
                    continue
                vv = None if novoice else v
                st = staff if rng.random() > 0.05 else rng.randint(1, nstaves)
                if nstaves == 1 and rng.random() < 0.3:
                    st = None
                if r < 0.22:
                    d["notes"].append({"id": new_id("r"), "t": pos, "dur": dur, "kind": "rest", "voice": vv, "staff": st})
                    pos += dur
                    prev_single = None
                    continue
                # triplet of three equal notes
                if cq % 3 == 0 and r < 0.30 and (2 * cq) // 3 * 3 // 3 > 0 and pos + cq <= ce:
                    td = cq // 3
                    ids = []
                    for i in range(3):
                        n = {"id": new_id(), "t": pos + i * td, "dur": td, "kind": "note", "step": rng.choice(STEPS), "alter": 0,
                             "oct": octave, "voice": vv, "staff": st}
                        d["notes"].append(n)
                        ids.append(n["id"])
                    if rng.random() < 0.7:
                        if rng.random() < 0.2:
                            # a tuplet that does not say what it is: MusicXML shows what the notes show
                            d["tuplets"].append([ids[0], ids[2], rng.choice([None, 3]), None, None, rng.choice([None, "eighth"])])
                        else:
                            d["tuplets"].append([ids[0], ids[2], 3, 2, rng.choice(["eighth", "16th"]), rng.choice(["eighth", "quarter"])])
                    pos += cq
                    prev_single = None
                    continue
                if cq % 5 == 0 and r < 0.34 and pos + cq <= ce:
                    td = cq // 5
                    ids = []
                    for i in range(5):
                        n = {"id": new_id(), "t": pos + i * td, "dur": td, "kind": "note", "step": rng.choice(STEPS), "alter": 0,
                             "oct": octave, "voice": vv, "staff": st}
                        d["notes"].append(n)
                        ids.append(n["id"])
                    d["tuplets"].append([ids[0], ids[4], 5, 4, "16th", "16th"])
                    if rng.random() < 0.3:
                        d["tuplets"].append([ids[1], ids[3], 3, 2, "16th", "16th"])  # nested, starts and stops inside
                    pos += cq
                    prev_single = None
                    continue
                # grace run
                graces = []
                if rng.random() < 0.1:
                    for i in range(rng.randint(1, 3)):
                        g = {"id": new_id("g"), "t": pos, "dur": 0, "kind": "grace", "step": rng.choice(STEPS), "alter": rng.choice([0, 0, 1, -1]),
                             "oct": octave, "voice": vv, "staff": st, "grace_type": rng.choice(["grace", "acciaccatura"])}
                        graces.append(g)
                nch = 1 + (rng.random() < 0.3) + (rng.random() < 0.12)
                steps = rng.sample(STEPS, nch)
                chord = []
                for ci, stp in enumerate(steps):
                    cd = dur
                    if ci > 0 and rng.random() < 0.25:
                        cd = rng.choice(durs)  # chord member of another duration: polyphony inside the voice
                    kind = "unp" if (rng.random() < 0.05 and not graces) else "note"
                    n = {"id": new_id(), "t": pos, "dur": cd, "kind": kind, "step": stp, "alter": rng.choice([0, 0, 0, 1, -1, 2, -2, None]),
                         "oct": octave, "voice": vv, "staff": st}
                    if rng.random() < 0.1:
                        n["stem"] = rng.choice(["up", "down", "up", "down", "none", "double"])
                    if rng.random() < 0.1:
                        n["art"] = rng.sample(ALL_ARTICULATIONS + ["bogus-articulation"], rng.randint(1, 3))
                    if rng.random() < 0.08:
                        n["fing"] = [rng.randint(0, 5) for _ in range(rng.choice([1, 1, 1, 2, 3]))]
                    if rng.random() < 0.05:
                        n["fermata"] = True
                    if rng.random() < 0.06 and cq % 2 == 0 and cd == cq // 2:
                        n["symdur"] = {"type": "eighth"}
                    elif rng.random() < 0.05:
                        # an explicit symbolic duration (shown as given, whatever the numeric duration is)
                        sdur = {"type": rng.choice(["quarter", "half", "16th", "eighth", "whole", "breve", "32nd"])}
                        if rng.random() < 0.5:
                            sdur["dots"] = rng.choice([0, 1, 2, 3])
                        if rng.random() < 0.4:
                            sdur["actual_notes"], sdur["normal_notes"] = rng.choice([(3, 2), (5, 4), (2, 3), (7, 8)])
                        n["symdur"] = sdur
                    if kind == "unp" and rng.random() < 0.5:
                        n["notehead"] = [rng.choice(["x", "diamond", "normal", "triangle"]), rng.random() < 0.5]
                    chord.append(n)
                # tie from the previous single note of this voice (same pitch, adjacent in time)
                if (prev_single is not None and nch == 1 and chord[0]["kind"] == "note" and not graces
                        and prev_single["t"] + prev_single["dur"] == pos and rng.random() < 0.3):
                    chord[0]["step"], chord[0]["alter"], chord[0]["oct"] = prev_single["step"], prev_single["alter"], prev_single["oct"]
                    prev_single["tie"] = chord[0]["id"]
                if graces:
                    # the main note read back is the first note written after the run: the highest of the chord
                    def pk(n):
                        return (12 * n["oct"] + "C.D.EF.G.A.B".index(n["step"]) + (n["alter"] or 0), n["step"])
                    pitched = [n for n in chord if n["kind"] == "note"]
                    if pitched:
                        main = max(pitched, key=pk)
                        # ties (by pitch order) make `max` ambiguous only for equal keys: steps are distinct
                        for a, b in zip(graces, graces[1:]):
                            a["grace_next"] = b["id"]
                        graces[-1]["grace_next"] = main["id"]
                        d["notes"].extend(graces)
                d["notes"].extend(chord)
                adv = dur
                if rng.random() < 0.06 and len(durs) > 1:
                    adv = min(durs)  # the next note starts before this one ends: polyphony inside the voice
                prev_single = chord[0] if (nch == 1 and chord[0]["kind"] == "note" and adv == dur and chord[0]["dur"] == dur) else None
                pos += adv
    # ---- slurs between pitched non-grace notes (time ordered), nested / overlapping
    pitched = sorted([n for n in d["notes"] if n["kind"] == "note"], key=lambda n: (n["t"], n["id"]))
    for _ in range(rng.choice([0, 0, 1, 2, 3])):
        if len(pitched) >= 2:
            i = rng.randrange(len(pitched) - 1)
            j = rng.randrange(i + 1, min(len(pitched), i + 6))
            if pitched[i]["t"] < pitched[j]["t"]:
                d["slurs"].append([pitched[i]["id"], pitched[j]["id"]])
    drop_concurrent_ties(d)
    # a change of divisions sits on a time point of the part (something starts or ends there)
    points = set([m[0] for m in d["measures"]] + [m[1] for m in d["measures"]] + [x[0] for x in d["ts"] + d["ks"] + d["clefs"]])
    for n in d["notes"]:
        points.update((n["t"], n["t"] + n["dur"]))
    d["qd"] = [x for x in d["qd"] if x[0] in points]
    gen_extras(rng, d, nstaves)
    if rng.random() < 0.08:
        d["warm"] = rng.choice([1, 2, 4, 8, 16, 31, 63])  # a construction history with reads in between (stale memos)
    return d


def _midi(n):
    return 12 * (n["oct"] + 1) + "C.D.EF.G.A.B".index(n["step"]) + (n["alter"] or 0)


def drop_concurrent_ties(d):
    """concurrently tied notes of one part have distinct pitches (MusicXML pairs ties by pitch): cut the later of two
    tie chains of one pitch that sound at the same time"""
    byid = {n["id"]: n for n in d["notes"]}
    prev = {n["tie"]: n["id"] for n in d["notes"] if n.get("tie")}
    chains = []
    for n in d["notes"]:
        if n.get("tie") and n["id"] not in prev:
            members = [n]
            while members[-1].get("tie"):
                members.append(byid[members[-1]["tie"]])
            chains.append(members)
    kept = []
    for ch in sorted(chains, key=lambda c: c[0]["t"]):
        lo, hi, p = ch[0]["t"], ch[-1]["t"] + ch[-1]["dur"], _midi(ch[0])
        if any(p == p2 and lo < hi2 and lo2 < hi for lo2, hi2, p2 in kept):
            for m in ch:
                m.pop("tie", None)
        else:
            kept.append((lo, hi, p))


ALL_ARTICULATIONS = ["accent", "breath-mark", "caesura", "detached-legato", "doit", "falloff", "plop", "scoop", "soft-accent", "spiccato",
                     "staccatissimo", "staccato", "stress", "strong-accent", "tenuto", "unstress"]
DYN_MARKS = ["p", "pp", "f", "ff", "mf", "mp", "ppp", "fff", "n", "pppp", "ffffff"]
IMP_MARKS = ["sfz", "fp", "fz", "sf", "rfz", "sffz", "sfpp", "pf"]
DASH_WORDS = ["cresc.", "dim.", "rit.", "accel.", "crescendo", "ritardando", "decresc."]
CONST_WORDS = ["Allegro", "Andante", "Adagio", "legato", "a tempo", "Presto", "dolce"]
PLAIN_WORDS = ["spaghetti", "Zzz 12"]


TEMPO_UNITS = ["q", "q", "q", None, "h", "e", "quarter", "half", "eighth", "16th", "32nd", "64th", "128th", "256th", "whole", "breve", "long"]
BEAT_PERIODS = [0.45, 0.35, 0.7, 0.9, 1.1, 0.65, 0.55, 0.33, 0.47, 1.3, 0.23, 0.77]


def gen_tempo(rng):
    """(bpm, unit) of a tempo mark.  The value written is the quarter tempo bpm x unit factor x dot factor as a decimal text,
    so the dimension that matters is HOW MANY DIGITS that float needs and how large / small it is:
    metronome numbers; whole numbers stored as floats; one to six decimals; tempi computed from a beat period or from MIDI
    microseconds per quarter (60 / 0.45 = 133.33333333333334: 17 significant digits); arbitrary doubles; whole numbers of
    seven and more digits, below and above 2**53; large non-whole values; values below 1 and below 1e-4 (repr switches to
    exponent notation there); zero; every unit name with zero to three dots (factors 1/64 ... 16 x 1.875: a two-decimal
    metronome number becomes a long binary fraction)."""
    r = rng.random()
    if r < 0.22:
        bpm = rng.choice([120, 60, 72, 50, 100, 80, 66, 132, 63, 55, 77, 66.5, 90.25, 47.25, 62.5])
    elif r < 0.30:
        bpm = float(rng.randint(20, 300))  # a whole number stored as a float
    elif r < 0.42:
        bpm = round(rng.uniform(20, 300), rng.randint(1, 6))  # metronome value with 1-6 decimals (100.12345)
    elif r < 0.56:
        if rng.random() < 0.5:
            bpm = 60 / rng.choice(BEAT_PERIODS)  # from a beat period in seconds
        else:
            bpm = 6e7 / rng.randint(150000, 2000000)  # from MIDI microseconds per quarter
    elif r < 0.68:
        bpm = rng.uniform(1, 400)  # any double: up to 17 significant digits
    elif r < 0.76:
        bpm = rng.choice([1234567, 10 ** 6 + 1, 2 ** 24 + 1, 987654321, 2 ** 53 - 1, 2 ** 53 + 2, 10 ** 15 + 3, 123456789012345678])
        if rng.random() < 0.4:
            bpm = rng.randint(10 ** 6, 10 ** 12)
        if rng.random() < 0.5:
            bpm = float(bpm)
    elif r < 0.82:
        bpm = rng.uniform(1, 10) * 10 ** rng.randint(3, 14)  # large, not whole
    elif r < 0.86:
        bpm = float(rng.randint(1, 9999) * 10 ** rng.randint(13, 18)) + rng.choice([0.0, 2.0 ** 54])  # whole, beyond 2**53
    elif r < 0.93:
        bpm = rng.uniform(1, 10) * 10 ** -rng.randint(1, 4)  # below 1
    elif r < 0.985:
        bpm = rng.choice([1e-05, 1.5e-05, 2.5e-07, rng.uniform(1, 10) * 10 ** -rng.randint(5, 12)])  # repr uses an exponent
    else:
        bpm = rng.choice([0, 0.0])
    unit = rng.choice(TEMPO_UNITS)
    if unit is not None and rng.random() < 0.3:
        unit += "." * rng.randint(1, 3)
    return bpm, unit


def gen_extras(rng, d, nstaves):
    """directions, tempi, repeats, endings, barline fermatas, pedals at time points of the part"""
    ex = d["extras"]
    meas = d["measures"]
    if not meas:
        return
    total = meas[-1][1]
    onsets = sorted(set([n["t"] for n in d["notes"]] + [m[0] for m in meas]))
    inner = [t for t in onsets if t < total]

    def staff():
        return None if (nstaves == 1 or rng.random() < 0.6) else rng.randint(1, nstaves)

    def span():
        a = rng.choice(inner)
        later = [t for t in onsets + [total] if t > a]
        return a, rng.choice(later[:6])

    r = rng.random
    for _ in range(rng.choice([0, 0, 1, 2, 3])):
        ex.append(["ConstantLoudnessDirection", rng.choice(inner), None, {"text": rng.choice(DYN_MARKS), "staff": staff()}])
    if r() < 0.25:
        ex.append(["ImpulsiveLoudnessDirection", rng.choice(inner), None, {"text": rng.choice(IMP_MARKS), "staff": staff()}])
    for _ in range(rng.choice([0, 0, 0, 1, 2, 3])):
        a, b = span()
        if r() < 0.5:
            ex.append(["IncreasingLoudnessDirection", a, b, {"text": "crescendo", "wedge": True, "staff": staff()}])
        else:
            ex.append(["DecreasingLoudnessDirection", a, b, {"text": "diminuendo", "wedge": True, "staff": staff()}])
    for _ in range(rng.choice([0, 0, 0, 1, 2])):
        a, b = span()
        ex.append(["@parsed", a, b if r() < 0.8 else None, {"words": rng.choice(DASH_WORDS)}])
    if r() < 0.3:
        ex.append(["@parsed", rng.choice(inner), None, {"words": rng.choice(CONST_WORDS)}])
    used_t = set()
    for _ in range(rng.choice([0, 0, 1, 1, 2])):
        t = rng.choice([m[0] for m in meas] + inner[:1])
        if t not in used_t:
            used_t.add(t)
            bpm, unit = gen_tempo(rng)
            ex.append(["Tempo", t, None, {"bpm": bpm, "unit": unit}])
    if len(meas) >= 2 and r() < 0.35:
        i = rng.randrange(len(meas))
        j = rng.randrange(i, len(meas))
        ex.append(["Repeat", meas[i][0], meas[j][1], {}])
        if r() < 0.5 and j + 1 < len(meas):
            ex.append(["Ending", meas[j][0], meas[j][1], {"number": 1}])
            ex.append(["Ending", meas[j + 1][0], meas[j + 1][1], {"number": 2}])
        if r() < 0.3 and j + 1 < len(meas):
            # a second repeat right behind the first: backward and forward repeat meet at one barline time
            ex.append(["Repeat", meas[j + 1][0], meas[rng.randrange(j + 1, len(meas))][1], {}])
    elif r() < 0.08 and len(inner) >= 2:
        # a repeat (or an ending) that starts and / or ends inside a measure: <barline location="middle">
        a, b = span()
        ex.append([rng.choice(["Repeat", "Repeat", "Ending"]), a, b, {}])
        if ex[-1][0] == "Ending":
            ex[-1][3]["number"] = rng.choice([1, 2, "1, 2"])
    if r() < 0.2:
        m = rng.choice(meas)
        ex.append(["Fermata", m[0], None, {"ref": "left"}])
    if r() < 0.15:
        cand = [t for t in inner if t not in [m[0] for m in meas] and t not in [x[0] for x in d["qd"]]]
        if cand:
            ex.append(["Fermata", rng.choice(cand), None, {"ref": "middle"}])
    if r() < 0.15:
        ex.append(["Fermata", total, None, {"ref": "right"}])
    if r() < 0.03:
        ex.append(["Fermata", rng.choice(inner + [total]), None, {"ref": None}])  # outside the domain: no location
    for _ in range(rng.choice([0, 0, 0, 1, 2])):
        a, b = span()
        # pedals do not overlap one another (a single pedal line)
        if all(not (e[0] == "SustainPedalDirection" and a < e[2] and e[1] < b) for e in ex):
            ex.append(["SustainPedalDirection", a, b, {"line": r() < 0.5, "staff": staff()}])
    for _ in range(rng.choice([0, 0, 0, 1, 2, 3])):
        r3 = r()
        if r3 < 0.4:
            ex.append(["RomanNumeral", rng.choice(inner), None, {"text": rng.choice(["I", "V7", "ii6", "IV", "viio", "V65", "N6"])}])
        elif r3 < 0.8:
            ex.append(["ChordSymbol", rng.choice(inner), None, {"root": rng.choice("CDEFGAB"), "kind": rng.choice(["maj7", "m", "7", "dim", None, ""]),
                                                                "bass": rng.choice([None, None, "E", "Bb"])}])
        else:
            # (the constructor keeps the first run of letters, upper case, when it is one of the six cadence names)
            ex.append(["Cadence", rng.choice(inner), None, {"text": rng.choice(["PAC", "IAC", "HC", "pac", "hc:", "DC", "EC", "PC", "iac x", "miacx"])}])
    if r() < 0.01:
        ex.append(["Words", rng.choice(inner), None, {"text": rng.choice(PLAIN_WORDS)}])
    if r() < 0.22:
        # score.Staff objects (the kern importer makes one per staff): <staff-details>, at the start and / or later on
        for t in sorted(set([0] * (r() < 0.8) + rng.sample(inner, min(len(inner), rng.choice([0, 0, 1, 2]))))):
            for k in range(rng.choice([1, 1, nstaves])):
                ex.append(["Staff", t, None, {"number": 1, "lines": rng.choice([5, 5, 5, 1, 4, 6, 0, None, 11])}])


def gen_numeric(rng):
    """one plain voice, but every NUMBER the exporter prints is taken from the wide end of its range: a tempo mark in every
    measure (gen_tempo), divisions up to seven digits (durations, backup and forward of millions of ticks), measure names of
    many digits, multi-digit fingerings and ending numbers, octaves 0-9, time signatures with large terms"""
    q = rng.choice([1, 4, 480, 768, 960, 10080, 15360, 1209600, 3628800])
    beats, bt = rng.choice([(4, 4), (3, 4), (12, 8), (17, 16), (2, 2), (33, 32), (7, 4), (128, 128)])
    while (4 * beats * q) % bt:
        q *= 2
    ln = 4 * beats * q // bt
    nm = rng.randint(2, 6)
    base = rng.choice([1, 98, 999, 123456, 1234567, 10 ** 9 + 7])
    d = {"id": "P1", "name": "numbers", "abbr": None, "divs": q, "qd": [], "ts": [[0, beats, bt]],
         "ks": [[0, rng.randint(-7, 7), None]], "clefs": [[0, 1, "G", 2, 0]], "measures": [], "notes": [], "slurs": [],
         "tuplets": [], "extras": [], "pages": True, "family": "numeric"}
    nid = 0
    for m in range(nm):
        t0 = m * ln
        d["measures"].append([t0, t0 + ln, m + 1, str(base + m)])
        bpm, unit = gen_tempo(rng)
        d["extras"].append(["Tempo", t0, None, {"bpm": bpm, "unit": unit}])
        if m > 0 and rng.random() < 0.3:
            beats2, bt2 = rng.choice([(4, 4), (3, 4), (12, 8), (17, 16), (33, 32), (128, 128)])
            if (4 * beats2 * q) % bt2 == 0 and 4 * beats2 * q // bt2 == ln:
                d["ts"].append([t0, beats2, bt2])
        pos = t0
        # cuts on the grid of sixteenths (an arbitrary number of ticks makes estimate_symbolic_duration search for minutes)
        g = q // 4 if q % 4 == 0 else q
        cuts = sorted(set([t0, t0 + ln] + [t0 + g * rng.randrange(1, ln // g) for _ in range(rng.randint(0, 2)) if ln // g > 1]))
        for a, b in zip(cuts, cuts[1:]):
            nid += 1
            if rng.random() < 0.2:
                d["notes"].append({"id": "r%d" % nid, "t": a, "dur": b - a, "kind": "rest", "voice": 1, "staff": 1})
            else:
                n = {"id": "n%d" % nid, "t": a, "dur": b - a, "kind": "note", "step": rng.choice(STEPS),
                     "alter": rng.choice([0, 0, 1, -1, 2, -2, 3, -3, None]), "oct": rng.randint(0, 9), "voice": rng.choice([1, 1, 7, 16]), "staff": 1}
                if rng.random() < 0.3:
                    n["fing"] = [rng.choice([0, 5, 10, 12, 123, 1234567])]
                d["notes"].append(n)
    v = set(n["voice"] for n in d["notes"])
    if len(v) > 1:
        for n in d["notes"]:
            n["voice"] = 1
    if rng.random() < 0.6:
        # a second voice that enters late and stops early: <backup> over the whole measure, <forward> across the gaps
        g = q // 4 if q % 4 == 0 else q
        for m in range(nm):
            t0 = m * ln
            if ln // g >= 3 and rng.random() < 0.8:
                a = rng.randrange(0, ln // g - 1)
                b = rng.randrange(a + 1, ln // g + 1)
                nid += 1
                d["notes"].append({"id": "m%d" % nid, "t": t0 + a * g, "dur": (b - a) * g, "kind": "note", "step": rng.choice(STEPS),
                                   "alter": 0, "oct": rng.randint(0, 9), "voice": 2, "staff": 1})
    if nm >= 3 and rng.random() < 0.4:
        d["extras"].append(["Repeat", 0, 2 * ln, {}])
        d["extras"].append(["Ending", ln, 2 * ln, {"number": rng.choice([1, 12, 1234567])}])
        d["extras"].append(["Ending", 2 * ln, 3 * ln, {"number": 2}])
    return {"k": "score", "parts": [d], "struct": [0]}


def gen_deep(rng):
    """SEVEN OR MORE ranges of one kind (slurs / tuplets / wedges / dashes) open at the same moment on a plain one-voice line
    (nested: range i from note i to note N-1-i, or staggered: range i from note i to note i+depth): the round trip must
    return every range with its own start and end (a range number handed out twice pairs a stop with the wrong start)"""
    depth = rng.choice([7, 7, 8, 9, 10])
    kind = rng.choice(["slurs", "tuplets", "wedge", "dashes"])
    nested = rng.random() < 0.5
    N = 2 * depth + rng.choice([0, 1, 2])
    q = rng.choice([1, 2, 4])
    d = {"id": "P1", "name": "Deep", "abbr": None, "divs": q, "qd": [], "ts": [[0, 4, 4]], "ks": [[0, 0, None]],
         "clefs": [[0, 1, "G", 2, 0]], "measures": [], "notes": [], "slurs": [], "tuplets": [], "extras": [], "pages": True,
         "family": "deep-" + kind}
    for k in range(N):
        d["notes"].append({"id": "n%02d" % k, "t": k * q, "dur": q, "kind": "note", "step": STEPS[k % 7], "alter": None, "oct": 4,
                           "voice": 1, "staff": 1})
    for m in range((N + 3) // 4):
        d["measures"].append([4 * m * q, min(4 * (m + 1), N) * q, m + 1, str(m + 1)])
    for i in range(depth):
        a, b = (i, N - 1 - i) if nested else (i, i + depth)
        if kind == "slurs":
            d["slurs"].append(["n%02d" % a, "n%02d" % b])
        elif kind == "tuplets":
            d["tuplets"].append(["n%02d" % a, "n%02d" % b, 3, 2, "quarter", "quarter"])
        elif kind == "wedge":
            inc = rng.random() < 0.5
            d["extras"].append(["IncreasingLoudnessDirection" if inc else "DecreasingLoudnessDirection", a * q, (b + 1) * q,
                                {"text": "crescendo" if inc else "diminuendo", "wedge": True, "staff": 1}])
        else:
            d["extras"].append(["@parsed", a * q, (b + 1) * q, {"words": rng.choice(DASH_WORDS)}])
    return {"k": "score", "parts": [d], "struct": [0]}


def gen_history(rng):
    """a HISTORY: another file is loaded and its notes' mutable attributes are edited IN PLACE before the score under test is
    saved and loaded (state shared between import results must not leak into a later, unrelated load)"""
    a = gen_score(rng) if rng.random() < 0.6 else gen_deep(rng)
    b = None if rng.random() < 0.5 else (gen_score(rng) if rng.random() < 0.7 else gen_deep(rng))
    return {"k": "history", "a": a, "b": b, "edit": rng.randrange(4)}


def eval_history(desc):
    """load(xB) before and after [load(xA); edit every loaded note's symbolic_duration dict / articulation list in place]
    must be the same score and re-save to the same bytes: the second score comes back as a fresh process returns it"""
    import copy
    import partitura

    ev = Eval()
    try:
        xa = partitura.save_musicxml(build_score(desc["a"]))
        xb = partitura.save_musicxml(build_score(desc["b"])) if desc.get("b") else xa
        ref = copy.deepcopy(abstract_score(_load(xb)))
        refbytes = partitura.save_musicxml(_load(xb))
        la = _load(xa)
    except Exception as e:
        ev.info["history_skipped"] = "%s: %s" % (type(e).__name__, e)
        return ev
    mode = desc.get("edit", 0)
    nedits = 0
    for part in la.parts:
        for n in part.iter_all(__import__("partitura.score", fromlist=["x"]).GenericNote, include_subclasses=True):
            sd = n.symbolic_duration
            if isinstance(sd, dict):
                if mode in (0, 3):
                    sd["dots"] = (sd.get("dots") or 0) + 1
                if mode in (1, 3):
                    sd["type"] = "long" if sd.get("type") != "long" else "breve"
                if mode in (2, 3):
                    sd["actual_notes"], sd["normal_notes"] = 7, 4
                nedits += 1
            if isinstance(getattr(n, "articulations", None), list):
                n.articulations.append("staccato")
            if isinstance(getattr(n, "technical", None), list):
                n.technical.clear()
    ev.info["history_edits"] = nedits
    try:
        got = abstract_score(_load(xb))
        gotbytes = partitura.save_musicxml(_load(xb))
    except Exception as e:
        ev.oracle.append("history: loading/saving the second score raised %s: %s after a loaded note of another file was edited in place"
                         % (type(e).__name__, e))
        return ev
    df = diff_abstract(ref, got)
    if df:
        ev.oracle.append("history/shared-state: load(x) after an in-place edit of ANOTHER loaded score's notes differs from load(x) before: %s" % _short(df))
    elif gotbytes != refbytes:
        ev.oracle.append("history/shared-state: save(load(x)) gives other bytes after an in-place edit of another loaded score's notes")
    ev.key = "history:%d:%s:%d" % (mode, "same" if not desc.get("b") else "other", min(nedits, 40))
    return ev


def gen_score(rng, big=False):
    np_ = rng.choice([1, 1, 2, 3, 3, 4])
    parts = [gen_part(rng, "P%d" % (i + 1), big) for i in range(np_)]
    # group structure: nested lists of part indices / groups
    ids = list(range(np_))
    struct = []
    if np_ >= 2 and rng.random() < 0.5:
        # arbitrary nesting: a group may be followed by further members of the enclosing group (A{B{p1}, p2}),
        # siblings may both be groups, groups may nest three deep
        def gen_struct(sub, depth):
            out, i = [], 0
            while i < len(sub):
                if depth < 3 and rng.random() < 0.5:
                    k = rng.randint(1, len(sub) - i)
                    out.append({"g": [rng.choice(["brace", "bracket", None]), rng.choice(["Strings", "All", None]), depth + 1],
                                "c": gen_struct(sub[i:i + k], depth + 1)})
                    i += k
                else:
                    out.append(sub[i])
                    i += 1
            return out

        struct = gen_struct(ids, 0)
    elif np_ >= 2 and rng.random() < 0.6:
        k = rng.randint(1, np_ - 1)
        inner = {"g": [rng.choice(["brace", "bracket", None]), rng.choice(["Strings", None]), 1], "c": ids[:k]}
        if rng.random() < 0.4:
            inner = {"g": ["bracket", "All", 2], "c": [inner]}
        struct = [inner] + ids[k:]
    else:
        struct = ids
    return {"k": "score", "parts": parts, "struct": struct}


# ====================================================================== construction
def build_part(d):
    import partitura.score as S

    p = S.Part(d["id"], part_name=d.get("name"), part_abbreviation=d.get("abbr"), quarter_duration=d["divs"])
    warm = int(d.get("warm") or 0)

    def Wm(bit):
        # `warm` bit mask as in gen_score.build_part: read-only views (maps, note arrays, notes_tied, number_of_staves,
        # symbolic durations ...) in the middle of the construction; the finished part must be the one of the plain build
        if warm & (1 << bit):
            import gen_score

            gen_score.warm_readers(p, bool(warm & 32))

    for t, q in d.get("qd", []):
        p.set_quarter_duration(t, q)
    if d.get("pages"):
        p.add(S.Page(1), 0)
        p.add(S.System(1), 0)
    for t, b, bt in d.get("ts", []):
        p.add(S.TimeSignature(b, bt), t)
    for t, f, m in d.get("ks", []):
        p.add(S.KeySignature(f, m), t)
    for t, staff, sign, line, oc in d.get("clefs", []):
        p.add(S.Clef(staff, sign, line, oc), t)
    Wm(0)
    byid = {}
    for n in d.get("notes", []):
        kw = dict(id=n["id"], voice=n.get("voice"), staff=n.get("staff"))
        if n.get("symdur") is not None:
            kw["symbolic_duration"] = dict(n["symdur"])
        if n.get("stem"):
            kw["stem_direction"] = n["stem"]
        if n.get("art"):
            kw["articulations"] = list(n["art"])
        if n.get("fing"):
            kw["technical"] = [S.Fingering(f) for f in n["fing"]]
        k = n["kind"]
        if k == "rest":
            kw.pop("stem_direction", None)
            o = S.Rest(**kw)
        elif k == "unp":
            if n.get("notehead"):
                kw["notehead"], kw["noteheadstyle"] = n["notehead"]
            o = S.UnpitchedNote(step=n["step"], octave=n["oct"], **kw)
        elif k == "grace":
            o = S.GraceNote(n.get("grace_type", "grace"), step=n["step"], octave=n["oct"], alter=n.get("alter"), **kw)
        else:
            o = S.Note(step=n["step"], octave=n["oct"], alter=n.get("alter"), **kw)
        p.add(o, n["t"], n["t"] + n["dur"])
        byid[n["id"]] = o
        if n.get("fermata"):
            f = S.Fermata(o)
            p.add(f, n["t"])
            o.fermata = f
    Wm(1)
    for n in d.get("notes", []):
        if n.get("tie"):
            a, b = byid[n["id"]], byid[n["tie"]]
            a.tie_next = b
            b.tie_prev = a
        if n.get("grace_next"):
            a, b = byid[n["id"]], byid[n["grace_next"]]
            a.grace_next = b
            if isinstance(b, S.GraceNote):
                b.grace_prev = a
    Wm(2)
    for a, b in d.get("slurs", []):
        sl = S.Slur(byid[a], byid[b])
        p.add(sl, byid[a].start.t, byid[b].end.t)
    for a, b, an, nn, at, nt in d.get("tuplets", []):
        tu = S.Tuplet(byid[a], byid[b], actual_notes=an, normal_notes=nn, actual_type=at, normal_type=nt)
        p.add(tu, byid[a].start.t, byid[b].end.t)
    for cls, st, en, kw in d.get("extras", []):
        kw = dict(kw)
        if cls == "@parsed":
            from partitura.directions import parse_direction
            o = parse_direction(kw["words"])[0]
            if kw.get("staff"):
                o.staff = kw["staff"]
        else:
            o = getattr(S, cls)(**kw)
        p.add(o, st, en)
    Wm(3)
    for st, en, num, name in d.get("measures", []):
        p.add(S.Measure(number=num, name=name), st, en)
    Wm(4)
    return p


def build_score(sd):
    import partitura.score as S

    parts = [build_part(pd) for pd in sd["parts"]]

    def mk(x, parent=None):
        if isinstance(x, int):
            parts[x].parent = parent
            return parts[x]
        g = S.PartGroup(x["g"][0], x["g"][1], x["g"][2])
        g.parent = parent
        g.children = [mk(c, g) for c in x["c"]]
        return g

    struct = [mk(x) for x in sd.get("struct", list(range(len(parts))))]
    return S.Score(struct, id=sd.get("id"))


# ====================================================================== canonical abstraction
def _symdur(n):
    sd = n.symbolic_duration or {}
    if not isinstance(sd, dict):
        return ("?", repr(sd))
    return (sd.get("type"), sd.get("dots") or 0, sd.get("actual_notes"), sd.get("normal_notes"))


def _tuplet_shown(o):
    """(actual_notes, normal_notes, actual_type, normal_type) as MusicXML shows them: the tuplet's own four values when it has
    all of them, else what the symbolic duration of its first note implies, else nothing"""
    vals = (o.actual_notes, o.normal_notes, o.actual_type, o.normal_type)
    if None not in vals:
        return vals
    sd = (o.start_note.symbolic_duration or {}) if o.start_note is not None else {}
    if isinstance(sd, dict) and sd.get("actual_notes") and sd.get("normal_notes") and sd.get("type"):
        return (sd["actual_notes"], sd["normal_notes"], sd["type"], sd["type"])
    return (None, None, None, None)


def quarter_pos(part):
    """exact position in quarter notes of a timeline time (own piecewise computation, Fractions)"""
    qt = [int(x) for x in part._quarter_times]
    qd = [int(x) for x in part._quarter_durations]

    def f(t):
        acc = Fraction(0)
        for i, (t0, q) in enumerate(zip(qt, qd)):
            t1 = qt[i + 1] if i + 1 < len(qt) else None
            if i == 0 and t < t0:
                return Fraction(t - t0, q)
            if t1 is None or t < t1:
                return acc + Fraction(t - t0, q)
            acc += Fraction(t1 - t0, q)
        return acc

    return f


def note_key(n):
    import partitura.score as S

    return (n.start.t, n.end.t if n.end is not None else -1, type(n).__name__, str(n.id), getattr(n, "step", "") or "",
            getattr(n, "octave", 0) or 0, getattr(n, "alter", 0) or 0, n.voice or 1, n.staff or 1, str(n.stem_direction),
            repr(_symdur(n)))


# the articulations MusicXML 3.1 has an element for (<!ELEMENT articulations ...>, minus other-articulation); any other string
# in note.articulations is not expressible
EXPORTED_ARTICULATIONS = {"accent", "breath-mark", "caesura", "detached-legato", "doit", "falloff", "plop", "scoop", "soft-accent",
                          "spiccato", "staccatissimo", "staccato", "stress", "strong-accent", "tenuto", "unstress"}
DERIVED_END = ("Page", "System", "ConstantLoudnessDirection", "ConstantTempoDirection", "ConstantArticulationDirection",
               "ResetTempoDirection")


def _srt(it):
    return sorted(it, key=repr)


def abstract_part(part):
    """canonical, order-free description of everything the property lists; notes are referred to by their rank in
    `note_key` order"""
    import partitura.score as S

    notes = sorted(part.iter_all(S.GenericNote, include_subclasses=True), key=note_key)
    rank = {id(n): i for i, n in enumerate(notes)}

    def ref(n):
        return None if n is None else rank.get(id(n), "ext")

    A = {"id": part.id, "name": part.part_name or None, "abbr": part.part_abbreviation or None}
    A["divisions"] = _srt((int(t), int(q)) for t, q in zip(part._quarter_times, part._quarter_durations))
    # a quarter duration equal to its predecessor is no change (set_quarter_duration drops it / the writer repeats it)
    dv = []
    for t, q in A["divisions"]:
        if not dv or dv[-1][1] != q:
            dv.append((t, q))
    A["divisions"] = dv
    A["measures"] = _srt((m.start.t, m.end.t, m.number, None if m.name is None else str(m.name)) for m in part.iter_all(S.Measure))
    A["timesigs"] = _srt((o.start.t, o.beats, o.beat_type) for o in part.iter_all(S.TimeSignature))
    A["keysigs"] = _srt((o.start.t, o.fifths, o.mode or None) for o in part.iter_all(S.KeySignature))
    A["clefs"] = _srt((o.start.t, o.staff or 1, o.sign, o.line, o.octave_change or 0) for o in part.iter_all(S.Clef))
    nl = []
    for n in notes:
        kind = type(n).__name__
        e = {"kind": kind, "id": n.id, "start": n.start.t, "end": n.end.t, "voice": n.voice or 1, "staff": n.staff or 1,
             "symdur": _symdur(n), "tie_next": ref(n.tie_next), "tie_prev": ref(n.tie_prev),
             "art": _srt(a for a in (n.articulations or []) if a in EXPORTED_ARTICULATIONS),
             "fing": [getattr(t, "fingering", None) for t in (n.technical or []) if isinstance(t, S.Fingering)],
             "stem": n.stem_direction, "fermata": n.fermata is not None}
        if isinstance(n, (S.Note, S.UnpitchedNote)):
            e["step"], e["octave"] = n.step, n.octave
        if isinstance(n, S.Note):
            e["alter"] = n.alter or 0
        if isinstance(n, S.GraceNote):
            e["grace_type"] = n.grace_type
            e["grace_next"] = ref(n.grace_next)
            e["grace_prev"] = ref(n.grace_prev)
        if isinstance(n, S.UnpitchedNote):
            e["notehead"] = n.notehead
            e["notehead_filled"] = None if n.notehead is None else bool(n.noteheadstyle)
        nl.append(e)
    A["notes"] = nl
    A["slurs"] = _srt((ref(o.start_note), ref(o.end_note), o.start.t if o.start else None, o.end.t if o.end else None)
                        for o in part.iter_all(S.Slur))
    A["tuplets"] = _srt(((ref(o.start_note), ref(o.end_note), o.start.t if o.start else None, o.end.t if o.end else None)
                          + _tuplet_shown(o) for o in part.iter_all(S.Tuplet)))
    dirs = []
    for o in part.iter_all(S.Direction, include_subclasses=True):
        cls = type(o).__name__
        end = None if (cls in DERIVED_END or o.end is None) else o.end.t
        dirs.append((o.start.t, cls, o.text, o.raw_text or o.text, o.staff or 1, end, bool(getattr(o, "wedge", False)),
                     bool(getattr(o, "line", False))))
    A["directions"] = _srt(dirs)
    A["words"] = _srt((o.start.t, o.text, o.staff or 1) for o in part.iter_all(S.Words))
    A["tempi"] = _srt((o.start.t, _qtempo(o)) for o in part.iter_all(S.Tempo))
    A["repeats"] = _srt((o.start.t if o.start else None, o.end.t if o.end else None) for o in part.iter_all(S.Repeat))
    A["endings"] = _srt(((o.start.t if o.start else None, o.end.t if o.end else None, str(o.number)) for o in part.iter_all(S.Ending)))
    A["barline_fermatas"] = _srt(((o.start.t, o.ref) for o in part.iter_all(S.Fermata) if not isinstance(o.ref, S.TimedObject)))
    A["harmony"] = _srt(((o.start.t, type(o).__name__, getattr(o, "text", None)) for o in part.iter_all(S.Harmony, include_subclasses=True)))
    A["cadences"] = _srt(((o.start.t, o.text) for o in part.iter_all(S.Cadence)))
    # staffs by their lines (0 lines = none: not written); the exporter writes no staff number on <staff-details>
    A["staffs"] = _srt(((o.start.t, o.lines or None) for o in part.iter_all(S.Staff)))
    return A


def _qtempo(o):
    from partitura.utils.music import to_quarter_tempo

    try:
        return Fraction(*float(to_quarter_tempo(str(o.unit or "q"), o.bpm)).as_integer_ratio())
    except Exception as e:  # unknown unit
        return "err:%s" % type(e).__name__


def tempo_report(s, s2, xml_bytes):
    """where a tempo was damaged (diagnosis only, no verdict): the quarter tempi of the score, the decimal texts in the file
    with the binary64 number each denotes (own reading: exact rational of the text, correctly rounded), the loaded tempi"""
    import partitura.score as S
    from lxml import etree

    def q(o):
        v = _qtempo(o)
        return repr(float(v)) if isinstance(v, Fraction) else v

    try:
        before = [[(o.start.t, q(o)) for o in p.iter_all(S.Tempo)] for p in s.parts]
        after = [[(o.start.t, q(o)) for o in p.iter_all(S.Tempo)] for p in s2.parts]
        texts = []
        for e in etree.fromstring(xml_bytes).iter("sound"):
            t = e.get("tempo")
            if t is not None:
                try:
                    texts.append("%s (denotes %r)" % (t, float(Fraction(t))))
                except (ValueError, OverflowError, ZeroDivisionError):
                    texts.append("%s (not a decimal)" % t)
        return " -- quarter tempi of the score %s; <sound tempo> in the file: %s; loaded %s" % (_short(before), _short(texts), _short(after))
    except Exception as e:  # a diagnosis must not hide the failure
        return " -- (no tempo diagnosis: %s)" % type(e).__name__


def _structure(ps):
    import partitura.score as S

    out = []
    for x in ps:
        if isinstance(x, S.PartGroup):
            out.append(["group", x.group_symbol, x.group_name, x.number, _structure(x.children)])
        else:
            out.append(["part", x.id])
    return out


def abstract_score(scr):
    return {"structure": _structure(scr.part_structure), "parts": [abstract_part(p) for p in scr.parts]}


def diff_abstract(a, b, path=""):
    """list of human readable differences (first few)"""
    out = []
    if isinstance(a, dict) and isinstance(b, dict):
        for k in sorted(set(a) | set(b)):
            if k not in a or k not in b:
                out.append("%s/%s: %r vs %r" % (path, k, a.get(k, "<missing>"), b.get(k, "<missing>")))
            else:
                out += diff_abstract(a[k], b[k], path + "/" + str(k))
    elif isinstance(a, (list, tuple)) and isinstance(b, (list, tuple)) and len(a) == len(b) and a and isinstance(a[0], (dict, list)):
        for i, (x, y) in enumerate(zip(a, b)):
            out += diff_abstract(x, y, "%s[%d]" % (path, i))
    elif a != b and not (isinstance(a, (list, tuple)) and isinstance(b, (list, tuple)) and list(a) == list(b)):
        if isinstance(a, list) and isinstance(b, list):
            ra, rb = list(a), list(b)
            for x in list(ra):
                if x in rb:
                    ra.remove(x)
                    rb.remove(x)
            out.append("%s: only before %s, only after %s" % (path, _short(ra), _short(rb)))
        else:
            out.append("%s: %s vs %s" % (path, _short(a), _short(b)))
    return out


def _short(x):
    s = repr(x)
    return s if len(s) < 260 else s[:260] + "..."


# ====================================================================== what was written
def _sig(el):
    def rec(e):
        at = sorted((k, v) for k, v in e.attrib.items() if k != "number" or e.tag in ("ending",))
        return (e.tag, tuple(at), (e.text or "").strip(), tuple(rec(c) for c in e if isinstance(c.tag, str)))

    return "%s%08x" % (el.tag[:3], zlib.crc32(repr(rec(el)).encode()))


class NotMusicXML(Exception):
    """a number in the written file that is not a number of MusicXML (xs:decimal / xs:integer have no exponent, no inf/nan)"""


def _num(text, where):
    """the integer a numeric text of the file denotes; a text that is no xs:decimal at all (`2.54016e+07`) is not MusicXML:
    NotMusicXML.  (A decimal that is not whole is MusicXML, but nothing partitura's integer time line can have produced:
    the plain ValueError makes the case unobservable rather than a verdict.)"""
    import re

    t = (text or "").strip()
    if not re.fullmatch(r"[+-]?(\d+(\.\d*)?|\.\d+)", t):
        raise NotMusicXML("<%s>%s</%s> is not a decimal number" % (where, text, where))
    f = Fraction(t)
    if f.denominator != 1:
        raise ValueError("non-integral <%s>%s" % (where, text))
    return int(f)


def _int(e, tag, default=0):
    c = e.find(tag)
    if c is None or c.text is None:
        return default
    if tag == "duration":
        return _num(c.text, tag)
    return int(c.text)


def parse_written(xml_bytes):
    """[(part id, [measure element children as event tuples])] of the bytes written"""
    from lxml import etree

    root = etree.fromstring(xml_bytes, etree.XMLParser(remove_comments=True, remove_blank_text=True))
    out = []
    for part_el in root.findall("part"):
        ms = []
        for m_el in part_el.findall("measure"):
            evs = []
            for e in m_el:
                if e.tag == "note":
                    evs.append(("n", e.get("id"), _int(e, "duration"), e.find("chord") is not None, e.find("grace") is not None,
                                _int(e, "voice"), _int(e, "staff"), e))
                elif e.tag == "backup":
                    evs.append(("b", _int(e, "duration")))
                elif e.tag == "forward":
                    evs.append(("f", _int(e, "duration")))
                else:
                    evs.append(("o", ORDER.get(e.tag, len(ORDER)), _sig(e), e))
            ms.append((m_el.get("number"), evs))
        out.append((part_el.get("id"), ms))
    return root, out


def ev_text(evs, idx_of):
    """canonical text of an event list (what drv_c03 prints for `lin`)"""
    out = []
    for e in evs:
        if e[0] == "n":
            out.append("n:%d:%d:%s:%s:%d:%d" % (idx_of(e[1]), e[2], W.b(e[3]), W.b(e[4]), e[5], e[6]))
        elif e[0] in "bf":
            out.append("%s:%d" % (e[0], e[1]))
        else:
            out.append("o:%d:%s" % (e[1], e[2]))
    return "[" + ",".join(out) + "]"


def ev_tokens(evs, idx_of):
    toks = [str(len(evs))]
    for e in evs:
        if e[0] == "n":
            toks += ["n", str(idx_of(e[1])), str(e[2]), W.b(e[3]), W.b(e[4]), str(e[5]), str(e[6])]
        elif e[0] in "bf":
            toks += [e[0], str(e[1])]
        else:
            toks += ["o", str(e[1]), e[2]]
    return " ".join(toks)



# ====================================================================== element codecs (Model/XmlNote.lean)
def _enc(x):
    """string token that both sides print the same way: ASCII letters, digits, `_`, `.` stay; else %xx"""
    x = str(x)
    if x == "":
        return "%"
    out = []
    for ch in x:
        if (ch.isascii() and ch.isalnum()) or ch in "_.":
            out.append(ch)
        elif ord(ch) < 256:
            out.append("%%%02x" % ord(ch))
        else:
            raise ValueError("non-latin1 char in wire string")
    return "".join(out)


def _eopt(f, x):
    return "-" if x is None else f(x)


def _text(el):
    t = el.text or ""
    return "" if (len(el) and not t.strip()) else t


def _kids(el):
    return [c for c in el if isinstance(c.tag, str)]


def xml_tokens(el):
    """prefix encoding of an element tree (request side)"""
    toks = [el.tag, str(len(el.attrib))]
    for k, v in el.attrib.items():
        toks += [k, _enc(v)]
    ks = _kids(el)
    toks += [_enc(_text(el)), str(len(ks))]
    for c in ks:
        toks += xml_tokens(c)
    return toks


def xml_text(el):
    """canonical text of an element tree (what drv_c03 prints)"""
    return "(%s;%s;%s;%s)" % (el.tag, ",".join("%s=%s" % (k, _enc(v)) for k, v in el.attrib.items()), _enc(_text(el)),
                              ",".join(xml_text(c) for c in _kids(el)))


def _tuplet_info(o):
    vals = (o.actual_notes, o.actual_type, o.normal_notes, o.normal_type)
    return vals


def note_attr_tokens(n, el, nstaves):
    """NoteAttrs of Model/XmlNote.lean from the score's note; what the measure writer decides (voice, chord) and the range
    numbers (streams lin / numg) are taken from the element written; None = not expressible on the wire"""
    import partitura.score as S

    toks = [_eopt(_enc, el.get("id") if n.id is not None else None)]
    if isinstance(n, S.Note):
        g = "-"
        if isinstance(n, S.GraceNote):
            g = {"grace": "g", "acciaccatura": "a", "appoggiatura": "p"}.get(n.grace_type)
            if g is None:
                return None
        toks += ["p", _enc(n.step), _eopt(W.i, n.alter), W.i(n.octave), g]
    elif isinstance(n, S.UnpitchedNote):
        toks += ["u", _enc(n.step), W.i(n.octave)]
        toks += ["-"] if n.notehead is None else [_enc(n.notehead), W.b(n.noteheadstyle)]
    elif isinstance(n, S.Rest):
        toks += ["r", W.b(n.hidden)]
    else:
        return None
    toks += [W.i(0 if isinstance(n, S.GraceNote) else n.end.t - n.start.t), W.b(el.find("chord") is not None),
             W.b(n.tie_prev is not None), W.b(n.tie_next is not None), W.i(_int(el, "voice")),
             _eopt(_enc, n.stem_direction), W.b(n.fermata is not None)]
    arts = list(n.articulations or [])
    toks.append(str(len(arts)))
    toks += [a if (a and all(c.isalnum() or c == "-" for c in a) and a != "-") else "?" for a in arts]
    tech = list(n.technical or [])
    toks.append(str(len(tech)))
    for t in tech:
        if isinstance(t, S.Fingering):
            if not isinstance(t.fingering, int) or t.fingering < 0:
                return None
            toks += ["f", W.i(t.fingering)]
        else:
            toks.append("o")
    sd = n.symbolic_duration or {}
    toks += [_eopt(_enc, sd.get("type")), W.i(sd.get("dots", 0) or 0), _eopt(W.i, sd.get("actual_notes")),
             _eopt(W.i, sd.get("normal_notes")), _eopt(W.i, n.staff), W.i(nstaves)]
    for kind, typ, objs in (("slur", "stop", n.slur_stops), ("slur", "start", n.slur_starts), ("tuplet", "stop", n.tuplet_stops)):
        nums = [int(x.get("number")) for x in el.findall("notations/" + kind) if x.get("type") == typ]
        if len(nums) != len(objs):
            return None
        toks += [str(len(nums))] + [str(k) for k in nums]
    nums = [int(x.get("number")) for x in el.findall("notations/tuplet") if x.get("type") == "start"]
    infos = [_tuplet_info(o) for o in n.tuplet_starts]
    if len(nums) != len(infos) or len(set(infos)) > 1:
        return None  # which tuplet got which number is the counter's business (stream numg)
    toks.append(str(len(nums)))
    for k, (an, ta, nn, tn) in zip(nums, infos):
        toks += [str(k), _eopt(W.i, an), _eopt(_enc, ta), _eopt(W.i, nn), _eopt(_enc, tn)]
    return " ".join(toks)


def note_read_text(ln, el):
    """canonical text of NoteRead: every field from the note load_musicxml made, except what a note object does not show
    (the <chord/> flag, the tie types, the numbers of slur/tuplet elements), which the harness reads from the element"""
    import partitura.score as S

    if isinstance(ln, S.Note):
        body = "(p,%s,%s,%s,%s)" % (_eopt(_enc, ln.step), _eopt(W.i, ln.alter), _eopt(W.i, ln.octave),
                                    ln.grace_type if isinstance(ln, S.GraceNote) else "-")
    elif isinstance(ln, S.UnpitchedNote):
        body = "(u,%s,%s,%s,%s)" % (_eopt(_enc, ln.step), _eopt(W.i, ln.octave), _eopt(_enc, ln.notehead), W.b(ln.noteheadstyle))
    else:
        body = "(r)"
    sd = ln._sym_dur or {}
    tt = set(t.get("type") for t in el.findall("tie"))
    voice = ln.voice
    slurs = ["%s:%d" % (W.b(x.get("type") == "start"), int(x.get("number") or 0) or voice)
             for x in el.findall("notations/slur") if x.get("type") in ("start", "stop")]
    tups = []
    starts = list(ln.tuplet_starts)
    for x in el.findall("notations/tuplet"):
        if x.get("type") not in ("start", "stop"):
            continue
        num = int(x.get("number") or 0) or voice
        if x.get("type") == "start":
            o = starts.pop(0) if starts else None
            vals = None if o is None else _tuplet_info(o)
            info = "-" if (vals is None or None in vals) else "(%d,%s,%d,%s)" % (vals[0], _enc(vals[1]), vals[2], _enc(vals[3]))
            tups.append("1:%d:%s" % (num, info))
        else:
            tups.append("0:%d:-" % num)
    return "(" + ",".join([
        _eopt(_enc, ln.id), body, W.i(ln.duration), W.b(el.find("chord") is not None), W.i(ln.staff), W.i(ln.voice),
        _eopt(_enc, ln.stem_direction), _eopt(_enc, sd.get("type")), W.i(sd.get("dots", 0)), _eopt(W.i, sd.get("actual_notes")),
        _eopt(W.i, sd.get("normal_notes")), "[" + ",".join(ln.articulations or []) + "]",
        "[" + ",".join(str(t.fingering) for t in (ln.technical or [])) + "]", W.b(ln.fermata is not None),
        W.b("stop" in tt), W.b("start" in tt), "[" + ",".join(slurs) + "]", "[" + ",".join(tups) + "]"]) + ")"


def note_streams(ev, p, wms, loaded, byname, idx_of, wms2=None):
    """wnote: the element written == writeNote(attrs);  rnote: readNote(element) == the note load_musicxml made;
    cnote: canon(attrs) == that note too (the right-hand side of the theorem note_roundtrip);  evnote: the event the
    measure model is given (parse_written) == toEv(element)"""
    ns = p.number_of_staves
    k = 0
    els2 = None
    if wms2 is not None:
        # the same notes in the file written from the loaded score (fnote: element-level fixpoint)
        els2 = [e for (_, evs) in wms2 for e in evs if e[0] == "n"]
        els1 = [e for (_, evs) in wms for e in evs if e[0] == "n"]
        if [e[1] for e in els1] != [e[1] for e in els2]:
            els2 = None
    for (_, evs) in wms:
        for e in evs:
            if e[0] != "n":
                continue
            el = e[7]
            n = byname.get(e[1])
            ln = loaded[k] if k < len(loaded) else None
            k += 1
            try:
                xt = " ".join(xml_tokens(el))
                at = None if n is None else note_attr_tokens(n, el, ns)
            except ValueError:
                continue
            if at is not None:
                ev.requests.append("wnote " + at)
                ev.impl.append(xml_text(el) + "/1")
                if els2 is not None:
                    ev.requests.append("fnote " + at)
                    ev.impl.append(xml_text(els2[k - 1][7]))
            ev.requests.append("evnote %d %s" % (idx_of(e[1]), xt))
            ev.impl.append(ev_text([e], idx_of)[1:-1])
            if ln is not None:
                want = note_read_text(ln, el)
                ev.requests.append("rnote " + xt)
                ev.impl.append(want)
                if at is not None:
                    ev.requests.append("cnote " + at)
                    ev.impl.append(want)


def articulation_tables(ev, X):
    """the enumeration `Artic` of the model == the exporter's ARTICULATIONS table == what get_articulations recognises"""
    from lxml import etree
    import partitura.io.importmusicxml as I

    cands = sorted(set(list(X.ARTICULATIONS) + list(EXPORTED_ARTICULATIONS) + ["other-articulation", "foo", "fermata"]))
    probe = etree.Element("articulations")
    for c in cands:
        etree.SubElement(probe, c)
    read = set(I.get_articulations(probe))
    ev.requests.append("arts " + " ".join(cands))
    ev.impl.append("[" + ",".join("%s:%s" % (c, W.b(c in X.ARTICULATIONS)) for c in cands) + "]")
    ev.requests.append("arts " + " ".join(cands))
    ev.impl.append("[" + ",".join("%s:%s" % (c, W.b(c in read)) for c in cands) + "]")



# ====================================================================== direction / sound / attributes codecs (Model/XmlDir.lean)
def _staff_tok(o):
    return _eopt(W.i, getattr(o, "staff", None))


def dir_sources(p, a, b, X):
    """the objects behind the elements X.do_directions(p, a, b, counter) returns, in the same order (the loop structure of
    do_directions, nothing of its element building): [(kind, object)]"""
    import partitura.score as S

    out = []
    for tempo in p.iter_all(S.Tempo, a, b):
        out.append(("sound", tempo))
    for d in p.iter_all(S.Direction, a, b, include_subclasses=True):
        text = d.raw_text or d.text
        if text in X.PEDAL_DIRECTIONS:
            ped_end = b if d.end is None else d.end
            if d.start.t >= a.t:
                out.append(("ped", d))
            if ped_end.t <= b.t:
                out.append(("pedstop", d))
        else:
            out.append(("dir", d))
    ending = []
    for d in p.iter_all(S.DynamicDirection, a.next, b.next, include_subclasses=True, mode="ending"):
        ending.append(("stop", d))
    for d in p.iter_all(S.PedalDirection, a.next, b.next, include_subclasses=True, mode="ending"):
        text = d.raw_text or d.text
        if text in X.PEDAL_DIRECTIONS and d.start.t < a.t:
            ending.append(("pedstop", d))
    return ending + out


def tempo_tokens(q):
    """TempoVal of a quarter tempo as `"{}".format(int(q) if q == int(q) else q)` prints it; None = not a plain decimal"""
    if q == int(q):
        return None if q < 0 else "i %d" % int(q)
    r = repr(float(q))
    if "e" in r or "n" in r or r.startswith("-"):
        return None
    ip, fp = r.split(".")
    return "d %s %s" % (ip, _enc(fp))


def tempo_sci_tokens(q):
    """mantissa (TempoVal) and exponent of the `repr` of a non-whole float in exponent notation; None = another form"""
    r = repr(float(q))
    if "e" not in r or "n" in r or r.startswith("-"):
        return None
    mant, _, ex = r.partition("e")
    if "." in mant:
        ip, fp = mant.split(".")
        return "d %s %s %d" % (ip, _enc(fp), int(ex))
    return "i %s %d" % (mant, int(ex))


def tempo_text(bpm):
    if isinstance(bpm, int):
        return "i:%d" % bpm
    ip, fp = repr(float(bpm)).split(".")
    return "d:%s:%s" % (ip, _enc(fp))


def dbl_me(x):
    """(m, e) with x == m * 2**e and 2**52 <= m < 2**53: the binary64 number as Model/Binary64.lean carries it
    (None for zero, negative, subnormal and non-finite numbers)"""
    import math

    x = float(x)
    if not x > 0 or math.isinf(x) or x < 2.0 ** -1022:
        return None
    f, ex = math.frexp(x)  # x == f * 2**ex, 0.5 <= f < 1
    m = int(f * 2 ** 53)
    assert Fraction(m) * Fraction(2) ** (ex - 53) == Fraction(*x.as_integer_ratio())
    return m, ex - 53


def dir_writer_streams(ev, src, res, X):
    """wdir / wsound: the element do_directions built == writeDir / writeSound of the object behind it"""
    import partitura.score as S
    from partitura.utils.music import to_quarter_tempo

    if len(src) != len(res):
        ev.requests.append("wdir mismatch-of-lengths %d %d" % (len(src), len(res)))
        ev.impl.append("harness: dir_sources does not mirror do_directions")
        return
    for (kind, d), (_, _, el) in zip(src, res):
        try:
            if kind == "sound":
                q = to_quarter_tempo("q" if d.unit is None else d.unit, d.bpm)
                tt = tempo_tokens(q)
                if tt is not None:
                    ev.requests.append("wsound " + tt)
                    ev.impl.append(xml_text(el) + "/1")
                else:
                    ts = tempo_sci_tokens(q)  # exponent notation (repr of a float below 1e-4)
                    if ts is not None:
                        ev.requests.append("wsci " + ts)
                        ev.impl.append(xml_text(el) + "/1")
                # wfsound: the hypotheses of tempo_number_roundtrip on the element written (the quarter tempo m * 2**e of the
                # score is normal, the text written is a well-formed decimal inside its rounding interval) and its conclusion
                me = dbl_me(q)
                if me is not None and el.get("tempo") is not None:
                    ev.requests.append("wfsound %d %d %s" % (me[0], me[1], " ".join(xml_tokens(el))))
                    ev.impl.append("1/1/1/1")
                continue
            text = d.raw_text or d.text
            nums = [int(x.get("number")) for x in el.iter("wedge", "dashes")]
            if kind == "ped" or kind == "pedstop":
                if not isinstance(d, S.SustainPedalDirection):
                    continue
                req = "%s %s %s" % (kind, W.b(d.line), _staff_tok(d))
            elif kind == "stop":
                req = "stop %s %d" % (W.b(getattr(d, "wedge", False)), nums[0])
            elif text in X.DYN_DIRECTIONS:
                req = "dyn %s %s" % (_enc(text), _staff_tok(d))
            elif getattr(d, "wedge", False):
                req = "wedge %s %d %s" % (W.b(isinstance(d, S.IncreasingLoudnessDirection)), nums[0], _staff_tok(d))
            else:
                dashes = isinstance(d, S.DynamicDirection) and d.end is not None
                req = "words %s %s %s" % (_enc(text), str(nums[0]) if dashes else "-", _staff_tok(d))
            ev.requests.append("wdir " + req)
            ev.impl.append(xml_text(el) + "/1")
        except (ValueError, IndexError):
            continue


def attr_writer_streams(ev, p, a, b, X):
    """wattr: every <attributes> element do_attributes built == writeAttributes of the entries of by_start[t]"""
    import partitura.score as S
    from collections import defaultdict

    res = X.do_attributes(p, a, b)
    by_start = defaultdict(list)
    for t, q in p.quarter_durations(a.t, b.t):
        by_start[int(t)].append("div %d" % int(q))
    for o in p.iter_all(S.KeySignature, a, b):
        by_start[o.start.t].append("key %s %s" % (W.i(o.fifths), _eopt(_enc, o.mode)))
    for o in p.iter_all(S.TimeSignature, a, b):
        by_start[o.start.t].append("time %s %s" % (W.i(o.beats), W.i(o.beat_type)))
    for o in p.iter_all(S.Staff, a, b):
        by_start[o.start.t].append("sd %s" % _eopt(W.i, o.lines))
    clefs_by_start = defaultdict(list)
    for o in p.iter_all(S.Clef, a, b):
        clefs_by_start[o.start.t].append(o)
    last = None
    for t, clefs in clefs_by_start.items():
        last = clefs
        for o in clefs:
            by_start[t].append("clef %s %s %s %s" % (_eopt(W.i, o.staff), _enc(o.sign), _eopt(W.i, o.line), _eopt(W.i, o.octave_change)))
    # wattrs: do_attributes as a whole == doAttributes of the results of its five iteration calls (grouping by time, clef
    # lists sorted per time, the <staves> flag and the leaked length are the model's)
    try:
        qs = ["%d %d" % (int(t), int(q)) for t, q in p.quarter_durations(a.t, b.t)]
        ks = ["%d %s %s" % (o.start.t, W.i(o.fifths), _eopt(_enc, o.mode)) for o in p.iter_all(S.KeySignature, a, b)]
        tms = ["%d %s %s" % (o.start.t, W.i(o.beats), W.i(o.beat_type)) for o in p.iter_all(S.TimeSignature, a, b)]
        sds = ["%d %s" % (o.start.t, _eopt(W.i, o.lines)) for o in p.iter_all(S.Staff, a, b)]
        cls = ["%d %s %s %s %s %s" % (o.start.t, W.i(getattr(o, "number", 0)), _eopt(W.i, o.staff), _enc(o.sign), _eopt(W.i, o.line),
                                      _eopt(W.i, o.octave_change)) for o in p.iter_all(S.Clef, a, b)]
        ev.requests.append("wattrs " + " ".join("%d %s" % (len(x), " ".join(x)) for x in (qs, ks, tms, sds, cls)))
        ev.impl.append("[" + ",".join("%d:%s" % (t, xml_text(el)) for t, _, el in res) + "]")
    except (ValueError, TypeError):
        pass
    ts = sorted(by_start)
    if len(ts) != len(res):
        ev.requests.append("wattr mismatch-of-lengths")
        ev.impl.append("harness: by_start does not mirror do_attributes")
        return
    staves_done = False
    for t, (_, _, el) in zip(ts, res):
        items = by_start[t]
        staves = "-"
        if not staves_done and any(i.startswith("clef ") for i in items):
            staves = str(len(last))
            staves_done = True
        try:
            ev.requests.append("wattr %d %s %s" % (len(items), " ".join(items), staves))
            ev.impl.append(xml_text(el) + "/1")
        except ValueError:
            continue


def reader_streams(ev, wms, wms2=None):
    """the non-note elements of one written part, in document order, through the model readers and through the importer's
    own handlers on a scratch part (direction i at position i):
      dirs   readDirections == what _handle_direction made of the sequence (objects, staff, start and end = pairing via ongoing)
      slots  slotAll on the wedge (dashes) numbers == the (start, stop) pairs of the wedge (dashes) objects
      rsound / rattr   readSound / readAttributes == what _handle_sound / _handle_attributes added"""
    import partitura.score as S
    import partitura.io.importmusicxml as I

    els = [e[3] for (_, evs) in wms for e in evs if e[0] == "o"]
    dirs = [el for el in els if el.tag == "direction"]
    try:
        if dirs:
            scratch = S.Part("scratch", quarter_duration=1)
            ongoing = {}
            for i, el in enumerate(dirs):
                I._handle_direction(el, i, scratch, ongoing)
            words_of = {i: [w.text for dt in el.findall("direction-type") if len(dt) and dt[0].tag == "words" for w in dt] for i, el in enumerate(dirs)}
            objs = []
            seen_words = set()
            wedge_pairs, dashes_pairs = [], []
            for o in list(scratch.iter_all(S.Direction, include_subclasses=True)) + list(scratch.iter_all(S.Words)):
                st = o.start.t
                end = None if getattr(o, "end", None) is None else o.end.t
                staff = getattr(o, "staff", None)
                if isinstance(o, S.SustainPedalDirection):
                    objs.append((st, 4, "", bool(o.line), staff, end))
                elif getattr(o, "wedge", False):
                    objs.append((st, 1 if isinstance(o, S.IncreasingLoudnessDirection) else 2, o.text, False, staff, end))
                    if end is not None:
                        wedge_pairs.append((end, st))
                elif not words_of.get(st):
                    objs.append((st, 0, o.text, False, staff, end))
                else:
                    # objects parse_direction made of the words of element `st`: one model object per <words>
                    for wt in words_of[st]:
                        if (st, wt) not in seen_words:
                            seen_words.add((st, wt))
                            objs.append((st, 3, wt, False, staff, end))
                    if end is not None and (end, st) not in dashes_pairs:
                        dashes_pairs.append((end, st))
            # words whose parse gave neither a Direction nor Words (a Tempo): the model still lists the element
            for st, wts in words_of.items():
                for wt in wts:
                    if (st, wt) not in seen_words:
                        seen_words.add((st, wt))
                        stf = dirs[st].find("staff")
                        objs.append((st, 3, wt, False, (int(stf.text) or None) if stf is not None else None, None))

            def otext(o):
                return "(%d,%d,%s,%s,%s,%s)" % (o[0], o[1], _enc(o[2]), W.b(o[3]), _eopt(W.i, o[4]), _eopt(W.i, o[5]))

            ev.requests.append("dirs %d %s" % (len(dirs), " ".join(" ".join(xml_tokens(el)) for el in dirs)))
            ev.impl.append("[" + ",".join(sorted(otext(o) for o in objs)) + "]")
            for kind, pairs in (("wedge", wedge_pairs), ("dashes", dashes_pairs)):
                marks = [(i, x.get("type") != "stop", int(x.get("number"))) for i, el in enumerate(dirs) for x in el.iter(kind)]
                if marks:
                    ev.requests.append("slots %d %s" % (len(marks), " ".join("%d %s %d" % (i, W.b(st), k) for i, st, k in marks)))
                    ev.impl.append("[" + ",".join("(%d,%d)" % (st, en) for en, st in sorted(pairs)) + "]")
    except ValueError:
        pass
    if wms2 is not None:
        # fattr (attributes_fixpoint): the model's re-export of what it reads from an <attributes> element written for the
        # score == the element at the same place of the file written from the LOADED score (given the <staves> of that one)
        at1 = [el for el in els if el.tag == "attributes"]
        at2 = [e[3] for (_, evs) in wms2 for e in evs if e[0] == "o" and e[3].tag == "attributes"]
        if len(at1) == len(at2):
            for e1, e2 in zip(at1, at2):
                try:
                    st2 = e2.find("staves")
                    ev.requests.append("fattr %s %s" % (" ".join(xml_tokens(e1)), "-" if st2 is None else str(int(st2.text))))
                    ev.impl.append(xml_text(e2))
                except (ValueError, TypeError):
                    continue
    for el in els:
        try:
            if el.tag == "sound":
                scratch = S.Part("scratch", quarter_duration=1)
                I._handle_sound(el, 0, scratch)
                ts = list(scratch.iter_all(S.Tempo))
                if "e" not in (el.get("tempo") or "").lower():
                    # the decimal read as text (exponent notation: only as a number, fsound)
                    ev.requests.append("rsound " + " ".join(xml_tokens(el)))
                    ev.impl.append(tempo_text(ts[0].bpm) if ts else "-")
                # fsound: the NUMBER read (model of float(text): correct rounding to binary64) == the importer's bpm
                if ts and (ts[0].bpm == 0 or dbl_me(ts[0].bpm) is not None):
                    ev.requests.append("fsound " + " ".join(xml_tokens(el)))
                    ev.impl.append("0:0" if ts[0].bpm == 0 else "%d:%d" % dbl_me(ts[0].bpm))
            elif el.tag == "attributes":
                scratch = S.Part("scratch", quarter_duration=977)
                scratch.add(S.Measure(), 0, 8)  # a time point after 5, so that the quarter duration at 5 is visible
                I._handle_attributes(el, 5, scratch)
                tsg = [(o.beats, o.beat_type) for o in scratch.iter_all(S.TimeSignature)]
                ksg = [(o.fifths, o.mode) for o in scratch.iter_all(S.KeySignature)]
                qd = [int(q) for t, q in zip(scratch._quarter_times, scratch._quarter_durations) if int(t) == 5]
                clefs = [(o.staff, o.sign, o.line, o.octave_change) for o in scratch.iter_all(S.Clef)]
                # rsd: the <staff-details> loop of _handle_attributes == readStaffs
                ev.requests.append("rsd " + " ".join(xml_tokens(el)))
                ev.impl.append("[" + ",".join("(%d,%s)" % (o.number, _eopt(W.i, o.lines)) for o in scratch.iter_all(S.Staff)) + "]")
                ev.requests.append("rattr " + " ".join(xml_tokens(el)))
                ev.impl.append("(%s,%s,%s,[%s])" % (
                    "%d/%d" % tsg[0] if tsg else "-",
                    "%s/%s" % (_eopt(W.i, ksg[0][0]), _eopt(_enc, ksg[0][1])) if ksg else "-",
                    str(qd[0]) if qd else "-",
                    ",".join("(%d,%s,%s,%s)" % (c[0], _eopt(_enc, c[1]), _eopt(W.i, c[2]), _eopt(W.i, c[3])) for c in clefs)))
        except ValueError:
            continue


def dyn_table(ev, X):
    """the table dynTable of the model == the live DYN_DIRECTIONS dict"""
    import partitura.score as S

    names = sorted(X.DYN_DIRECTIONS) + ["x", "sfff", "mff", "words"]
    ev.requests.append("dyns " + " ".join(names))
    ev.impl.append("[" + ",".join("%s:%s" % (n, {S.ConstantLoudnessDirection: "C", S.ImpulsiveLoudnessDirection: "I"}.get(
        X.DYN_DIRECTIONS.get(n), "-")) for n in names) + "]")



# ====================================================================== barline / harmony / print / part-list (Model/XmlBar.lean, Model/XmlPartList.lean)
def _fref(f):
    r = f.ref
    if r is None:
        return "n"
    return {"left": "l", "middle": "m", "right": "r"}.get(r, "o") if isinstance(r, str) else "o"


def _olist(evs):
    return "[" + ",".join("%d:%s" % (int(t), xml_text(el)) for (t, _, el) in evs) + "]"


def bar_writer_streams(ev, p, a, b, X):
    """wbar / wharm / wprint: what do_barlines / do_harmony / do_prints return for the segment == doBarlines / writeHarmony /
    doPrints of the objects the three functions iterate over (the `iter_all` calls are mirrored, nothing else)"""
    import partitura.score as S

    try:
        fi = [(f.start.t, _fref(f)) for f in p.iter_all(S.Fermata, a, b)]
        fa = [(f.start.t, _fref(f)) for f in p.iter_all(S.Fermata, b, b.next)]
        rs = [o.start.t for o in p.iter_all(S.Repeat, a, b)]
        es = [(o.start.t, str(o.number)) for o in p.iter_all(S.Ending, a, b)]
        re_ = [o.end.t for o in p.iter_all(S.Repeat, a.next, b.next, mode="ending")]
        ee = [(o.end.t, str(o.number)) for o in p.iter_all(S.Ending, a.next, b.next, mode="ending")]
        res = X.do_barlines(p, a, b)
        if fi or fa or rs or es or re_ or ee or res:
            toks = [str(a.t), str(b.t), str(len(fi))] + ["%d %s" % x for x in fi] + [str(len(fa))] + ["%d %s" % x for x in fa]
            toks += [str(len(rs))] + [str(t) for t in rs] + [str(len(es))] + ["%d %s" % (t, _enc(n)) for t, n in es]
            toks += [str(len(re_))] + [str(t) for t in re_] + [str(len(ee))] + ["%d %s" % (t, _enc(n)) for t, n in ee]
            ev.requests.append("wbar " + " ".join(toks))
            ev.impl.append(_olist(res))
    except ValueError:
        pass
    # ---- harmony: the three loops of do_harmony
    try:
        src = [("rn", h) for h in p.iter_all(S.RomanNumeral, a, b)] + [("cs", h) for h in p.iter_all(S.ChordSymbol, a, b)]
        cads = list(p.iter_all(S.Cadence, a, b))
        if all(isinstance(h.text, str) for h in cads):  # "|" + None raises in the exporter
            src += [("cad", h) for h in cads]
            res = X.do_harmony(p, a, b)
            if len(res) != len(src):
                ev.requests.append("wharm mismatch-of-lengths")
                ev.impl.append("harness: the harmony sources do not mirror do_harmony")
            for (k, h), (_, _, el) in zip(src, res):
                if k == "rn":
                    req = "rn %s" % _enc(h.text)
                elif k == "cs":
                    req = "cs %s %s %s" % (_enc(h.root), _eopt(_enc, h.kind), _eopt(_enc, h.bass))
                else:
                    req = "cad %s" % _enc(h.text)
                ev.requests.append("wharm " + req)
                ev.impl.append(xml_text(el) + "/1")
                # charm: what the theorem harmony_roundtrip says the importer makes of it == what it makes of it
                ev.requests.append("charm " + req)
                ev.impl.append(harmony_read_text(el))
    except ValueError:
        pass
    # ---- print
    try:
        pages = [o.start.t for o in p.iter_all(S.Page, a, b)]
        systems = [o.start.t for o in p.iter_all(S.System, a, b)]
        if pages or systems:
            ev.requests.append("wprint %d %s %d %s" % (len(pages), " ".join(map(str, pages)), len(systems), " ".join(map(str, systems))))
            ev.impl.append(_olist(X.do_prints(p, a, b)))
    except ValueError:
        pass


def harmony_read_text(el):
    """what _handle_harmony adds to a scratch part for one <harmony> element (canonical text), "err" when it raises"""
    import partitura.score as S
    import partitura.io.importmusicxml as I

    scratch = S.Part("scratch", quarter_duration=1)
    try:
        I._handle_harmony(el, 0, scratch)
    except Exception:
        return "err"
    out = ["cad:%s" % _eopt(_enc, o.text) for o in scratch.iter_all(S.Cadence)]
    out += ["rn:%s" % _enc(o.text) for o in scratch.iter_all(S.RomanNumeral)]
    out += ["cs:%s:%s:%s" % (_enc(o.root), _eopt(_enc, o.kind), _eopt(_enc, o.bass)) for o in scratch.iter_all(S.ChordSymbol)]
    return "[" + ",".join(out) + "]"


def _both_ends(part, cls):
    objs = {}
    for o in list(part.iter_all(cls)) + list(part.iter_all(cls, mode="ending")):
        objs[id(o)] = o
    return list(objs.values())


def _tt(tp):
    return "-" if tp is None else str(tp.t)


def bar_state_text(part):
    """the repeats, endings, barline fermatas and barline styles of a (scratch) part, as drv_c03 prints a BarState"""
    import partitura.score as S

    reps = sorted("(%s,%s)" % (_tt(o.start), _tt(o.end)) for o in _both_ends(part, S.Repeat))
    ends = sorted("(%s,%s,%s)" % (_eopt(_enc, o.number), _tt(o.start), _tt(o.end)) for o in _both_ends(part, S.Ending))
    ferms = sorted("(%d,%s)" % (o.start.t, _eopt(_enc, o.ref)) for o in part.iter_all(S.Fermata) if o.ref is None or isinstance(o.ref, str))
    styles = sorted("(%d,%s)" % (o.start.t, _enc(o.style or "")) for o in part.iter_all(S.Barline))
    return "([%s],[%s],[%s],[%s])" % (",".join(reps), ",".join(ends), ",".join(ferms), ",".join(styles))


def run_bar_measures(measures):
    """measures: [[("b", d) | ("f", d) | ("x", barline element)]].  The importer's own _handle_measure on <measure> elements that
    hold exactly these children, one after the other on a scratch part -> bar_state_text; and the request for drv_c03"""
    import copy
    import partitura.score as S
    import partitura.io.importmusicxml as I
    from lxml import etree

    scratch = S.Part("scratch", quarter_duration=1)
    ongoing = {}
    position, doc_order = 0, 0
    toks = [str(len(measures))]
    for k, evs in enumerate(measures):
        m_el = etree.Element("measure", number=str(k + 1))
        toks.append(str(len(evs)))
        for e in evs:
            if e[0] in "bf":
                c = etree.SubElement(m_el, "backup" if e[0] == "b" else "forward")
                etree.SubElement(c, "duration").text = str(e[1])
                toks += [e[0], str(e[1])]
            else:
                m_el.append(copy.deepcopy(e[1]))
                toks += ["x"] + xml_tokens(e[1])
        position, doc_order = I._handle_measure(m_el, position, scratch, ongoing, doc_order, k + 1)
    return "bars " + " ".join(toks), bar_state_text(scratch)


def bar_reader_streams(ev, wms, measures2):
    """bars: the <barline> elements of a written part with the <backup>/<forward>/<note> durations that move the position
    between them -> readBarMeasures == what _handle_measure makes of them;  cbar: the children of a written barline that its
    reading accounts for == its children (barline_items_recovered);  rharm: readHarmony == _handle_harmony on every
    <harmony> written;  prints: readPrints == _handle_print on the <print> elements with the starts of their measures"""
    import partitura.score as S
    import partitura.io.importmusicxml as I

    ms, any_bar = [], False
    prints = []
    for mi, (_, evs) in enumerate(wms):
        cur = []
        for e in evs:
            if e[0] == "n":
                if not e[3]:  # a <chord/> note does not move the position
                    cur.append(("f", e[2]))
            elif e[0] in "bf":
                cur.append((e[0], e[1]))
            elif e[3].tag == "barline":
                cur.append(("x", e[3]))
                any_bar = True
                cbar_stream(ev, e[3])
            elif e[3].tag == "harmony":
                try:
                    ev.requests.append("rharm " + " ".join(xml_tokens(e[3])))
                    ev.impl.append(harmony_read_text(e[3]))
                except ValueError:
                    ev.requests.pop()
            elif e[3].tag == "print" and mi < len(measures2):
                prints.append((measures2[mi].start.t, e[3]))
        ms.append(cur)
    if any_bar:
        try:
            req, want = run_bar_measures(ms)
            ev.requests.append(req)
            ev.impl.append(want)
        except ValueError:
            pass
    if prints:
        print_stream(ev, prints)


def cbar_stream(ev, el):
    """a <barline> the exporter wrote: writeBarline of its children == the element; BarSimple == at most one fermata, repeat
    and ending; the children its reading accounts for == (own computation) the fermata, the first repeat, the first ending"""
    items = []
    for c in _kids(el):
        if c.tag == "fermata" and not c.attrib:
            items.append(("F",))
        elif c.tag == "repeat" and dict(c.attrib) in ({"direction": "forward"}, {"direction": "backward"}):
            items.append(("RF",) if c.get("direction") == "forward" else ("RB",))
        elif c.tag == "ending" and list(c.attrib) == ["type", "number"] and c.get("type") in ("start", "stop"):
            items.append(("ES" if c.get("type") == "start" else "EP", c.get("number")))
        else:
            return
    loc = {"left": "l", "right": "r", "middle": "m"}.get(el.get("location"))
    if loc is None or list(el.attrib) != ["location"]:
        return
    ferm = [i for i in items if i[0] == "F"]
    reps = [i for i in items if i[0] in ("RF", "RB")]
    ends = [i for i in items if i[0] in ("ES", "EP")]
    simple = len(ferm) <= 1 and len(reps) <= 1 and len(ends) <= 1
    rec = ferm[:1] + [i for i in reps[:1] if i[0] == "RF"] + [i for i in ends[:1] if i[0] == "ES"]
    rec += [i for i in reps[:1] if i[0] == "RB"] + [i for i in ends[:1] if i[0] == "EP"]
    try:
        req = "cbar %s %d %s" % (loc, len(items), " ".join(i[0] if len(i) == 1 else "%s %s" % (i[0], _enc(i[1])) for i in items))
        want = "%s/%s/[%s]" % (xml_text(el), W.b(simple), ",".join(i[0] if len(i) == 1 else "%s:%s" % (i[0], _enc(i[1])) for i in rec))
    except ValueError:
        return
    ev.requests.append(req)
    ev.impl.append(want)


def print_stream(ev, prints):
    import partitura.score as S
    import partitura.io.importmusicxml as I

    scratch = S.Part("scratch", quarter_duration=1)
    ongoing = {}
    I._handle_new_page(0, scratch, ongoing)
    I._handle_new_system(0, scratch, ongoing)
    for t, el in prints:
        I._handle_print(el, t, scratch, ongoing)
    try:
        ev.requests.append("prints %d %s" % (len(prints), " ".join("%d %s" % (t, " ".join(xml_tokens(el))) for t, el in prints)))
    except ValueError:
        return

    def objs(cls):
        return "[" + ",".join(sorted("(%d,%d,%s)" % (o.number, o.start.t, _tt(o.end)) for o in _both_ends(scratch, cls))) + "]"

    ev.impl.append("(%s,%s)" % (objs(S.Page), objs(S.System)))


def forest_text(structure):
    import partitura.score as S

    out = []
    for x in structure:
        if isinstance(x, S.PartGroup):
            out.append("g(%s,%s,%s)[%s]" % (_eopt(W.i, x.number), _eopt(_enc, x.group_symbol), _eopt(_enc, x.group_name),
                                            forest_text(x.children)))
        else:
            out.append("p(%s,%s,%s)" % (_eopt(_enc, x.id), _eopt(_enc, x.part_name), _eopt(_enc, x.part_abbreviation)))
    return ",".join(out)


def partlist_read_stream(ev, partlist_el):
    """rpl: parsePartList of the children of a <part-list> == the structure _parse_partlist returns ("err" when it raises)"""
    import partitura.io.importmusicxml as I

    kids = _kids(partlist_el)
    try:
        req = "rpl %d %s" % (len(kids), " ".join(" ".join(xml_tokens(k)) for k in kids))
    except ValueError:
        return
    try:
        structure, _ = I._parse_partlist(partlist_el)
        want = "[" + forest_text(structure) + "]"
    except Exception:
        want = "err"
    ev.requests.append(req)
    ev.impl.append(want)


def partlist_streams(ev, s, root):
    """wpl: the children of the <part-list> written == plXml of writePartList of the parts with their parent chains"""
    partlist_el = root.find("part-list")
    if partlist_el is None:
        return
    gids = {}
    toks = [str(len(s.parts))]
    try:
        for p in s.parts:
            chain = []
            pg = p.parent
            while pg:
                chain.append(pg)
                pg = pg.parent
            toks += [_enc(p.id), _eopt(_enc, p.part_name), _eopt(_enc, p.part_abbreviation), str(len(chain))]
            for g in chain:
                toks += [str(gids.setdefault(id(g), len(gids))), _enc("{}".format(g.number)), _eopt(_enc, g.group_symbol),
                         _eopt(_enc, g.group_name)]
        ev.requests.append("wpl " + " ".join(toks))
        ev.impl.append("[" + ",".join(xml_text(k) for k in _kids(partlist_el)) + "]")
    except (ValueError, TypeError):
        pass
    partlist_read_stream(ev, partlist_el)



# ====================================================================== element-level cases (reader side, every branch)
def _xj(tag, attrs=None, text=None, kids=None):
    return [tag, attrs or {}, text, kids or []]


def el_from_json(j):
    from lxml import etree

    e = etree.Element(j[0])
    for k, v in j[1].items():
        e.set(k, v)
    if j[2] is not None:
        e.text = j[2]
    for c in j[3]:
        e.append(el_from_json(c))
    return e


def gen_barline_json(rng):
    attrs = {}
    loc = rng.choice(["left", "right", "middle", None, None, "foo"])
    if loc is not None:
        attrs["location"] = loc
    kids = []
    pool = ["repeat", "ending", "fermata", "bar-style", "repeat", "ending", "segno"]
    for _ in range(rng.choice([0, 1, 1, 1, 2, 2, 3, 4])):
        k = rng.choice(pool)
        if k == "repeat":
            d = rng.choice(["forward", "backward", "forward", "backward", None, "x"])
            kids.append(_xj("repeat", {} if d is None else {"direction": d}))
        elif k == "ending":
            t = rng.choice(["start", "stop", "discontinue", "start", "stop", None, "x"])
            a = {} if t is None else {"type": t}
            n = rng.choice(["1", "2", "1, 2", None, "12"])
            if n is not None:
                a["number"] = n
            kids.append(_xj("ending", a))
        elif k == "fermata":
            kids.append(_xj("fermata"))
        elif k == "bar-style":
            kids.append(_xj("bar-style", {}, rng.choice(["light-heavy", "heavy", None, "dashed"])))
        else:
            kids.append(_xj(k))
    return _xj("barline", attrs, None, kids)


def gen_elems(rng):
    d = {"k": "elems"}
    # ---- measures of backup / forward / barline
    ms = []
    for _ in range(rng.randint(1, 5)):
        evs = []
        for _ in range(rng.choice([0, 1, 2, 3, 4, 6])):
            r = rng.random()
            if r < 0.35:
                evs.append(["f", rng.choice([1, 2, 4, 8])])
            elif r < 0.5:
                evs.append(["b", rng.choice([1, 2, 4, 8, 100])])
            else:
                evs.append(["x", gen_barline_json(rng)])
        ms.append(evs)
    d["bars"] = ms
    # ---- harmony elements
    hs = []
    for _ in range(rng.randint(0, 4)):
        kids = []
        r = rng.random()
        if r < 0.55:
            kids.append(_xj("function", {}, rng.choice([None, "V7", "I", "ii6", "V|PAC", "|HC", "|iac", "I|pac:x", "ii|xx|yy", "|", "|12",
                                                       "a|b|c", "||", "V65|Half cadence HC", "IV|miacx", "viio|ec"])))
        if rng.random() < 0.7:
            a = {}
            if rng.random() < 0.8:
                a["text"] = rng.choice(["", "maj7", "m", "7", "dim"])
            kids.append(_xj("kind", a, rng.choice(["none", None, "major"])))
        if rng.random() < 0.6:
            rk = []
            if rng.random() < 0.85:
                rk.append(_xj("root-step", {}, rng.choice(["C", "D", "G", "F", None])))
            kids.append(_xj("root", {}, None, rk))
        if rng.random() < 0.3:
            bk = []
            if rng.random() < 0.85:
                bk.append(_xj("bass-step", {}, rng.choice(["E", "B", None])))
            kids.append(_xj("bass", {}, None, bk))
        rng.shuffle(kids)
        hs.append(_xj("harmony", {"print_frame": "no"} if rng.random() < 0.5 else {}, None, kids))
    d["harm"] = hs
    # ---- print elements at the starts of successive measures
    ps, t = [], 0
    for _ in range(rng.randint(0, 6)):
        a = {}
        if rng.random() < 0.5:
            a["new-page"] = rng.choice(["yes", "yes", "no"])
        if rng.random() < 0.6:
            a["new-system"] = rng.choice(["yes", "yes", "no"])
        if rng.random() < 0.2:
            a["page-number"] = "3"
        ps.append([t, _xj("print", a)])
        t += rng.choice([0, 4, 4, 8, 16])
    d["prints"] = ps
    # ---- children of a <part-list>: mostly balanced, sometimes not
    pl, depth, pid = [], 0, 0
    for _ in range(rng.randint(0, 9)):
        r = rng.random()
        if r < 0.3 and depth < 3:
            a = {"type": "start"}
            n = rng.choice(["1", "2", "3", None, "x", "-1"])
            if n is not None:
                a["number"] = n
            kids = []
            if rng.random() < 0.6:
                kids.append(_xj("group-symbol", {}, rng.choice(["brace", "bracket", None, "line"])))
            if rng.random() < 0.5:
                kids.append(_xj("group-name", {}, rng.choice(["Strings", "All & more", None])))
            pl.append(_xj("part-group", a, None, kids))
            depth += 1
        elif r < 0.55 and (depth > 0 or rng.random() < 0.2):
            pl.append(_xj("part-group", {"type": rng.choice(["stop", "stop", "stop", "x"]), "number": "1"} if rng.random() < 0.9 else {}))
            depth = max(0, depth - 1)
        elif r < 0.95:
            pid += 1
            a = {"id": "P%d" % pid} if rng.random() < 0.95 else {}
            kids = []
            for _ in range(rng.choice([0, 1, 1, 1, 2])):
                kids.append(_xj("part-name", {}, rng.choice(["Piano", "Vl. & Vc <1>", None, "P", "MusicXML Part"])))
            if rng.random() < 0.3:
                kids.append(_xj("part-abbreviation", {}, rng.choice(["Pno.", None])))
            if rng.random() < 0.1:
                kids.append(_xj("score-instrument", {"id": "I1"}))
            pl.append(_xj("score-part", a, None, kids))
        else:
            pl.append(_xj("other-thing"))
    if rng.random() < 0.8:
        while depth > 0:
            pl.append(_xj("part-group", {"type": "stop", "number": "1"}))
            depth -= 1
    d["pl"] = pl
    return d


def eval_elems(desc):
    """the importer's own handlers on generated elements (well formed or not) against the model readers"""
    from lxml import etree

    ev = Eval()
    ms = [[(e[0], e[1]) if e[0] in "bf" else ("x", el_from_json(e[1])) for e in m] for m in desc.get("bars", [])]
    if ms:
        try:
            req, want = run_bar_measures(ms)
            ev.requests.append(req)
            ev.impl.append(want)
        except ValueError:
            pass
    for j in desc.get("harm", []):
        el = el_from_json(j)
        try:
            ev.requests.append("rharm " + " ".join(xml_tokens(el)))
            ev.impl.append(harmony_read_text(el))
        except ValueError:
            ev.requests.pop()
    if desc.get("prints"):
        print_stream(ev, [(t, el_from_json(j)) for t, j in desc["prints"]])
    if desc.get("pl") is not None:
        pl = etree.Element("part-list")
        for j in desc["pl"]:
            pl.append(el_from_json(j))
        partlist_read_stream(ev, pl)
    shape = (len(ms), sum(1 for m in ms for e in m if e[0] == "x"), len(desc.get("harm", [])), len(desc.get("prints", [])), len(desc.get("pl", [])))
    ev.key = "elems:%d:%d:%d:%d:%d" % shape
    return ev


# ====================================================================== what the writer model is given
def measure_segments(part, measure):
    """the split of linearize_measure_contents (time points where the quarter duration changes)"""
    start, end = measure.start, measure.end
    splits = [start]
    if len(part.quarter_durations(start.t, end.t)) > 0:
        quarter = start.quarter
        tp = start.next
        while tp and tp != end:
            if tp.quarter != quarter:
                splits.append(tp)
                quarter = tp.quarter
            tp = tp.next
    splits.append(end)
    return list(zip(splits[:-1], splits[1:]))


def model_measure(part, measure, idx, X, placed=None, with_others=True):
    """request tokens of one MeasureContent (`placed`, when given, collects onset, rank and signature of the other
    elements in the order they are written)"""
    import partitura.score as S

    segs = measure_segments(part, measure)
    toks = [str(part.number_of_staves), str(len(segs))]
    for (a, b) in segs:
        notes = list(part.iter_all(S.GenericNote, start=a, end=b, include_subclasses=True))
        toks += [str(a.t), str(b.t), str(len(notes))]
        for n in notes:
            grace = isinstance(n, S.GraceNote)
            if hasattr(n, "midi_pitch"):
                pitch, step = int(n.midi_pitch), str(n.step)
            else:
                pitch, step = -1, ""
            seq = list(n.iter_grace_seq()) if grace else []
            toks += [str(idx[id(n)]), str(n.start.t), str(n.duration), W.b(grace), str(n.voice or 0), str(n.staff or 0),
                     str(pitch), W.s(step), W.b(grace and n.grace_prev is not None), str(len(seq))]
            for g in seq:
                toks += [str(idx.get(id(g), 999999)), str(g.start.t), str(g.staff or 0)]
        others = (X.do_harmony(part, a, b) + X.do_attributes(part, a, b) + X.do_directions(part, a, b, {})
                  + X.do_barlines(part, a, b) + X.do_prints(part, a, b)) if with_others else []
        toks.append(str(len(others)))
        for (t, _, el) in others:
            toks += [str(int(t)), str(ORDER.get(el.tag, len(ORDER))), _sig(el)]
        if placed is not None:
            # the order merge_with_voice gives them: by onset, inside an onset by rank (stable)
            placed.extend(sorted(((int(t), ORDER.get(el.tag, len(ORDER)), _sig(el)) for (t, _, el) in others), key=lambda x: x[:2]))
    return " ".join(toks)


# ====================================================================== independent interpretation of the file
STEP_PC = {"C": 0, "D": 2, "E": 4, "F": 5, "G": 7, "A": 9, "B": 11}


def py_interpret(root):
    """Independent reading of a score-partwise document: for every part the sounding notes
    [(onset in quarters, duration in quarters incl. ties, midi pitch)] and the measure extents in quarters.
    MusicXML semantics: <divisions> scales <duration>; <backup>/<forward> move the position; a <chord/> note
    starts with the previous note and does not move the position; <grace/> notes have no duration; a
    <tie type=stop> continues the sounding note of that pitch that ends where this one starts."""
    res = {}
    for part_el in root.findall("part"):
        divs = 1
        qpos = Fraction(0)
        sounding = []  # [onset, dur, pitch, open?]
        measures = []
        for m_el in part_el.findall("measure"):
            mstart = qpos
            mmax = qpos
            prev_on = None
            for e in m_el:
                if e.tag == "attributes":
                    dv = e.find("divisions")
                    if dv is not None:
                        divs = _num(dv.text, "divisions")
                elif e.tag == "backup":
                    qpos = max(mstart, qpos - Fraction(_int(e, "duration"), divs))
                elif e.tag == "forward":
                    qpos += Fraction(_int(e, "duration"), divs)
                elif e.tag == "note":
                    grace = e.find("grace") is not None
                    dur = Fraction(0) if grace else Fraction(_int(e, "duration"), divs)
                    if e.find("chord") is not None:
                        onset = prev_on
                    else:
                        onset = qpos
                        qpos += dur
                    prev_on = onset
                    p = e.find("pitch")
                    if p is not None and not grace:
                        midi = 12 * (int(p.find("octave").text) + 1) + STEP_PC[p.find("step").text] + _int(p, "alter")
                        ties = set(t.get("type") for t in e.findall("tie"))
                        cont = None
                        if "stop" in ties:
                            for s in sounding:
                                if s[3] and s[2] == midi and s[0] + s[1] == onset:
                                    cont = s
                                    break
                        if cont is not None:
                            cont[1] += dur
                            cont[3] = "start" in ties
                        else:
                            sounding.append([onset, dur, midi, "start" in ties])
                mmax = max(mmax, qpos)
            measures.append((mstart, mmax))
            qpos = mmax
        res[part_el.get("id")] = (sorted((s[0], s[1], s[2]) for s in sounding), measures)
    return res


def score_sounding(part):
    """the score's own sounding (pitched, non-grace) notes in quarters, ties merged"""
    import partitura.score as S

    qp = quarter_pos(part)
    out = []
    for n in part.iter_all(S.Note, include_subclasses=False):
        if n.tie_prev is not None:
            continue
        end = n
        while end.tie_next is not None:
            end = end.tie_next
        out.append((qp(n.start.t), qp(end.end.t) - qp(n.start.t), int(n.midi_pitch)))
    return sorted(out), [(qp(m.start.t), qp(m.end.t)) for m in part.iter_all(S.Measure)]


# ====================================================================== voices: which notes must keep their voice
def clean_voice_notes(part):
    """ids (python id) of notes whose (voice, segment) is monophonic: equal durations per onset among non-grace notes and
    no note running past the next onset of the voice in that segment"""
    import partitura.score as S

    clean, dirty_segments = set(), []
    for m in part.iter_all(S.Measure):
        for (a, b) in measure_segments(part, m):
            byv = {}
            for n in part.iter_all(S.GenericNote, start=a, end=b, include_subclasses=True):
                byv.setdefault(n.voice or 0, []).append(n)
            used = set(byv)
            for v, ns in byv.items():
                ok = True
                onsets = sorted(set(n.start.t for n in ns))
                for n in ns:
                    if isinstance(n, S.GraceNote):
                        continue
                    same = [x for x in ns if x.start.t == n.start.t and not isinstance(x, S.GraceNote)]
                    if any(x.duration != n.duration for x in same):
                        ok = False
                    later = [o for o in onsets if o > n.start.t]
                    if later and n.start.t + n.duration > later[0]:
                        ok = False
                if ok:
                    clean.update(id(n) for n in ns)
                else:
                    dirty_segments.append((a.t, b.t, v, used, [id(n) for n in ns]))
    return clean, dirty_segments


# ====================================================================== cases
def fixtures():
    try:
        return sorted(f for f in os.listdir(FIXDIR) if f.endswith((".xml", ".musicxml")))
    except FileNotFoundError:
        return []


def cases(rng, tier):
    for fn in fixtures():
        yield {"k": "fixture", "file": fn}
    n = {"quick": 600, "thorough": 20000, "search": 1500}.get(tier, 600)
    nn = {"quick": 60, "thorough": 1500, "search": 150}.get(tier, 60)
    for i in range(nn):
        yield gen_numeric(rng)
    for i in range({"quick": 150, "thorough": 6000, "search": 300}.get(tier, 150)):
        yield gen_elems(rng)
    for i in range({"quick": 40, "thorough": 800, "search": 120}.get(tier, 40)):
        yield gen_deep(rng)
    for i in range({"quick": 30, "thorough": 600, "search": 90}.get(tier, 30)):
        yield gen_history(rng)
    for i in range(n):
        yield gen_score(rng, big=(i % 5 == 0))


def shrink(desc):
    if desc.get("k") != "score":
        return
    import copy

    ps = desc["parts"]
    if len(ps) > 1:
        for i in range(len(ps)):
            d = copy.deepcopy(desc)
            del d["parts"][i]
            d["struct"] = list(range(len(d["parts"])))
            yield d
    for pi, p in enumerate(ps):
        if p.get("warm"):
            d = copy.deepcopy(desc)
            del d["parts"][pi]["warm"]
            yield d
        for fld in ("slurs", "tuplets", "extras"):
            for i in range(len(p.get(fld, []))):
                d = copy.deepcopy(desc)
                del d["parts"][pi][fld][i]
                yield d
        ids_ref = set()
        for n in p["notes"]:
            ids_ref.update(x for x in (n.get("tie"), n.get("grace_next")) if x)
        for s in p.get("slurs", []) + p.get("tuplets", []):
            ids_ref.update(s[:2])
        for i, n in enumerate(p["notes"]):
            if n["id"] in ids_ref or n.get("tie") or n.get("grace_next"):
                continue
            d = copy.deepcopy(desc)
            del d["parts"][pi]["notes"][i]
            yield d
        for i, n in enumerate(p["notes"]):
            if n.get("tie"):
                d = copy.deepcopy(desc)
                del d["parts"][pi]["notes"][i]["tie"]
                yield d
            for fld in ("art", "fing", "fermata", "stem", "symdur"):
                if n.get(fld):
                    d = copy.deepcopy(desc)
                    del d["parts"][pi]["notes"][i][fld]
                    yield d


# ====================================================================== evaluation
def _load(xml_bytes):
    import partitura

    return partitura.load_musicxml(io.BytesIO(xml_bytes))


def evaluate(desc):
    import warnings

    warnings.filterwarnings("ignore")
    if desc["k"] == "fixture":
        return eval_fixture(desc)
    if desc["k"] == "elems":
        return eval_elems(desc)
    if desc["k"] == "history":
        return eval_history(desc)
    return eval_score(desc)


def eval_fixture(desc):
    """load -> save -> load -> save: the second save must reproduce the first byte for byte and the two loaded scores
    must be equal; the first save, read independently, must denote the sounding notes of the loaded score"""
    import partitura

    ev = Eval()
    path = os.path.join(FIXDIR, desc["file"])
    try:
        s0 = partitura.load_musicxml(path)
    except Exception as e:
        ev.info["load_error"] = "%s: %s" % (type(e).__name__, e)
        return ev
    _check_roundtrip(ev, s0, "fixture %s" % desc["file"], streams=True, from_file=True)
    ev.key = "fixture:" + desc["file"]
    return ev


def eval_score(desc):
    ev = Eval()
    s = build_score(desc)
    _check_roundtrip(ev, s, "score", streams=True, from_file=False)
    nv = max((len(set(n.get("voice") for n in p["notes"])) for p in desc["parts"]), default=0)
    feats = sorted(set(f for p in desc["parts"] for f in (
        ("qd" if p.get("qd") else ""), ("slur" if p.get("slurs") else ""), ("tuplet" if p.get("tuplets") else ""),
        ("tie" if any(n.get("tie") for n in p["notes"]) else ""), ("grace" if any(n["kind"] == "grace" for n in p["notes"]) else ""),
        ("extras" if p.get("extras") else "")) if f))
    trivial = nv < 2 and not feats and all(len(p["notes"]) < 3 for p in desc["parts"])
    ev.key = None if trivial else "score:%d:%d:%s:%d" % (len(desc["parts"]), nv, "+".join(feats), sum(len(p["notes"]) for p in desc["parts"]))
    return ev


def _check_roundtrip(ev, s, what, streams, from_file):
    import partitura
    import partitura.score as S
    import partitura.io.exportmusicxml as X

    issues = domain_issues(s)
    if issues:
        ev.info["outside_domain"] = issues
        fail = ev.info.setdefault("suppressed", []).append
    else:
        fail = ev.oracle.append
    try:
        x1 = partitura.save_musicxml(s)
    except Exception as e:
        fail("export: save_musicxml raised %s: %s" % (type(e).__name__, e))
        return
    try:
        s2 = _load(x1)
    except Exception as e:
        fail("import: load_musicxml of the written file raised %s: %s" % (type(e).__name__, e))
        return
    try:
        x2 = partitura.save_musicxml(s2)
    except Exception as e:
        fail("export: second save_musicxml raised %s: %s" % (type(e).__name__, e))
        return
    # ---------------- (iii) round trip and byte fixpoint
    def first_diff(xa, xb):
        l1, l2 = xa.decode().split("\n"), xb.decode().split("\n")
        i = next((i for i, (a, b) in enumerate(zip(l1, l2)) if a != b), min(len(l1), len(l2)))
        return "line %d: %r vs %r" % (i + 1, l1[i:i + 1], l2[i:i + 1])

    if x2 != x1 and explicit_voices_and_staves(s) and explicit_tuplets(s):
        fail("fixpoint: save(load(save(s))) differs from save(s) at " + first_diff(x1, x2))
    if x2 != x1:
        # from the file as re-written the fixpoint must hold whatever the score looked like
        try:
            x3 = partitura.save_musicxml(_load(x2))
            if x3 != x2:
                fail("fixpoint2: save(load(x)) differs from x = save(load(save(s))) at " + first_diff(x2, x3))
        except Exception as e:
            fail("fixpoint2: reloading the re-written file raised %s: %s" % (type(e).__name__, e))
    a1, a2 = abstract_score(s), abstract_score(s2)
    clean_sets = []
    for p in s.parts:
        clean_sets.append(clean_voice_notes(p))
    _relax_voices(a1, a2, s, clean_sets, fail)
    for dline in diff_abstract(a1, a2)[:6]:
        field = dline.split(":")[0].split("/")[-1]
        extra = tempo_report(s, s2, x1) if field == "tempi" else ""
        fail("roundtrip/%s: abstract(load(save(s))) != abstract(s) at %s%s" % (field, dline, extra))
    # derived ends on the imported score
    for p in s2.parts:
        for msg in check_derived_ends(p):
            fail("set_end_times: " + msg)
    # ---------------- independent interpretation of the bytes
    try:
        root, written = parse_written(x1)
        indep = py_interpret(root)
    except NotMusicXML as e:
        fail("interpreter: the written file is not MusicXML: %s" % e)
        return
    for p in s.parts:
        snd, meas = score_sounding(p)
        got = indep.get(p.id)
        if got is None:
            fail("interpreter: part %r missing in the written file" % p.id)
            continue
        if got[0] != snd:
            miss = [x for x in snd if x not in got[0]][:3]
            extra = [x for x in got[0] if x not in snd][:3]
            fail("interpreter: the written file denotes other sounding notes than the score: missing %s, unexpected %s" % (
                [(str(a), str(b), c) for a, b, c in miss], [(str(a), str(b), c) for a, b, c in extra]))
        if got[1] != meas:
            i = next((i for i, (a, b) in enumerate(zip(got[1], meas)) if a != b), min(len(got[1]), len(meas)))
            fail("interpreter: measure %d of the written file spans %s, in the score %s" % (
                i + 1, [str(x) for x in (got[1][i] if i < len(got[1]) else ())], [str(x) for x in (meas[i] if i < len(meas) else ())]))
    for msg in check_written_numbers(written):
        fail("numbering: " + msg)
    if not streams:
        return
    # ---------------- correspondence streams
    try:
        written2 = parse_written(x2)[1]
    except Exception:
        written2 = None
    articulation_tables(ev, X)
    dyn_table(ev, X)
    partlist_streams(ev, s, root)
    for (pid, wms), p2 in zip(written, s2.parts):
        reader_streams(ev, wms, dict(written2).get(pid) if (not issues and written2 is not None) else None)
        bar_reader_streams(ev, wms, list(p2.iter_all(S.Measure)))
    range_streams(ev, s, s2, written, X)
    for p, (pid, wms), p2 in zip(s.parts, written, s2.parts):
        notes = list(p.iter_all(S.GenericNote, include_subclasses=True))
        ids = [n.id for n in notes]
        if len(set(ids)) != len(ids) or any(i is None for i in ids):
            continue  # identity of a written note is its id
        idx = {id(n): i for i, n in enumerate(notes)}
        byname = {n.id: i for i, n in enumerate(notes)}
        idx_of = lambda name: byname.get(name, 999998)
        measures = list(p.iter_all(S.Measure))
        measures2 = list(p2.iter_all(S.Measure))
        loaded = sorted(p2.iter_all(S.GenericNote, include_subclasses=True), key=lambda n: n.doc_order)
        if len(measures) != len(wms):
            continue
        if sum(1 for (_, e2) in wms for e in e2 if e[0] == "n") == len(loaded):
            wms2 = None
            if (not issues and written2 is not None and p2.number_of_staves == p.number_of_staves
                    and all(n.voice for n in notes)):
                # (without voice numbers the loaded score has other voices than the saved one: see the byte fixpoint reading)
                wms2 = dict(written2).get(pid)
            note_streams(ev, p, wms, loaded, {n.id: n for n in notes}, idx_of, wms2)
            if wms2 is not None and len(wms2) == len(measures2):
                # stab (second_export_moves_nothing): the notes of the LOADED score, measure by measure -> the model's
                # remove_voice_polyphony leaves their voices alone  ==  in the file written from the loaded score every note
                # has the voice the loaded note carries
                by2 = {n.id: n for n in loaded}
                idx2 = {id(n): i for i, n in enumerate(loaded)}
                for m2, (_, evs2) in zip(measures2, wms2):
                    ns2 = [e for e in evs2 if e[0] == "n"]
                    if ns2 and all(e[1] in by2 for e in ns2):
                        ev.requests.append("stab " + model_measure(p2, m2, idx2, X, with_others=False))
                        ev.impl.append(W.b(all(e[5] == (by2[e[1]].voice or 0) for e in ns2)))
        for mi, (m, (_, evs)) in enumerate(zip(measures, wms)):
            # (i) writer model
            placed = []
            mm = model_measure(p, m, idx, X, placed)
            ev.requests.append("lin " + mm)
            ev.impl.append(ev_text(evs, idx_of))
            if not issues and placed:
                # others_in_place: the importer's reader meets every non-note child at the onset the exporter wrote it for
                ev.requests.append("otr %d %d %s" % (m.start.t, m.end.t, ev_tokens(evs, idx_of)))
                ev.impl.append("[%s]/1" % ",".join("%d:%d:%s" % x for x in placed))
            if not issues:
                # the hypothesis of the theorem `reader_writer` holds for every measure of a score in the domain
                ev.requests.append("wf " + mm)
                ev.impl.append("1")
            # (ii) importer model on the written events, against what load_musicxml made of them
            if mi < len(measures2):
                m2 = measures2[mi]
                nn = sum(1 for e in evs if e[0] == "n")
                first = sum(1 for (_, e2) in wms[:mi] for e in e2 if e[0] == "n")
                got = loaded[first:first + nn]
                ev.requests.append("int 0 %d %s" % (m2.start.t, ev_tokens(evs, idx_of)))
                ev.impl.append("([%s],%d)" % (",".join("%d:%d:%d:%d:%d" % (idx_of(n.id), n.start.t, n.duration, n.voice, n.staff) for n in got), m2.end.t))
            # (ii) independent interpreter on the written events, against the score itself
            own = sorted((idx[id(n)], n.start.t, 0 if isinstance(n, S.GraceNote) else n.duration, n.staff or 1)
                         for n in p.iter_all(S.GenericNote, start=m.start, end=m.end, include_subclasses=True))
            ev.requests.append("snd %d %s" % (m.start.t, ev_tokens(evs, idx_of)))
            ev.impl.append("([%s],%d)" % (",".join("%d:%d:%d:%d" % x for x in own), m.end.t))


def check_written_numbers(written):
    """in the document, two ranges of one kind that are open at the same time carry different numbers"""
    out = []
    for pid, wms in written:
        open_ = {}
        for mi, (_, evs) in enumerate(wms):
            for e in evs:
                el = e[-1] if e[0] in "no" else None
                if el is None:
                    continue
                for kind in ("slur", "tuplet", "wedge", "dashes"):
                    for x in el.iter(kind):
                        typ = "start" if x.get("type") in ("start", "crescendo", "diminuendo") else x.get("type")
                        key = (kind, x.get("number"))
                        if key in open_ and open_[key] != typ:
                            del open_[key]
                        elif key in open_:
                            out.append("part %s measure %d: two open %ss with number %s" % (pid, mi + 1, kind, key[1]))
                        else:
                            open_[key] = typ
    return out[:3]


def range_streams(ev, s, s2, written, X):
    """numbers written (counter model), pairing of slurs/tuplets by number and of ties by pitch (reader models)"""
    import partitura.score as S

    rid = {}

    def r(o):
        return rid.setdefault(id(o), len(rid))

    ev_a, num_a = [], []  # note_id_counter: slurs (label 0) and tuplets (label 1) in document order
    for p, (pid, wms), p2 in zip(s.parts, written, s2.parts):
        byname = {}
        for n in p.iter_all(S.GenericNote, include_subclasses=True):
            byname.setdefault(n.id, []).append(n)
        if any(len(v) > 1 for v in byname.values()) or None in byname:
            return
        if any(e[0] == "n" and e[1] not in byname for (_, evs) in wms for e in evs):
            return  # ids were renamed by the exporter (duplicates across parts)
        loaded = sorted(p2.iter_all(S.GenericNote, include_subclasses=True), key=lambda n: n.doc_order)
        k = 0
        marks = {"slur": [], "tuplet": []}
        ties = []
        for (_, evs) in wms:
            for e in evs:
                if e[0] != "n":
                    continue
                el = e[7]
                n = byname[e[1]][0]
                ln = loaded[k] if k < len(loaded) else None
                for label, kind, groups in ((0, "slur", (("stop", n.slur_stops), ("start", n.slur_starts))),
                                            (1, "tuplet", (("stop", n.tuplet_stops), ("start", n.tuplet_starts)))):
                    els = el.findall("notations/" + kind)
                    for typ, objs in groups:
                        if objs:
                            ev_a.append((label, [r(o) for o in objs]))
                            num_a.append([int(x.get("number")) for x in els if x.get("type") == typ])
                    for x in els:
                        if ln is not None:
                            marks[kind].append((k, ln.start.t, x.get("type") == "start", int(x.get("number"))))
                tt = set(t.get("type") for t in el.findall("tie"))
                if tt and ln is not None:
                    ties.append((k, int(getattr(ln, "midi_pitch", -1000)), ln.start.t, ln.end.t, "stop" in tt, "start" in tt))
                k += 1
        if k != len(loaded):
            continue
        for kind, cls, ct in (("slur", S.Slur, True), ("tuplet", S.Tuplet, False)):
            ms = marks[kind]
            if not ms:
                continue
            objs = {}
            for o in list(p2.iter_all(cls)) + list(p2.iter_all(cls, mode="ending")):
                objs[id(o)] = o
            done = sorted((o.start_note.doc_order, o.end_note.doc_order) for o in objs.values()
                          if o.start_note is not None and o.end_note is not None)
            half = sum(1 for o in objs.values() if o.start_note is None or o.end_note is None)
            ev.requests.append("pair %s %d %s" % (W.b(ct), len(ms), " ".join("%d %d %s %d" % (a, b, W.b(c), d) for a, b, c, d in ms)))
            ev.impl.append("([%s],%d)" % (",".join("(%d,%d)" % x for x in done), half))
        if ties:
            links = [(n.tie_prev.doc_order, n.doc_order) for n in loaded if n.tie_prev is not None]
            ev.requests.append("tie %d %s" % (len(ties), " ".join("%d %d %d %d %s %s" % (a, b, c, d, W.b(e), W.b(f)) for a, b, c, d, e, f in ties)))
            ev.impl.append("[%s]" % ",".join("(%d,%d)" % x for x in links))
    if ev_a:
        ev.requests.append("numg %d %s" % (len(ev_a), " ".join("%d %d %s" % (l, len(rs), " ".join(map(str, rs))) for l, rs in ev_a)))
        ev.impl.append("[%s]" % ",".join("[%s]" % ",".join(map(str, g)) for g in num_a))
    # range_counter: wedges (label 2) and dashes (label 3) in the order do_directions meets them
    ev_b, num_b = [], []
    counter = {}
    for p in s.parts:
        for m in p.iter_all(S.Measure):
            for (a, b) in measure_segments(p, m):
                res = X.do_directions(p, a, b, counter)
                dir_writer_streams(ev, dir_sources(p, a, b, X), res, X)
                attr_writer_streams(ev, p, a, b, X)
                bar_writer_streams(ev, p, a, b, X)
                # processing order: the starting directions of the segment, then the ending ones
                starts = [d for d in p.iter_all(S.Direction, a, b, include_subclasses=True)]
                nend = sum(1 for _ in p.iter_all(S.DynamicDirection, a.next, b.next, include_subclasses=True, mode="ending")) if a.next is not None else 0
                els_end, els_start = res[:nend], res[nend:]
                for d in starts:
                    text = d.raw_text or d.text
                    if text in X.PEDAL_DIRECTIONS or text in X.DYN_DIRECTIONS:
                        continue
                    if getattr(d, "wedge", False):
                        ev_b.append((2, r(d)))
                    elif isinstance(d, S.DynamicDirection) and d.end is not None:
                        ev_b.append((3, r(d)))
                for (_, _, el) in els_start:
                    for x in el.iter("wedge", "dashes"):
                        num_b.append(int(x.get("number")))
                if a.next is not None:
                    for d in p.iter_all(S.DynamicDirection, a.next, b.next, include_subclasses=True, mode="ending"):
                        ev_b.append((2 if getattr(d, "wedge", False) else 3, r(d)))
                for (_, _, el) in els_end:
                    for x in el.iter("wedge", "dashes"):
                        num_b.append(int(x.get("number")))
    if ev_b and len(ev_b) == len(num_b):
        ev.requests.append("num %d %s" % (len(ev_b), " ".join("%d %d" % x for x in ev_b)))
        ev.impl.append("[%s]" % ",".join(str(x) for x in num_b))


def _relax_voices(a1, a2, s, clean_sets, fail):
    """voices of notes that cannot stay in their voice: demand an unused voice instead of the same one"""
    import partitura.score as S

    for pi, (p, (clean, dirty)) in enumerate(zip(s.parts, clean_sets)):
        if not dirty or pi >= len(a2["parts"]):
            continue
        notes = sorted(p.iter_all(S.GenericNote, include_subclasses=True), key=note_key)
        n1, n2 = a1["parts"][pi]["notes"], a2["parts"][pi]["notes"]
        if len(n1) != len(n2):
            continue
        rank = {id(n): i for i, n in enumerate(notes)}
        for (a, b, v, used, members) in dirty:
            stayed = 0
            for nid in members:
                i = rank[nid]
                v2 = n2[i]["voice"]
                if v2 == (v or 1):
                    stayed += 1
                elif v2 in set(u or 1 for u in used):
                    fail("voices: a note of the polyphonic voice %d in segment [%d,%d) was moved to voice %d, which is in use there" % (v, a, b, v2))
                n2[i]["voice"] = n1[i]["voice"]
                # a grace note stays behind when its main note has to move: the link is not expressible
                for k in ("grace_next", "grace_prev"):
                    if k in n1[i] and k in n2[i]:
                        n2[i][k] = n1[i][k]
            if stayed == 0 and members:
                fail("voices: no note of voice %d in segment [%d,%d) kept its voice" % (v, a, b))


def domain_issues(s):
    """reasons why a score is outside "scores MusicXML can express" (see the readings at the top); the oracle
    is silent on such scores, the correspondence streams still run"""
    import partitura.score as S

    out = []
    all_ids = []
    for p in s.parts:
        for cls, key in ((S.TimeSignature, lambda o: o.start.t), (S.KeySignature, lambda o: o.start.t),
                         (S.Clef, lambda o: (o.start.t, o.staff or 1)), (S.Tempo, lambda o: o.start.t)):
            ks = [key(o) for o in p.iter_all(cls)]
            if len(set(ks)) != len(ks):
                out.append("two %ss at one time" % cls.__name__)
        ms = sorted(p.iter_all(S.Measure), key=lambda m: m.start.t)
        if not ms or ms[0].start.t != 0 or any(a.end.t != b.start.t for a, b in zip(ms, ms[1:])):
            out.append("measures are not contiguous from 0")
        qt = [int(t) for t in p._quarter_times]
        ids, voiced, unvoiced = [], 0, 0
        bounds = [(m.start.t, m.end.t) for m in ms]
        for n in p.iter_all(S.GenericNote, include_subclasses=True):
            if n.id is not None:
                ids.append(n.id)
            voiced += 1 if n.voice else 0
            unvoiced += 0 if n.voice else 1
            g = isinstance(n, S.GraceNote)
            if g != (n.duration == 0):
                out.append("a grace note with a duration or another note without")
            if any(n.start.t < t < n.end.t for t in qt):
                out.append("a note crosses a change of divisions")
            if not any(a <= n.start.t and n.end.t <= b and (n.start.t < b or g) for a, b in bounds):
                out.append("a note outside its measure")
            if isinstance(n, S.Rest) and n.hidden:
                out.append("hidden rest")
            if g and n.grace_next is not None and (n.grace_next.voice != n.voice or n.grace_next.start.t != n.start.t):
                out.append("a grace note away from its main note")
        all_ids += ids
        if voiced and unvoiced:
            out.append("numbered and unnumbered voices in one part")
        chains = []
        for n in p.iter_all(S.Note, include_subclasses=True):
            if n.tie_next is not None and n.tie_prev is None:
                last = n
                while last.tie_next is not None:
                    if (any(a <= last.start.t < b and a <= last.tie_next.start.t < b for a, b in bounds)
                            and (last.voice or 0) > (last.tie_next.voice or 0)):
                        out.append("a tie that runs backwards in the document")
                    last = last.tie_next
                chains.append((n.start.t, last.end.t, n.midi_pitch))
        for i, (lo, hi, pt) in enumerate(chains):
            if any(pt == p2 and lo < hi2 and lo2 < hi for lo2, hi2, p2 in chains[i + 1:]):
                out.append("two ties of one pitch sounding at the same time")
        for d in p.iter_all(S.Direction, include_subclasses=True):
            if d.end is not None and d.end.t <= d.start.t:
                out.append("a direction without extent")
            if isinstance(d, S.PedalDirection) and d.end is None:
                out.append("a pedal without end")
        mstarts = set(m.start.t for m in ms)
        for f in p.iter_all(S.Fermata):
            if f.ref is None:
                out.append("a barline fermata without location")
            if f.ref == "middle" and f.start.t in qt and f.start.t not in mstarts:
                out.append("a mid-measure barline on a change of divisions")
        pts = set(tp.t for tp in p._points)
        if any(t not in pts for t in qt[1:]):
            out.append("a change of divisions where nothing starts or ends")
        for o in list(p.iter_all(S.Repeat)) + list(p.iter_all(S.Ending)):
            if o.start is None or o.end is None:
                out.append("a half-open repeat or ending")
            elif any(t in qt[1:] and t not in mstarts for t in (o.start.t, o.end.t)):
                # do_barlines is called per divisions segment: the location written is relative to the segment
                out.append("a mid-measure repeat or ending on a change of divisions")
        if any(o.text is None for o in p.iter_all(S.Cadence)):
            out.append("a cadence of no known type")
    if len(set(all_ids)) != len(all_ids):
        out.append("duplicate note ids")  # the exporter renames them (one counter for the whole file)
    return sorted(set(out))


def importer_order(s):
    """no note starts or stops several slurs/tuplets at once: only then is the order of such elements in the file
    independent of the (arbitrary) order of the note's lists"""
    import partitura.score as S

    for p in s.parts:
        for n in p.iter_all(S.GenericNote, include_subclasses=True):
            if max(len(n.slur_starts), len(n.slur_stops), len(n.tuplet_starts), len(n.tuplet_stops)) > 1:
                return False
    return True


def explicit_voices_and_staves(s):
    """the file can only be reproduced byte for byte from the representative MusicXML's identifications pick:
    numbered voices, and numbered staves where the part has several"""
    import partitura.score as S

    for p in s.parts:
        ns = p.number_of_staves
        for n in p.iter_all(S.GenericNote, include_subclasses=True):
            if not n.voice or (ns > 1 and not n.staff):
                return False
    return True


def explicit_tuplets(s):
    """... and tuplets that say what they are (or whose first note shows nothing the importer would fill in)"""
    import partitura.score as S

    for p in s.parts:
        for o in p.iter_all(S.Tuplet):
            vals = (o.actual_notes, o.normal_notes, o.actual_type, o.normal_type)
            if None in vals and _tuplet_shown(o) != vals:
                return False
    return True


def check_derived_ends(part):
    """on an imported part: end of every page/system/constant direction = start of the next one of its kind, else the last point"""
    import partitura.score as S

    out = []
    last = part.last_point.t
    for cls in (S.ConstantLoudnessDirection, S.ConstantTempoDirection, S.ConstantArticulationDirection):
        objs = sorted(part.iter_all(cls, include_subclasses=True), key=lambda o: o.start.t)
        starts = sorted(set(o.start.t for o in objs))
        for o in objs:
            later = [t for t in starts if t > o.start.t]
            exp = later[0] if later else last
            if o.end is None or o.end.t != exp:
                out.append("%s at %d ends at %s, the next one starts at %d" % (cls.__name__, o.start.t, o.end.t if o.end else None, exp))
    return out[:3]


def finding_key(desc, failure):
    head = failure.split(":")[0]
    if head in ("fixpoint", "fixpoint2", "roundtrip/barline_fermatas") and _right_fermata_inside(desc):
        return "C03/right-barline-fermata"
    return "C03/" + head


def _right_fermata_inside(desc):
    """a barline fermata with location right that is not at the end of the last measure"""
    if desc.get("k") != "score":
        return False
    for p in desc["parts"]:
        last = max([m[1] for m in p["measures"]] or [0])
        for cls, st, en, kw in p.get("extras", []):
            if cls == "Fermata" and kw.get("ref") == "right" and st < last:
                return True
    return False


def distribution(descs, results):
    from collections import Counter

    c = Counter(d["k"] for d in descs)
    feats = Counter()
    for d in descs:
        if d["k"] == "score":
            for p in d["parts"]:
                feats["parts"] += 1
                feats["voices=%s" % len(set(n.get("voice") for n in p["notes"]))] += 1
                for f in ("qd", "slurs", "tuplets", "extras", "warm", "family"):
                    if p.get(f):
                        feats[f] += 1
                if any(e[0] == "Staff" for e in p.get("extras", [])):
                    feats["staff-objects"] += 1
                for e in p.get("extras", []):
                    if e[0] == "Tempo":
                        r = repr(float(e[3]["bpm"]))
                        feats["tempo:" + ("exponent" if "e" in r else "whole" if r.endswith(".0") else "%d+ digits" % (5 * (len(r.replace(".", "").lstrip("0")) // 5)))] += 1
    req = Counter(r["requests"][i].split(" ")[0] for r in results for i in range(len(r["requests"])))
    # branches reached by the streams of the element models (barline / harmony / print / part-list / positions)
    br = Counter()
    for r in results:
        for q, im in zip(r["requests"], r["impl"]):
            if not isinstance(im, str):
                continue
            k = q.split(" ", 1)[0]
            if k == "rharm":
                br["rharm:" + ("raises" if im == "err" else "nothing" if im == "[]" else "+".join(sorted(set(x.split(":")[0] for x in im[1:-1].split(",")))))] += 1
            elif k == "wharm":
                br["wharm:" + q.split(" ")[1]] += 1
            elif k == "rpl":
                depth = max((im[:i].count("[") - im[:i].count("]") for i in range(len(im))), default=0) - 1
                br["rpl:" + ("raises" if im == "err" else "flat" if depth <= 0 else "nested%d" % min(depth, 3))] += 1
            elif k == "wpl":
                br["wpl:groups=%d" % min(3, q.count(" brace ") + q.count(" bracket ") + q.count(" - - "))] += 1
            elif k == "bars":
                reps, ends, ferms, styles = im[1:-1].split("],[") if im.count("],[") == 3 else ("", "", "", "")
                for name, txt in (("repeat", reps), ("ending", ends)):
                    if "(-," in txt or ",-,-)" in txt or txt.strip("[(").startswith("-,"):
                        br["bars:half-open-" + name] += 1
                    if ",-)" in txt:
                        br["bars:unclosed-" + name] += 1
                for name, txt in (("repeat", reps), ("ending", ends), ("fermata", ferms), ("style", styles)):
                    if txt.strip("[]"):
                        br["bars:" + name] += 1
                if ",-)" in ferms:
                    br["bars:fermata-without-location"] += 1
            elif k == "cbar":
                br["cbar:" + ("simple" if "/1/" in im else "two-of-a-kind")] += 1
                br["cbar:location=" + q.split(" ")[1]] += 1
            elif k == "wbar":
                br["wbar:barlines=%d" % min(3, im.count("(barline;"))] += 1
            elif k == "prints":
                br["prints:pages=%d" % min(3, im.split("],[")[0].count("(") - 1)] += 1
            elif k == "otr":
                br["otr:others=%d" % min(4, im.count(":") // 2)] += 1
            elif k == "wattrs":
                n = im.count("(attributes;")
                br["wattrs:elements=%d" % min(3, n)] += 1
                if "(staves;" in im:
                    # <staves> in the first element with a clef; `later`: elements without a clef come before it
                    br["wattrs:staves" + (":later" if "(staves;" not in im.split("(attributes;")[1] else "")] += 1
                    if n > 1 and "(clef;" in im.split("(staves;", 1)[1].split("(attributes;", 1)[-1] and im.count("(attributes;", im.index("(staves;")):
                        br["wattrs:clef-after-staves-element"] += 1
                if "(staff-details;" in im:
                    br["wattrs:staff-details"] += 1
            elif k == "stab":
                br["stab:" + ("nothing-moves" if im == "1" else "second-export-moves-notes")] += 1
            elif k == "rsd":
                br["rsd:staffs=%d" % min(3, im.count("("))] += 1
            elif k == "fattr":
                br["fattr:" + ("+".join(t for t in ("divisions", "key", "time", "staff-details", "clef") if "(%s;" % t in im) or "empty")] += 1
    return {"by_kind": dict(c), "features": dict(feats), "requests": dict(req), "branches": dict(br)}
