"""C13 - a piano roll shows exactly the given notes, in their cells, with their velocity.

Readings fixed here (each is the reading under which the repaired code is right):

* frames: onset frame = round_half_even(time_div * (onset - t0)) + time_margin * time_div, with
  t0 = smallest onset when silence is removed, else min(0, smallest onset); length =
  max(1, round_half_even(time_div * duration)) frames; with note separation the last frame is dropped
  but never below one frame; in onset mode only the onset frame is filled;
* columns: time_margin*time_div + last offset frame (the offset frames already contain the leading margin,
  and are taken before note separation / onset mode shorten the notes); with `end_time`:
  ceil(time_margin*time_div + time_div*(end_time - t0)), and `end_time` is rejected when
  time_div*(end_time - t0) is smaller than the last offset frame (leading margin included);
* rows: 128; span + 2*margin when pitch_margin > -1; `piano_range` is the documented slice [21:109] of
  whatever roll results (88 rows for the full roll);
* "that note's own velocity": velocities are MIDI velocities 1..127 (a velocity of 0 is a note-off and is
  not generated); without a velocity column every note counts as velocity 1;
* index rows: (row, onset frame, offset frame, midi pitch) per *input* row; they designate the cells
  row x [onset, offset) - in onset mode the single cell (row, onset), the offset column still reporting
  the note's full end;
* pitches outside 0..127 without a pitch margin, empty arrays, negative durations and unknown time units
  are rejected (any exception);
* the decoder: a note is a maximal horizontal run of one non-zero value in one row.
"""
import math
import warnings
from fractions import Fraction

import numpy as np

import wire as W
from core import Eval

PROPERTY = "C13"
DRIVER = "drv_c13"
PROPS = ["PartituraModel.Props.C13"]
TRUSTED = [
    "scipy.sparse.csc_matrix((data,(row,col)),shape,dtype=int): places each triplet, rejects out-of-range indices; [21:109,:] slicing; toarray()",
    "np.round = round half to even on binary64; np.argsort = some permutation that sorts (ties in any order: order_indep shows no output depends on it)",
    "binary64 evaluation of time_div*(onset - t0), time_div*duration, time_div*(end_time - t0): exact on the generated domain "
    "(float32 columns, small integer time_div); every case is checked for exactness before it is compared, inexact ones are skipped and counted",
    "np.isclose(colsum, 0) modelled as colsum = 0 (integer cell values); float division of the normalised pitch-class roll compared to the exact rational with rtol 1e-9",
    "TIME_UNITS of utils/globals.py is copied into the model by hand (5 strings); the correspondence exercises every member and non-members",
    "float32 storage of decoded onsets/durations (on/time_div) compared to the exact rational with rtol 1e-6",
]
PARTIAL = [
    "cell_iff / cell_binary / idx_designate / decode_encode assume MIDI velocities > 0 (a velocity-0 note yields an explicit zero cell; cell_value covers that case)",
    "decode_encode: stated for the options under which times can be read back (RoundTripOpts: no onset mode / separation / margins / end_time, remove_silence=False, not binary) and onsets >= 0 on the grid; the decoder itself (decode_spec) is proved for every integer matrix",
    "float effects (binary64 products before np.round, float32 storage of decoded times, float division of the normalised pitch-class roll) are outside the exact-rational model: checked per case / compared with tolerance, not proved",
    "scipy sparse assembly, slicing and toarray are trusted primitives (Roll.cell is their assumed meaning); compared cell by cell",
]
RULE = ("random structured note arrays (score units beat/quarter/div, performance units sec/tick, f4/i4 columns in shuffled dtype order, "
        "with/without velocity and channel columns, rows in random order, pitch pools forcing collisions, zero durations, drum channel 9, "
        "negative onsets, half-frame ties, rare invalid inputs) x sampled option sets (time_unit, time_div in {1,2,3,8,12,16,auto}, onset_only, "
        "note_separation, pitch_margin in {-1,0,2}, time_margin in {0,1,2}, piano_range, remove_drums, remove_silence, end_time, binary, "
        "return_idxs; pitch-class roll with normalize/binary); random integer rolls 128xn / 88xn (dense and sparse) and encode->decode round "
        "trips for the inverse. distinct = distinct request text; non-trivial = at least one request answered with a roll/note list (not err)")
LEVEL_TEXT = ("Lean 4 theorems over an executable exact-rational model of _make_pianoroll / compute_pianoroll / "
              "compute_pitch_class_pianoroll / pianoroll_to_notearray (all note lists, all option values, by induction and "
              "permutation invariance), tied to the code by a differential run that compares shape, every non-zero cell and "
              "every index row exactly, plus an independent Fraction rasteriser as oracle on the implementation's outputs.")

SCORE_UNITS = ["beat", "quarter", "div"]
PERF_UNITS = ["sec", "tick"]
INT_UNITS = ("div", "tick")
TIME_UNITS = ["beat", "quarter", "sec", "div", "tick"]


# --------------------------------------------------------------------------- generation
def f32(x):
    return float(np.float32(x))


def gen_time(rng, unit, grid, lo, hi):
    """an onset in `unit`"""
    if unit in INT_UNITS:
        return rng.randint(int(lo * 4), int(hi * 4))
    m = rng.random()
    if m < 0.75:
        return f32(Fraction(rng.randint(int(lo * grid), int(hi * grid)), grid))
    if m < 0.9:
        return f32(rng.uniform(lo, hi))
    return f32(Fraction(rng.randint(int(lo * 3), int(hi * 3)), 3))


def gen_dur(rng, unit, grid):
    m = rng.random()
    if m < 0.1:
        return 0
    if unit in INT_UNITS:
        return rng.randint(0, 9)
    if m < 0.75:
        return f32(Fraction(rng.randint(0, 3 * grid), grid))
    if m < 0.9:
        return f32(rng.uniform(0, 2.5))
    return f32(Fraction(rng.randint(1, 6), 3))


def gen_array(rng, tier):
    m = rng.random()
    if m < 0.45:
        units = rng.sample(SCORE_UNITS, rng.randint(1, 3))
    elif m < 0.8:
        units = rng.sample(PERF_UNITS, rng.randint(1, 2))
    elif m < 0.985:
        units = rng.sample(SCORE_UNITS, rng.randint(1, 2)) + rng.sample(PERF_UNITS, rng.randint(1, 2))
        rng.shuffle(units)
    else:
        units = []
    has_vel = rng.random() < 0.65
    has_chan = rng.random() < 0.35
    big = tier != "quick" and rng.random() < 0.2
    n = rng.choice([1, 1, 2, 2, 3, 3, 4, 5, 6, 8, 10]) if not big else rng.randint(10, 24)
    if rng.random() < 0.02:
        n = 0
    grid = rng.choice([1, 2, 4, 8, 16, 16, 32])
    neg = rng.random() < 0.25
    lo = -2 if neg else (rng.choice([0, 0, 1, 3]))
    hi = lo + rng.choice([1, 2, 4, 6])
    pool_kind = rng.random()
    if pool_kind < 0.5:
        pool = [rng.randint(21, 108) for _ in range(rng.randint(1, 3))]  # collisions likely
    elif pool_kind < 0.8:
        pool = list(range(21, 109))
    elif pool_kind < 0.96:
        pool = list(range(0, 128))
    else:
        pool = [-1, 128, 130, 60, 0, 127]
    drum_p = (1.0 if rng.random() < 0.06 else rng.choice([0.0, 0.3, 0.3, 0.5])) if has_chan else 0.0
    rows = []
    for _ in range(n):
        r = {"p": rng.choice(pool), "t": []}
        for u in units:
            on = gen_time(rng, u, grid, lo, hi)
            du = gen_dur(rng, u, grid)
            if rng.random() < 0.002:
                du = -1 if u in INT_UNITS else -0.5
            r["t"].append([on, du])
        r["v"] = rng.randint(1, 127) if has_vel else None
        r["c"] = (9 if rng.random() < drum_p else rng.randint(0, 15)) if has_chan else None
        rows.append(r)
    order = rng.random()
    if order < 0.15 and units:
        rows.sort(key=lambda r: r["t"][0][0])
    elif order < 0.25 and units:
        rows.sort(key=lambda r: -r["t"][0][0])
    # duplicates of a row (same pitch, same onset) with another velocity
    if rows and rng.random() < 0.25:
        c = dict(rng.choice(rows))
        c = {"p": c["p"], "t": [list(x) for x in c["t"]], "v": (rng.randint(1, 127) if has_vel else None), "c": c["c"]}
        rows.insert(rng.randint(0, len(rows)), c)
    return {"units": units, "has_vel": has_vel, "has_chan": has_chan, "rows": rows}


def gen_opts(rng, arr):
    units = arr["units"]
    m = rng.random()
    if m < 0.45 or not units:
        tu = "auto"
    elif m < 0.95:
        tu = rng.choice(units)
    elif m < 0.98:
        tu = rng.choice(TIME_UNITS)
    else:
        tu = rng.choice(["foo", "seconds", ""])
    td = rng.choice([1, 2, 8, 16, "auto", "auto", 3, 12])
    o = {
        "tu": tu, "td": td,
        "oo": rng.random() < 0.25, "ns": rng.random() < 0.4,
        "pm": rng.choice([-1, -1, 0, 2]), "tm": rng.choice([0, 0, 1, 2]),
        "pr": rng.random() < 0.3, "rd": rng.random() < 0.85, "rs": rng.random() < 0.5,
        "et": None, "bi": rng.random() < 0.3, "ri": rng.random() < 0.6,
    }
    if rng.random() < 0.3 and arr["rows"] and units:
        ends = [r["t"][k][0] + max(r["t"][k][1], 0) for r in arr["rows"] for k in range(len(units))]
        base = max(ends)
        d = rng.choice([0, 0.5, 1, 2, 3, 5, -0.25, -2])
        et = base + d
        if rng.random() < 0.5:
            et = int(math.ceil(et))
        else:
            et = float(et)
        o["et"] = et
    if rng.random() < 0.3:
        o["pc"] = {"norm": rng.random() < 0.6, "bin": rng.random() < 0.4}
    return o


def gen_roll(rng, tier):
    rows = rng.choice([128, 128, 88, 88, 88, 12, 100]) if rng.random() < 0.9 else rng.choice([0, 1, 129])
    n = rng.choice([0, 1, 2, 3, 5, 8, 12, 20])
    cells = {}
    if rows > 0:
        prow = [rng.randrange(rows) for _ in range(rng.randint(1, 4))]
        for _ in range(rng.randint(0, 8)):
            if n == 0:
                break
            p = rng.choice(prow) if rng.random() < 0.7 else rng.randrange(rows)
            on = rng.randrange(n)
            ln = rng.randint(1, 5)
            v = rng.choice([1, 1, 64, 64, 100, rng.randint(1, 127)])
            for j in range(on, min(n, on + ln)):
                cells[(p, j)] = v
        for _ in range(rng.randint(0, 3)):
            if n:
                cells[(rng.randrange(rows), rng.randrange(n))] = rng.randint(1, 127)
    return {"k": "dec", "rows": rows, "n": n, "cells": sorted([p, j, v] for (p, j), v in cells.items()),
            "td": rng.choice([1, 2, 8, 12, 16, 3]), "unit": rng.choice(["sec", "beat", "quarter"]),
            "sparse": rng.random() < 0.3}


def gen_roundtrip(rng, tier):
    """grid-aligned notes; same-pitch notes neither overlap nor touch"""
    td = rng.choice([1, 2, 8, 16, 12])
    notes = []
    busy = {}
    for _ in range(rng.randint(1, 8)):
        p = rng.choice([rng.randint(21, 108), 60, 61, rng.randint(0, 127)])
        on = rng.randint(0, 20)
        ln = rng.randint(1, 6)
        if any(not (on + ln < a or b < on) for a, b in busy.get(p, [])):
            continue
        busy.setdefault(p, []).append((on, on + ln))
        notes.append([p, on, ln, rng.randint(1, 127)])
    rng.shuffle(notes)
    return {"k": "rt", "td": td, "notes": notes, "piano": rng.random() < 0.4, "unit": rng.choice(["sec", "beat"])}


def cases(rng, tier):
    n_arr, n_opt, n_dec, n_rt = {"quick": (300, 12, 250, 120), "thorough": (3000, 36, 4000, 1500)}.get(tier, (4000, 24, 3000, 1500))
    for _ in range(n_arr):
        arr = gen_array(rng, tier)
        arr["k"] = "pr"
        arr["opts"] = [gen_opts(rng, arr) for _ in range(n_opt)]
        yield arr
    for _ in range(n_dec):
        yield gen_roll(rng, tier)
    for _ in range(n_rt):
        yield gen_roundtrip(rng, tier)


# --------------------------------------------------------------------------- building inputs / requests
def build_array(d):
    dt = [("pitch", "i4")]
    for u in d["units"]:
        ty = "i4" if u in INT_UNITS else "f4"
        dt += [("onset_" + u, ty), ("duration_" + u, ty)]
    if d["has_vel"]:
        dt.append(("velocity", "i4"))
    if d["has_chan"]:
        dt.append(("channel", "i4"))
    dt.append(("id", "U8"))
    recs = []
    for i, r in enumerate(d["rows"]):
        rec = [r["p"]]
        for on, du in r["t"]:
            rec += [on, du]
        if d["has_vel"]:
            rec.append(r["v"])
        if d["has_chan"]:
            rec.append(r["c"])
        rec.append("n%d" % i)
        recs.append(tuple(rec))
    return np.array(recs, dtype=dt)


def req_args(o):
    return " ".join([
        W.s(o["tu"]), "-" if o["td"] == "auto" else W.i(o["td"]), W.b(o["rd"]), W.b(o["oo"]), W.b(o["ns"]),
        W.i(o["pm"]), W.i(o["tm"]), W.b(o["pr"]), W.b(o["rs"]), W.opt(W.q, o["et"]), W.b(o["bi"]), W.b(o["ri"]),
    ])


def req_array(d, arr):
    toks = [W.lst(W.s, d["units"]), W.b(d["has_vel"]), W.b(d["has_chan"]), str(len(arr))]
    for rec in arr:
        toks.append(W.i(rec["pitch"]))
        for u in d["units"]:
            toks.append(W.q(W.as_fraction(rec["onset_" + u])))
            toks.append(W.q(W.as_fraction(rec["duration_" + u])))
        toks.append(W.i(rec["velocity"]) if d["has_vel"] else "-")
        toks.append(W.i(rec["channel"]) if d["has_chan"] else "-")
    return " ".join(toks)


def fmt_roll(mat, idx):
    a = mat.toarray() if hasattr(mat, "toarray") else np.asarray(mat)
    ps, js = a.nonzero()
    cells = "[" + ",".join("(%d,%d,%d)" % (p, j, a[p, j]) for p, j in zip(ps.tolist(), js.tolist())) + "]"
    s = "(%d,%d)|%s" % (a.shape[0], a.shape[1], cells)
    if idx is not None:
        s += "|[" + ",".join("(%d,%d,%d,%d)" % tuple(int(x) for x in row) for row in idx) + "]"
    return s


# --------------------------------------------------------------------------- oracle: independent rasteriser
def rhe(x):
    """round half to even of a Fraction (Python's round on Fraction is exactly that)"""
    return int(round(x))


def select_unit(d, o):
    """(unit, time_div) the documentation promises, or None when the call must be rejected"""
    tu = o["tu"]
    if tu not in TIME_UNITS + ["auto"]:
        return None
    if tu == "auto":
        pres = set(d["units"])
        unit = None
        for group in (SCORE_UNITS, PERF_UNITS):
            hit = [u for u in group if u in pres]
            if hit:
                unit = hit[0]
                break
        if unit is None:
            return None
    else:
        unit = tu
        if unit not in d["units"]:
            return None
    td = o["td"]
    if td == "auto":
        td = 1 if unit in INT_UNITS else 8
    return unit, td


def notes_of(d, arr, o, unit):
    """[(pitch, onset, duration, velocity)] over Fractions, in input order, drums removed"""
    out = []
    for rec in arr:
        if d["has_chan"] and o["rd"] and int(rec["channel"]) == 9:
            continue
        out.append((int(rec["pitch"]), W.as_fraction(rec["onset_" + unit]), W.as_fraction(rec["duration_" + unit]),
                    int(rec["velocity"]) if d["has_vel"] else 1))
    return out


def floats_exact(notes, o, td, t0):
    """the binary64 products the code rounds are exactly the rationals the oracle/model round"""
    t0f = float(t0)
    for (_, on, du, _) in notes:
        if Fraction(float(td) * (float(on) - t0f)) != td * (on - t0):
            return False
        if Fraction(float(td) * float(du)) != td * du:
            return False
    if o["et"] is not None:
        e = Fraction(o["et"])
        ef = float(o["et"]) - t0f
        if Fraction(ef) != e - t0 or Fraction(ef * td) != (e - t0) * td:
            return False
        if Fraction(float(td * o["tm"]) + td * ef) != td * o["tm"] + td * (e - t0):
            return False
    return True


def rasterise(notes, o, td):
    """the property statement, directly: returns ('err', why) or (rows, cols, {(p,j): v}, idx_rows, t0)"""
    if not notes:
        return ("err", "empty")
    if any(du < 0 for (_, _, du, _) in notes):
        return ("err", "negative duration")
    first = min(on for (_, on, _, _) in notes)
    t0 = first if o["rs"] else min(Fraction(0), first)
    margin = o["tm"] * td
    pm = o["pm"]
    if pm > -1:
        low = min(p for (p, _, _, _) in notes)
        high = max(p for (p, _, _, _) in notes)
        full_rows = high - low + 1 + 2 * pm
        shift = pm - low
    else:
        full_rows = 128
        shift = 0
    spans = []
    last = None
    for (p, on, du, v) in notes:
        a = rhe(td * (on - t0)) + margin
        ln = max(1, rhe(td * du))
        end = a + ln
        last = end if last is None else max(last, end)
        shown = 1 if o["oo"] else max(1, ln - (1 if o["ns"] else 0))
        spans.append((p + shift, a, a + shown, end, v, p))
    if o["et"] is None:
        cols = margin + last
    else:
        e = Fraction(o["et"]) - t0
        if e * td < last:
            return ("err", "end_time before the last offset")
        cols = math.ceil(margin + td * e)
    cells = {}
    for (row, a, b, _, v, _) in spans:
        if not (0 <= row < full_rows):
            return ("err", "pitch outside the roll")
        for j in range(a, b):
            val = 1 if o["bi"] else v
            cells[(row, j)] = max(cells.get((row, j), 0), val)
    start = 0
    rows = full_rows
    if o["pr"]:
        start = 21
        rows = max(0, min(109, full_rows) - min(21, full_rows))
        cells = {(p - 21, j): v for (p, j), v in cells.items() if 21 <= p < 109}
    idx = []
    for (row, a, b, end, _, p) in spans:
        idx.append((row - start, a, end if o["oo"] else b, p))
    return (rows, cols, cells, idx, t0)


def check_roll(d, arr, o, res, exc):
    """oracle failures of one compute_pianoroll call"""
    fails = []
    sel = select_unit(d, o)
    if sel is None:
        if exc is None:
            fails.append("error: unknown/missing time unit %r accepted" % (o["tu"],))
        return fails, None
    unit, td = sel
    notes = notes_of(d, arr, o, unit)
    exp = rasterise(notes, o, td)
    if exp[0] == "err":
        if exc is None:
            fails.append("error: input must be rejected (%s) but a roll was returned" % exp[1])
        return fails, None
    rows, cols, cells, idx, t0 = exp
    if not floats_exact(notes, o, td, t0):
        return fails, "inexact"
    if exc is not None:
        fails.append("error: valid input rejected with %r" % (exc,))
        return fails, None
    if o["ri"]:
        mat, ridx = res
    else:
        mat, ridx = res, None
    a = mat.toarray()
    if a.shape != (rows, cols):
        fails.append("shape: roll is %r, the notes and options require %r" % (a.shape, (rows, cols)))
        return fails, (rows, cols, cells)
    got = {(int(p), int(j)): int(a[p, j]) for p, j in zip(*a.nonzero())}
    if set(got) != set(cells):
        extra = sorted(set(got) - set(cells))[:3]
        miss = sorted(set(cells) - set(got))[:3]
        fails.append("cells: non-zero cells differ from the sounding frames (extra %r, missing %r)" % (extra, miss))
    else:
        bad = [(k, got[k], cells[k]) for k in sorted(cells) if got[k] != cells[k]]
        if bad:
            fails.append("velocity: cell %r holds %d, the (loudest) note there has %d (%d cells differ)" % (
                bad[0][0], bad[0][1], bad[0][2], len(bad)))
    if ridx is not None:
        r = [tuple(int(x) for x in row) for row in ridx]
        if r != idx:
            k = next((i for i in range(min(len(r), len(idx))) if r[i] != idx[i]), None)
            fails.append("idx: index rows are not the input notes' cells in input order (first differing row %r: %r vs %r)" % (
                k, r[k] if k is not None else len(r), idx[k] if k is not None else len(idx)))
        else:
            # they designate exactly the non-zero cells (rows cut away by the piano range excepted)
            des = set()
            for (row, on, off, _) in r:
                if 0 <= row < rows:
                    for j in ([on] if o["oo"] else range(on, off)):
                        des.add((row, j))
            if des != set(got):
                fails.append("idx: index rows do not designate exactly the non-zero cells")
    return fails, (rows, cols, cells)


def pc_expected(full, binary, normalize):
    """octave fold of a full 128-row roll, exact"""
    n = full.shape[1]
    out = [[Fraction(0)] * 12 for _ in range(n)]
    for p, j in zip(*full.nonzero()):
        out[int(j)][int(p) % 12] += int(full[p, j])
    for j in range(n):
        if binary:
            out[j] = [Fraction(1) if x > 0 else x for x in out[j]]
        if normalize:
            s = sum(out[j])
            if s != 0:
                out[j] = [x / s for x in out[j]]
    return out


def run_decoder_oracle(a):
    """maximal runs of one non-zero value per row, sorted by (onset, pitch, offset, velocity)"""
    runs = []
    rows, n = a.shape
    for p in range(rows):
        j = 0
        while j < n:
            v = int(a[p, j])
            if v == 0:
                j += 1
                continue
            k = j
            while k < n and int(a[p, k]) == v:
                k += 1
            runs.append((j, p, k, v))
            j = k
    runs.sort()
    return runs


# --------------------------------------------------------------------------- evaluation
def call(f, *a, **kw):
    try:
        with warnings.catch_warnings():
            warnings.simplefilter("ignore")
            return f(*a, **kw), None
    except BaseException as e:
        if isinstance(e, (KeyboardInterrupt, SystemExit)):
            raise
        return None, e


def kwargs_of(o):
    return dict(time_unit=o["tu"], time_div=o["td"], onset_only=o["oo"], note_separation=o["ns"],
                pitch_margin=o["pm"], time_margin=o["tm"], return_idxs=o["ri"], piano_range=o["pr"],
                remove_drums=o["rd"], remove_silence=o["rs"], end_time=o["et"], binary=o["bi"])


def eval_pr(d):
    import partitura.utils.music as M

    ev = Eval()
    arr = build_array(d)
    arr_req = req_array(d, arr)
    before = arr.tobytes()
    nontrivial = False
    skipped = 0
    for o in d["opts"]:
        res, exc = call(M.compute_pianoroll, arr, **kwargs_of(o))
        fails, info = check_roll(d, arr, o, res, exc)
        if info == "inexact":
            skipped += 1
            continue
        ev.oracle += ["%s [opts %s]" % (f, {k: v for k, v in o.items() if k != "pc"}) for f in fails]
        ev.requests.append("pr " + req_args(o) + " " + arr_req)
        if exc is not None:
            ev.impl.append("err")
        else:
            nontrivial = True
            ev.impl.append(fmt_roll(res[0], res[1]) if o["ri"] else fmt_roll(res, None))
        if "pc" in o:
            pc = o["pc"]
            kw = dict(normalize=pc["norm"], time_unit=o["tu"], time_div=o["td"], onset_only=o["oo"],
                      note_separation=o["ns"], time_margin=o["tm"], return_idxs=o["ri"],
                      remove_silence=o["rs"], end_time=o["et"], binary=pc["bin"])
            r2, e2 = call(M.compute_pitch_class_pianoroll, arr, **kw)
            ev.requests.append("pc %s %s %s %s" % (W.b(pc["norm"]), W.b(pc["bin"]), req_args(o), arr_req))
            # the full roll it must be the fold of (computed by the implementation itself, checked above for its own options)
            ofull = dict(o, pm=-1, pr=False, rd=True, bi=False, ri=True)
            full, e3 = call(M.compute_pianoroll, arr, **kwargs_of(ofull))
            if e2 is not None:
                ev.impl.append("err")
                if e3 is None:
                    ev.oracle.append("pc: pitch-class roll rejected (%r) an input whose full roll exists [opts %s]" % (e2, o))
            else:
                pcm, pidx = (r2 if o["ri"] else (r2, None))
                vals = [int(pcm.shape[1]), [[float(x) for x in pcm[:, j]] for j in range(pcm.shape[1])],
                        [[int(x) for x in row] for row in pidx] if pidx is not None else []]
                ev.impl.append(("@approx", vals, 1e-9))
                if e3 is not None:
                    ev.oracle.append("pc: pitch-class roll returned although the full roll is rejected (%r) [opts %s]" % (e3, o))
                else:
                    fa = full[0].toarray()
                    exp = pc_expected(fa, pc["bin"], pc["norm"])
                    if pcm.shape != (12, fa.shape[1]):
                        ev.oracle.append("pc: shape %r for a full roll of %d frames [opts %s]" % (pcm.shape, fa.shape[1], o))
                    else:
                        bad = [(c, j) for j in range(fa.shape[1]) for c in range(12)
                               if abs(Fraction(float(pcm[c, j])) - exp[j][c]) > Fraction(1, 10**9)]
                        if bad:
                            c, j = bad[0]
                            ev.oracle.append("pc: cell %r is %r, the octave fold%s gives %s [opts %s]" % (
                                (c, j), float(pcm[c, j]), " (normalised)" if pc["norm"] else "", exp[j][c], o))
                        if pc["norm"]:
                            for j in range(fa.shape[1]):
                                s = float(pcm[:, j].sum())
                                if not (abs(s - 1) < 1e-9 or not pcm[:, j].any()):
                                    ev.oracle.append("pc: normalised frame %d sums to %r [opts %s]" % (j, s, o))
                                    break
                        if pidx is not None:
                            want = [(int(r[0]) % 12, int(r[1]), int(r[2]), int(r[3])) for r in full[1]]
                            if [tuple(int(x) for x in r) for r in pidx] != want:
                                ev.oracle.append("pc: index rows are not the full roll's rows with the pitch taken mod 12 [opts %s]" % (o,))
    if arr.tobytes() != before:
        ev.oracle.append("frame: compute_pianoroll modified its argument")
    ev.info = {"skipped_inexact": skipped}
    ev.key = ("|".join(ev.requests)) if nontrivial else None
    return ev


def dense_of(d):
    a = np.zeros((d["rows"], d["n"]), dtype=int)
    for p, j, v in d["cells"]:
        a[p, j] = v
    return a


def fmt_notes_approx(na, unit):
    return [[int(r["pitch"]), float(r["onset_" + unit]), float(r["duration_" + unit]), int(r["velocity"])] for r in na]


def eval_dec(d):
    import partitura.utils.music as M
    from scipy.sparse import csc_matrix

    ev = Eval()
    a = dense_of(d)
    inp = csc_matrix(a) if d["sparse"] else a
    before = a.copy()
    res, exc = call(M.pianoroll_to_notearray, inp, d["td"], d["unit"])
    ev.requests.append("dec %d %d %d %s" % (d["rows"], d["n"], d["td"],
                                           W.lst(lambda c: "%d %d %d" % tuple(c), d["cells"])))
    good_shape = d["rows"] in (128, 88)
    if exc is not None:
        ev.impl.append("err")
        if good_shape:
            ev.oracle.append("dec: a %dx%d integer roll was rejected: %r" % (d["rows"], d["n"], exc))
        return ev
    ev.impl.append(("@approx", fmt_notes_approx(res, d["unit"]), 1e-6))
    if not good_shape:
        ev.oracle.append("dec: a roll with %d rows was accepted" % d["rows"])
        return ev
    init = 21 if d["rows"] == 88 else 0
    runs = run_decoder_oracle(a)
    td = d["td"]
    want = [(p + init, Fraction(on, td), Fraction(off - on, td), v) for (on, p, off, v) in runs]
    got = [(int(r["pitch"]), W.as_fraction(r["onset_" + d["unit"]]), W.as_fraction(r["duration_" + d["unit"]]), int(r["velocity"]))
           for r in res]
    if len(got) != len(want):
        ev.oracle.append("dec: %d notes decoded, the roll has %d runs" % (len(got), len(want)))
    else:
        for g, w in zip(got, want):
            if g[0] != w[0] or g[3] != w[3] or abs(g[1] - w[1]) > Fraction(1, 10**5) * max(1, abs(w[1])) or abs(g[2] - w[2]) > Fraction(1, 10**5) * max(1, abs(w[2])):
                ev.oracle.append("dec: decoded note %r is not the run %r" % (tuple(map(float, g)), tuple(map(float, w))))
                break
        if [str(x) for x in res["id"]] != ["n%d" % i for i in range(len(res))]:
            ev.oracle.append("dec: note ids are not n0..n%d" % (len(res) - 1))
    if (a != before).any():
        ev.oracle.append("frame: pianoroll_to_notearray modified its argument")
    ev.key = ev.requests[0]
    return ev


def eval_rt(d):
    """encode grid-aligned, non-touching notes, decode, expect the notes back"""
    import partitura.utils.music as M

    ev = Eval()
    td, unit = d["td"], d["unit"]
    notes = d["notes"]
    if not notes:
        return ev
    recs = [(p, f32(Fraction(on, td)), f32(Fraction(ln, td)), v) for (p, on, ln, v) in notes]
    arr = np.array(recs, dtype=[("pitch", "i4"), ("onset_" + unit, "f4"), ("duration_" + unit, "f4"), ("velocity", "i4")])
    # float32 storage of k/12 is not on the grid exactly; the frames still are (checked via the correspondence of the roll)
    dd = {"units": [unit], "has_vel": True, "has_chan": False}
    o = {"tu": unit, "td": td, "oo": False, "ns": False, "pm": -1, "tm": 0, "pr": d["piano"], "rd": True,
         "rs": False, "et": None, "bi": False, "ri": False}
    in_range = all((21 <= p < 109) if d["piano"] else (0 <= p < 128) for (p, _, _, _) in notes)
    pr, exc = call(M.compute_pianoroll, arr, **kwargs_of(o))
    ev.requests.append("pr " + req_args(o) + " " + req_array(dd, arr))
    if exc is not None:
        ev.impl.append("err")
        ev.oracle.append("roundtrip: encoding rejected %r" % (exc,))
        return ev
    ev.impl.append(fmt_roll(pr, None))
    back, exc2 = call(M.pianoroll_to_notearray, pr, td, unit)
    a = pr.toarray()
    ps, js = a.nonzero()
    cells = [[int(p), int(j), int(a[p, j])] for p, j in zip(ps.tolist(), js.tolist())]
    ev.requests.append("dec %d %d %d %s" % (a.shape[0], a.shape[1], td, W.lst(lambda c: "%d %d %d" % tuple(c), cells)))
    if exc2 is not None:
        ev.impl.append("err")
        ev.oracle.append("roundtrip: decoding rejected %r" % (exc2,))
        return ev
    ev.impl.append(("@approx", fmt_notes_approx(back, unit), 1e-6))
    if in_range:
        tol = Fraction(1, 10**5)
        got = sorted((int(r["pitch"]), rhe(W.as_fraction(r["onset_" + unit]) * td), rhe(W.as_fraction(r["duration_" + unit]) * td),
                      int(r["velocity"])) for r in back)
        ok_grid = all(abs(W.as_fraction(r["onset_" + unit]) * td - rhe(W.as_fraction(r["onset_" + unit]) * td)) < tol * td * 100 for r in back)
        want = sorted((p, on, ln, v) for (p, on, ln, v) in notes)
        if got != want or not ok_grid:
            ev.oracle.append("roundtrip: decoding the roll of %r gives %r" % (want, got))
    ev.key = "|".join(ev.requests)
    return ev


def evaluate(d):
    k = d.get("k", "pr")
    if k == "pr":
        return eval_pr(d)
    if k == "dec":
        return eval_dec(d)
    return eval_rt(d)


def finding_key(d, f):
    return d.get("k", "pr") + ":" + f.split(":")[0]


def shrink(d):
    k = d.get("k", "pr")
    if k == "pr":
        if len(d["opts"]) > 1:
            for o in d["opts"]:
                yield dict(d, opts=[o])
        for o in d["opts"][:1]:
            if "pc" in o and len(d["opts"]) == 1:
                yield dict(d, opts=[{kk: v for kk, v in o.items() if kk != "pc"}])
        for i in range(len(d["rows"])):
            yield dict(d, rows=d["rows"][:i] + d["rows"][i + 1:])
        if len(d["opts"]) == 1:
            o = d["opts"][0]
            for kk, v in (("oo", False), ("ns", False), ("pm", -1), ("tm", 0), ("pr", False), ("rs", False),
                          ("et", None), ("bi", False), ("ri", False), ("rd", True)):
                if o[kk] != v:
                    yield dict(d, opts=[dict(o, **{kk: v})])
    elif k == "dec":
        for i in range(len(d["cells"])):
            yield dict(d, cells=d["cells"][:i] + d["cells"][i + 1:])
        if d["sparse"]:
            yield dict(d, sparse=False)
    else:
        for i in range(len(d["notes"])):
            yield dict(d, notes=d["notes"][:i] + d["notes"][i + 1:])


def distribution(descs, results):
    from collections import Counter

    c = Counter(d.get("k", "pr") for d in descs)
    opt = Counter()
    units = Counter()
    n_opts = 0
    for d in descs:
        if d.get("k", "pr") != "pr":
            continue
        units["+".join(sorted(d["units"])) or "none"] += 1
        for o in d["opts"]:
            n_opts += 1
            for kk in ("oo", "ns", "pr", "rs", "bi", "ri"):
                if o[kk]:
                    opt[kk] += 1
            opt["pm=%d" % o["pm"]] += 1
            opt["td=%s" % o["td"]] += 1
            opt["tu=%s" % o["tu"]] += 1
            if o["et"] is not None:
                opt["end_time"] += 1
            if "pc" in o:
                opt["pc"] += 1
    errs = sum(1 for r in results for x in r.get("impl", []) if x == "err")
    skipped = sum((r.get("info") or {}).get("skipped_inexact", 0) for r in results)
    sizes = Counter(min(len(d["rows"]), 12) for d in descs if d.get("k", "pr") == "pr")
    return {"by_kind": dict(c), "option_sets": n_opts, "options": dict(opt), "unit_sets": dict(units),
            "array_sizes(capped 12)": dict(sizes), "error_observations": errs, "skipped_inexact_float": skipped}
