"""C13 - a piano roll shows exactly the given notes, in their cells, with their velocity.

Readings fixed here (each is the reading under which the repaired code is right):

* frames: onset frame = round_half_even(time_div * (onset - t0)) + time_margin * time_div, with
  t0 = smallest onset when silence is removed, else min(0, smallest onset); length =
  max(1, round_half_even(time_div * duration)) frames; with note separation the last frame is dropped
  but never below one frame; in onset mode only the onset frame is filled;
* columns: time_margin*time_div + last offset frame (the offset frames already contain the leading margin,
  and are taken before note separation / onset mode shorten the notes); with `end_time`:
  ceil(time_margin*time_div + time_div*(end_time - t0)), and `end_time` is rejected when
  time_div*(end_time - t0) is smaller than the last offset frame (leading margin included);
* rows: 128; span + 2*margin when pitch_margin > -1; `piano_range` is the documented slice [21:109] of
  whatever roll results (88 rows for the full roll);
* "that note's own velocity": velocities are MIDI velocities 0..127; a note of velocity 0 does not sound (round 6: it
  is drawn - an explicit zero - but lights no cell, hides no louder note, and its index row designates no cell; it
  still counts for the shape); without a velocity column every note counts as velocity 1;
* index rows: (row, onset frame, offset frame, midi pitch) per *input* row; they designate the cells
  row x [onset, offset) - in onset mode the single cell (row, onset), the offset column still reporting
  the note's full end;
* pitches outside 0..127 without a pitch margin, empty arrays, negative durations and unknown time units
  are rejected (any exception);
* the decoder: a note is a maximal horizontal run of one non-zero value in one row; its times are
  start/time_div and length/time_div computed in binary64 and stored in float32 columns (exactly that value);
* arguments as they are passed: an omitted keyword has its documented default; `time_div` is converted with
  int() (truncation toward zero); `time_margin` may be any number - the leading margin is
  int(time_margin*time_div) frames, the trailing one time_margin*time_div with the column count rounded up;
  `end_time` may be a one-element array / list (fix C13-2); frames that would fall outside [0, columns)
  (only possible with a negative time_div / time_margin) cannot be shown, such a call is rejected;
  an `end_time` sequence that does not have exactly one element is rejected; no verdict of the oracle (the
  model comparison still applies) for a `time_div` given as an array with a dimension;
* inputs other than a structured array go through `ensure_notearray`: Part / PartGroup / Score / list of
  Parts give a score note array (beat, quarter, div columns; no velocity - every note counts 1; no channel),
  PerformedPart / Performance a performance note array (sec, tick; velocity; channel - drums are dropped when
  `remove_drums`); the rows of that note array (another property's subject) are taken from the
  implementation, "input order" is their order; anything else (unstructured array, empty list, other objects)
  is rejected; a list of PerformedParts is documented as performance-like but rejected by ensure_notearray:
  the oracle gives no verdict on its acceptance (if accepted, the roll must be that of the performance array);
* (round 3) "the given notes", "the chosen resolution and margins": the roll is a function of the VALUES of the
  arguments of THIS call.  Whatever holds a value (Python number, numpy scalar, 0-d / one-element array of float64 /
  float32 / int, list, tuple for `end_time`; number / numpy scalar / 0-d array for `time_div`, `time_margin`;
  a note array that is read-only, strided, a multi-field view, a recarray, aligned, with i8/f8 columns; a dense roll in
  C / Fortran order, strided, read-only, of a small int dtype, csc / csr for the decoder) stands for that value;
  a call leaves every argument object as it found it, returns nothing that shares memory with an argument, and gives the
  same result when it is repeated with the same objects, with fresh equal objects, or with plain Python numbers.
  Not demanded: that two results are distinct objects (a cache may hand out one object twice).
* (round 5) arguments of another kind than documented: a flag is read by its truth value, a bool / numpy integer is the
  integer, a float with an integer value is that integer as pitch_margin - for these the oracle judges the call by the
  value the argument stands for; texts, None, lists in place of a number are compared with the model only.
* (round 5) "sounds during frame j" is read over the exact values of the columns (rationals).  The code forms binary64
  differences and products before it rounds; where one of them is not exact (`floats_exact`) the oracle gives no verdict
  on shape / cells / index rows (nor on a rejection that hinges on the frames) - such calls are compared with the
  binary64 model (Model/PianoRollFloat.lean) only, exactly, cell by cell; every other call is compared with the binary64
  model AND the exact model.  Round trip: with remove_silence / a time margin / end_time the decoder returns every onset
  moved by the one shift int(time_margin*time_div)/time_div - min_time (it cannot know it), everything else as it was.
  Rolls with non-integer cells are outside the property's quantifier ("all integer rolls"): their decoding (every non-zero
  cell sounds, velocity int(cell)) is compared with the model, the oracle judges only frame / alias / history.
"""
import json
import math
import random
import warnings
from fractions import Fraction

import numpy as np

import gen_score as GS
import wire as W
from core import Eval

PROPERTY = "C13"
DRIVER = "drv_c13"
PROPS = ["PartituraModel.Props.C13", "PartituraModel.Props.C13Args", "PartituraModel.Props.C13Float",
         "PartituraModel.Props.C13Session", "PartituraModel.Props.C13Raster",
         "PartituraModel.Props.C13DecodeQ", "PartituraModel.Props.C13Shift", "PartituraModel.Props.C13Kinds",
         "PartituraModel.Props.C13PcF", "PartituraModel.Props.C13Vel0", "PartituraModel.Props.C13Margin",
         "PartituraModel.Props.C13Dec32", "PartituraModel.Props.C13Compose"]
TRUSTED = [
    "scipy.sparse.csc_matrix((data,(row,col)),shape,dtype=int): places each triplet, rejects out-of-range indices; [21:109,:] slicing; toarray()",
    "np.round = round half to even on binary64 (probed on five ties by harness/translate_c13lits.py: C13L_HALF_EVEN); np.argsort = some "
    "permutation that sorts (ties in any order: order_indep / raster_order_indep show no output depends on it)",
    "IEEE-754 binary64: astype(float) of f4 / i4 / i8 columns is exact, `onset - min_time`, `time_div * x`, `time_margin * time_div`, "
    "`end_time - min_time`, the sums of the column count are each ONE correctly rounded operation (Model f64 = roundBin 53 -1074, "
    "no overflow / nan / integers beyond 2^53 modelled); tied to the code by comparing EVERY pr / pc observation with the binary64 "
    "model exactly - including those whose products are inexact (families f64: onsets on and one or two ulps beside half-frame "
    "points of resolutions 3,5,6,7,10,12,24,100, inexact min_time, margins 0.1 / 0.3 / 1/3, end times off the grid)",
    "np.isclose(colsum, 0) modelled as colsum = 0 (integer cell values); the fold and the column sum of the pitch-class roll are sums of integers "
    "(exact in binary64 below 2^53), `pc_pianoroll /= norm_term` is ONE correctly rounded division per entry in the format of the returned array "
    "(Model fPc = roundBin of the generated C13P_PREC / C13P_EMIN; probed: C13P_QUOTIENT) - tied to the code by comparing every entry of every "
    "pitch-class observation EXACTLY (`pcf` requests; the exact-rational model `pcq` still with rtol 1e-9)",
    "NEP 50 promotion: a Python float divided by a numpy.float32 is a binary32 division of the two binary32 operands (Model quot32; compared "
    "exactly, value by value, by `dec32` requests); time_div = np.float32(0) (inf / nan instead of an exception) is not generated",
    "a float pitch_margin with a fractional part: `pr_pitch += pitch_margin` and `pitch_span + 2 * pitch_margin` are each one binary64 operation, "
    "`int()` / `.astype(int)` truncate toward zero (Model/PianoRollMargin.lean; compared exactly by `prv` requests, no verdict of the oracle)",
    "the rows of the note array that ensure_notearray builds from a Part / Score / PerformedPart / Performance (note_array_from_part(_list), "
    "PerformedPart.note_array: other properties' subject) are taken from the implementation; the dispatch itself (which kinds are accepted, "
    "which columns the array then has) is modelled from the generated layout table and stated in ensure_dispatch",
    "IEEE-754: Python float division = correctly rounded binary64, storage in an f4 column = round to nearest even binary32 "
    "(Model roundBin; compared exactly, value by value; format read off the live result dtype: C13L_DEC_PREC/EMIN/EMAX); int32 storage of "
    "pitch / velocity (OverflowError outside, modelled by fitsIntCol for the real-valued decoder; the integer decoder's cases stay below 2^31)",
    "numpy nonzero() / int() on a float, float32 or bool roll, dense or csc / csr with explicit zeros: cell != 0 and truncation toward zero "
    "(probed: C13L_DEC_TRUNC, C13L_DEC_ZERO_ACTIVE); nan / inf cells are not generated",
    "sessions (Model/PianoRollSession.lean): that no call writes through the caller's time_div / time_margin / end_time objects or the "
    "note array is the model's step function (store returned unchanged); it is tied to the code by `sess` requests that compare every "
    "result and the final value of every shared object, and by the oracle's frame / alias / history clauses on the real objects; "
    "sessions are answered by the exact model (an option set with inexact products is left out of the `sess` request)",
    "harness/translate_c13.py reads the constants from the live source (signatures, ast literals, two finite function tables by calling the "
    "functions on their whole domain); harness/translate_c13lits.py reads the literals of the frame arithmetic and of the decoder's "
    "storage by probing the live functions; tables_spec / tables_extracted / lits_spec / lits_extracted pin every generated value; "
    "harness/translate_c13pc.py (round 6) reads the format and the arithmetic of the pitch-class normalisation by probing (pcf_lits)",
]
PARTIAL = [
    "velocities: cell_iff / cell_binary / idx_designate are now proved for ALL velocities >= 0 in their *_sounding forms (Props/C13Vel0.lean: non-zero "
    "iff a note of NON-ZERO velocity covers the cell; cell_value covers negative ones); decode_encode(_shift) / roundtrip_stored(_shift) still assume "
    "velocities > 0 (a velocity-0 note leaves no run: the round trip can only return the sounding notes - example in Props/C13Vel0.lean, not a theorem)",
    "decode_encode_shift / roundtrip_stored_shift: full notes on the fixed pitch axis (no onset mode / separation / pitch margin / binary), time_margin >= 0, "
    "notes grid-aligned relative to frame 0; remove_silence / time_margin / end_time / piano_range are free and cost one common shift of the onsets. "
    "Through the float32 columns the round trip is proved exactly for time_div = 2^j (roundtrip_stored: 1, 2, 4, 8 = default, 16, ...); for other "
    "resolutions the stored times are covered by round_spec / stored_close (error bound 2^-23), not by a round trip through re-rasterisation",
    "binary64 inside the rasteriser: the clauses that do not depend on how a product was rounded (raster_*: one frame at least, separation, onset mode, "
    "maximum velocity, non-zero iff covered, bounds, order independence, index rows) are proved for the binary64 code on ALL inputs; that its frames "
    "are the frames of the exact reading is proved under a side condition (float_exact: products are binary64 numbers; frame_margin: the exact product "
    "keeps 2^-51 of its size away from every half-frame point) - float_differs is a tie where they differ; shape_cols / first_frame / "
    "decode_encode speak about the exact model only. The normalised pitch-class roll as returned: every entry is the rounded exact quotient "
    "(pcf_column, pcf_entry_close: 2^-53 relative), exact for 0 / 1 / power-of-two sums (pcf_exact), a sounding column adds up to 1 within 2^-53 "
    "(pcf_colsum) - under the side condition that the column sum stays below 2^1022 and cells are >= 0; the sum in pcf_colsum is the exact sum of "
    "the twelve floats, not numpy's float sum",
    "scipy sparse assembly, slicing and toarray are trusted primitives (Roll.cell is their assumed meaning); compared cell by cell",
    "a float pitch_margin with a fractional part (Model/PianoRollMargin.lean, compared by `prv` requests): cell value / non-zero iff sounding / shape / "
    "bounds / index rows / order independence are proved for every rounding function (margin_*, rows_cell_value), agreement with the integer-margin "
    "rasteriser on integer margins (margin_extends) under explicit < 2^53 bounds; that the row count is span + floor(2 pm) and rows are pitch - "
    "lowest + floor(pm), injective, in range (margin_rows) only for the exact reading and pm >= 0 - in binary64 a margin one ulp below an integer "
    "behaves as that integer (example in Props/C13Margin.lean), and for -1 < pm < 0 the two lowest pitches merge (margin_neg_merges): neither is "
    "what the property's 'pitch span plus twice the margin' says for an integer margin, the oracle gives no verdict there",
    "argument kinds (Model/PianoRollKinds.lean: None / bool / int / float / text / list for every keyword, compared with the code by `prv` requests): "
    "not modelled are texts for end_time other than decimal integer literals and texts without a digit, underscores / non-ASCII digits in numeric "
    "texts, bytes, nan / inf (also as decoder cells), time_div of the decoder given as np.float32(0) or np.float16; the oracle judges only the "
    "number-like / flag-like kinds (truthiness of int / numpy bool flags, bool and numpy integers as numbers, integral floats). The decoder with a "
    "np.float32 time_div: the notes are those of any other time_div (dec32_notes), a stored time is the once-rounded quotient for frame numbers "
    "< 2^24 (quot32_spec) - stated for finite results (`quot32 = some y`), overflow to inf is compared only",
]
RULE = ("random structured note arrays (score units beat/quarter/div, performance units sec/tick, f4/i4 columns in shuffled dtype order, "
        "with/without velocity and channel columns, rows in random order, pitch pools forcing collisions, zero durations, drum channel 9, "
        "negative onsets, half-frame ties, rare invalid inputs) and real Part / PartGroup / Score / list-of-Parts / PerformedPart / Performance "
        "objects (plus rejected kinds: unstructured array, list of PerformedParts, empty list, str, None) x sampled keyword sets in which every "
        "keyword is given or omitted (time_unit, time_div in {1,2,3,8,12,16,auto, floats, 0, negative, 0-d / 1-d arrays}, onset_only, "
        "note_separation, pitch_margin in {-1,0,2}, time_margin in {0,1,2, 1/2, 3/2, 1/4, negative}, piano_range, remove_drums, remove_silence, "
        "end_time as number / one-element array / list / longer or empty array, binary, return_idxs; pitch-class roll with its own keywords given or "
        "omitted); random integer rolls 128xn / 88xn / other heights (dense and sparse, negative values, empty, single column, noisy rows, "
        "time_div omitted / fractional / zero / negative; rolls in Fortran order / strided / read-only / int8..int32 / csr, time_div as "
        "numpy scalar / 0-d array; every roll decoded twice) and encode->decode round trips for the inverse; SESSIONS: one note_info "
        "object (note array as read-only / strided / multi-field view / recarray / aligned / i8-f8 columns, or Part / Score / "
        "PerformedPart / Performance objects, parts built with interleaved read-only views) and ONE object each for time_div, "
        "time_margin, end_time (Python number, numpy scalar, 0-d array, one-element array of f8 / f4 / i8, shape (1,1), read-only, "
        "list, tuple) passed to 3-6 compute_pianoroll / compute_pitch_class_pianoroll calls with repeating option sets (first onset "
        "> 0 or negative, silence removed or kept), then the same calls with fresh objects and with plain Python numbers. "
        "ROUND 5: f8 note arrays on / beside the half-frame points of non-dyadic resolutions with inexact min_time, margins and end "
        "times (compared with the binary64 model; the count of cases in which the exact reading gives another roll is in the "
        "distribution); rolls with real-valued cells (f8 / f4 / bool, dense / Fortran / read-only / csc / csr with explicit zeros, "
        "integer parts 0 / 1 / 64 / negative, equal and different neighbours, values beyond int32); round trips with "
        "remove_silence / integer and fractional margins / end_time; arguments of another kind than documented (flags as ints / numpy "
        "bools / texts / None / lists, bool / text / None / list / tuple / float for time_div, time_margin, pitch_margin, end_time, "
        "time_unit). ROUND 6: notes of velocity 0 inside arrays with a velocity column (alone in a cell, under a louder note, whole arrays); "
        "every pitch-class entry compared exactly as the binary64 number it is; a stream of float pitch margins with a fractional part "
        "(0.5, 1.5, -0.5, -0.25, 2.25, 0.1, +-0.9, <= -1, one ulp below 1 and 2, 1e-9; neighbouring pitches / a single pitch / piano_range / "
        "index rows); every decoded integer roll once more with time_div as numpy.float32. distinct = distinct request text; non-trivial = at least one request answered with a roll/note list (not err)")
LEVEL_TEXT = ("Lean 4 theorems over an executable exact-rational model of ensure_notearray's dispatch, the keyword handling (defaults, int(), "
              ".item()), _make_pianoroll / compute_pianoroll / compute_pitch_class_pianoroll / pianoroll_to_notearray incl. its float32 "
              "columns (all note lists, all option values, by induction and permutation invariance), stated over constant tables regenerated "
              "from the source, and tied to the code by a differential run that compares shape, every non-zero cell, every index row and "
              "every decoded value exactly, plus an independent Fraction rasteriser as oracle on the implementation's outputs. "
              "Round 5: the rasteriser is modelled a second time in the code's own arithmetic (binary64 after every operation, "
              "literals regenerated by probing); every observation is compared with it exactly, also at half-frame ties the rounding "
              "moves; the order / cell / index-row clauses are proved for it on all inputs, agreement with the exact reading under an "
              "explicit margin condition; the decoder is modelled and specified on real-valued rolls (it extends the integer one); the "
              "round trip is proved for every remove_silence / margin / end_time up to the one shift the decoder cannot know. "
              "Sessions of calls on shared argument objects are modelled with a store (frame, history independence, container "
              "independence proved for all call sequences) and compared call by call and store value by store value. "
              "Round 6: the cell clauses hold for all velocities >= 0 (a velocity-0 note neither lights nor hides a cell); the normalised "
              "pitch-class roll is modelled and compared bit for bit (one rounded division per entry, format and arithmetic regenerated by "
              "probing), its per-frame normalisation proved for the floats returned; a pitch margin with a fractional part is modelled "
              "(row-parametric rasteriser, all cell clauses proved for arbitrary rows) and compared; the decoder's binary32 quotient for a "
              "numpy.float32 time_div; encoder and decoder composed through the float32 columns at power-of-two resolutions.")

SCORE_UNITS = ["beat", "quarter", "div"]
PERF_UNITS = ["sec", "tick"]
INT_UNITS = ("div", "tick")
TIME_UNITS = ["beat", "quarter", "sec", "div", "tick"]
# documented defaults (hard-coded here on purpose: the oracle does not read the generated tables)
PR_KEYS = ["tu", "td", "oo", "ns", "pm", "tm", "ri", "pr", "rd", "rs", "et", "bi"]
PR_DEFAULTS = {"tu": "auto", "td": "auto", "oo": False, "ns": False, "pm": -1, "tm": 0, "ri": False, "pr": False,
               "rd": True, "rs": True, "et": None, "bi": False}
PR_KWNAME = {"tu": "time_unit", "td": "time_div", "oo": "onset_only", "ns": "note_separation", "pm": "pitch_margin",
             "tm": "time_margin", "ri": "return_idxs", "pr": "piano_range", "rd": "remove_drums", "rs": "remove_silence",
             "et": "end_time", "bi": "binary"}
PC_KEYS = ["norm", "tu", "td", "oo", "ns", "tm", "ri", "rs", "et", "bin"]
PC_DEFAULTS = {"norm": True, "tu": "auto", "td": "auto", "oo": False, "ns": False, "tm": 0, "ri": False, "rs": True,
               "et": None, "bin": False}
PC_KWNAME = dict(PR_KWNAME, norm="normalize", bin="binary")
SCORE_KINDS = ("part", "partgroup", "score", "partlist")
PERF_KINDS = ("performedpart", "performance")
BAD_KINDS = ("performedpartlist", "emptylist", "plainarray", "other", "none")
MAX_CELLS = 1500   # rolls with more non-zero cells / more columns (pitch-class requests) are checked by the oracle only
MAX_COLS = 400


# --------------------------------------------------------------------------- generation
def f32(x):
    return float(np.float32(x))


def gen_time(rng, unit, grid, lo, hi):
    """an onset in `unit`"""
    if unit in INT_UNITS:
        return rng.randint(int(lo * 4), int(hi * 4))
    m = rng.random()
    if m < 0.75:
        return f32(Fraction(rng.randint(int(lo * grid), int(hi * grid)), grid))
    if m < 0.9:
        return f32(rng.uniform(lo, hi))
    return f32(Fraction(rng.randint(int(lo * 3), int(hi * 3)), 3))


def gen_dur(rng, unit, grid):
    m = rng.random()
    if m < 0.1:
        return 0
    if unit in INT_UNITS:
        return rng.randint(0, 9)
    if m < 0.75:
        return f32(Fraction(rng.randint(0, 3 * grid), grid))
    if m < 0.9:
        return f32(rng.uniform(0, 2.5))
    return f32(Fraction(rng.randint(1, 6), 3))


def gen_array(rng, tier):
    m = rng.random()
    if m < 0.45:
        units = rng.sample(SCORE_UNITS, rng.randint(1, 3))
    elif m < 0.8:
        units = rng.sample(PERF_UNITS, rng.randint(1, 2))
    elif m < 0.985:
        units = rng.sample(SCORE_UNITS, rng.randint(1, 2)) + rng.sample(PERF_UNITS, rng.randint(1, 2))
        rng.shuffle(units)
    else:
        units = []
    has_vel = rng.random() < 0.65
    has_chan = rng.random() < 0.35
    big = tier != "quick" and rng.random() < 0.2
    n = rng.choice([1, 1, 2, 2, 3, 3, 4, 5, 6, 8, 10]) if not big else rng.randint(10, 24)
    if rng.random() < 0.02:
        n = 0
    grid = rng.choice([1, 2, 4, 8, 16, 16, 32])
    neg = rng.random() < 0.25
    lo = -2 if neg else (rng.choice([0, 0, 1, 3]))
    hi = lo + rng.choice([1, 2, 4, 6])
    pool_kind = rng.random()
    if pool_kind < 0.5:
        pool = [rng.randint(21, 108) for _ in range(rng.randint(1, 3))]  # collisions likely
    elif pool_kind < 0.8:
        pool = list(range(21, 109))
    elif pool_kind < 0.96:
        pool = list(range(0, 128))
    else:
        pool = [-1, 128, 130, 60, 0, 127]
    drum_p = (1.0 if rng.random() < 0.06 else rng.choice([0.0, 0.3, 0.3, 0.5])) if has_chan else 0.0
    rows = []
    for _ in range(n):
        r = {"p": rng.choice(pool), "t": []}
        for u in units:
            on = gen_time(rng, u, grid, lo, hi)
            du = gen_dur(rng, u, grid)
            if rng.random() < 0.002:
                du = -1 if u in INT_UNITS else -0.5
            r["t"].append([on, du])
        r["v"] = rng.randint(1, 127) if has_vel else None
        r["c"] = (9 if rng.random() < drum_p else rng.randint(0, 15)) if has_chan else None
        rows.append(r)
    order = rng.random()
    if order < 0.15 and units:
        rows.sort(key=lambda r: r["t"][0][0])
    elif order < 0.25 and units:
        rows.sort(key=lambda r: -r["t"][0][0])
    # duplicates of a row (same pitch, same onset) with another velocity
    if rows and rng.random() < 0.25:
        c = dict(rng.choice(rows))
        c = {"p": c["p"], "t": [list(x) for x in c["t"]], "v": (rng.randint(1, 127) if has_vel else None), "c": c["c"]}
        rows.insert(rng.randint(0, len(rows)), c)
    # round 6: notes of velocity 0 (drawn from a side generator seeded by the rows, so that every other draw of the run is
    # what it was before): alone in their cells, under a louder note, over a whole array
    if has_vel and rows:
        side = random.Random(len(rows) * 1000003 + sum(r["p"] for r in rows) * 31 + grid)
        m0 = side.random()
        if m0 < 0.10:
            for r in side.sample(rows, side.randint(1, min(2, len(rows)))):
                r["v"] = 0
        elif m0 < 0.115:
            for r in rows:
                r["v"] = 0
    return {"src": "array", "units": units, "has_vel": has_vel, "has_chan": has_chan, "rows": rows}


def gen_object(rng, tier):
    """a real score-like / performance-like object (or something ensure_notearray must reject)"""
    m = rng.random()
    if m < 0.45:
        kind = rng.choice(SCORE_KINDS)
        nparts = 1 if kind == "part" else rng.choice([1, 1, 2])
        kw = dict(n_measures=rng.randint(1, 2), voices=rng.randint(1, 2), ts_changes=False, divs=rng.choice([1, 2, 4]))
        parts = [GS.random_part_desc(rng, pid="P%d" % i, **kw) for i in range(nparts)]
        return {"src": kind, "parts": parts}
    if m < 0.9:
        kind = rng.choice(PERF_KINDS + (("performedpartlist",) if rng.random() < 0.15 else ()))
        grid = rng.choice([2, 4, 8, 16])
        drum_p = rng.choice([0.0, 0.3, 0.5, 1.0 if rng.random() < 0.1 else 0.2])
        pool = [rng.randint(21, 108) for _ in range(rng.randint(1, 3))] if rng.random() < 0.5 else list(range(0, 128))
        notes = []
        for i in range(rng.choice([1, 2, 3, 4, 6, 9])):
            on = Fraction(rng.randint(0, 6 * grid), grid)
            ln = Fraction(rng.randint(0, 2 * grid), grid)
            n = {"p": rng.choice(pool), "on": float(on), "off": float(on + ln), "v": rng.randint(1, 127), "tr": rng.randint(0, 1)}
            if rng.random() < 0.8:
                n["c"] = 9 if rng.random() < drum_p else rng.randint(0, 15)
            notes.append(n)
        rng.shuffle(notes)
        return {"src": kind, "pnotes": notes, "ppq": rng.choice([2, 4, 8])}
    return {"src": rng.choice(["emptylist", "plainarray", "other", "none"])}


F64_TD = [3, 5, 6, 7, 10, 12, 24, 100, 3, 10, 8]
F64_TM = [0, 0, 0.1, 0.3, 0.7, 1.1, 1 / 3, 0.5, 2.3]


def nudge(rng, x):
    """x, or one of its binary64 neighbours"""
    k = rng.choice([0, 0, 0, 1, -1, 2, -2])
    for _ in range(abs(k)):
        x = math.nextafter(x, math.inf if k > 0 else -math.inf)
    return x


def gen_f64_array(rng, tier):
    """FRAME BOUNDARIES IN BINARY64: a note array with f8 time columns whose onsets / durations sit on (or one or two
    units in the last place beside) the half-frame points (k + 1/2) / time_div of a resolution that is no power of
    two, first onsets that make `onset - min_time` inexact, margins and end times that are no dyadic numbers: the
    frame is decided by the rounding of the binary64 subtraction and product.  One option set per array uses the
    resolution the array was built for."""
    td = rng.choice(F64_TD)
    units = rng.sample(["beat", "quarter", "sec"], rng.choice([1, 1, 2]))
    base = rng.choice([0.0, 0.0, 0.1, 1 / 3, 2.7, -0.3, 1e-3, 5.0])
    has_vel = rng.random() < 0.5
    pool = [rng.randint(40, 80) for _ in range(rng.randint(1, 3))]
    rows = []
    for _ in range(rng.choice([1, 2, 3, 4, 6])):
        r = {"p": rng.choice(pool), "t": [], "v": rng.randint(1, 127) if has_vel else None, "c": None}
        for _u in units:
            m = rng.random()
            if m < 0.6:
                on = base + (rng.randint(0, 30) + 0.5) / td
            elif m < 0.8:
                on = base + rng.randint(0, 30) / td
            else:
                on = base + rng.uniform(0, 8)
            m = rng.random()
            if m < 0.55:
                du = (rng.randint(0, 12) + 0.5) / td
            elif m < 0.7:
                du = rng.randint(0, 12) / td
            elif m < 0.8:
                du = 0.0
            else:
                du = rng.uniform(0, 3)
            r["t"].append([nudge(rng, on), max(0.0, nudge(rng, du))])
        rows.append(r)
    if rng.random() < 0.5:
        # the first note exactly at `base` (so that min_time = base)
        rows[0]["t"] = [[base, t[1]] for t in rows[0]["t"]]
    rng.shuffle(rows)
    arr = {"src": "array", "units": units, "has_vel": has_vel, "has_chan": False, "rows": rows, "form": "wide", "fam": "f64"}
    opts = []
    for _ in range(6):
        o = gen_opts(rng, arr)
        o.pop("omit", None)
        o["td"] = td if rng.random() < 0.8 else rng.choice(F64_TD)
        o["tu"] = rng.choice(units + ["auto"])
        o["tm"] = rng.choice(F64_TM)
        o["rs"] = rng.random() < 0.6
        o["et"] = None
        if rng.random() < 0.4:
            k = units.index(o["tu"]) if o["tu"] in units else 0
            last = max(r["t"][k][0] + r["t"][k][1] for r in rows)
            o["et"] = nudge(rng, last + rng.choice([0.0, 0.1, 1e-9, 0.5 / o["td"], 1 / o["td"], 1.0, 2.3, -1e-12]))
        opts.append(o)
    arr["opts"] = opts
    arr["k"] = "pr"
    return arr


TD_POOL = [1, 2, 8, 16, "auto", "auto", 3, 12]
TD_ODD = [0, -1, -2, 2.7, 8.0, 3.5, -1.5, 0.5, {"a0": 4}, {"a0": 2.5}, {"arr": [4]}, {"arr": [2, 4]}]
TM_POOL = [0, 0, 1, 2]
TM_ODD = [0.5, 1.5, 0.25, 0.75, 2.5, -0.5, -1, 1.0, 0.125]


def ends_of(rng, src, units):
    """candidate end times (in some unit of the input)"""
    if src["src"] == "array" and src["rows"] and units:
        return [r["t"][k][0] + max(r["t"][k][1], 0) for r in src["rows"] for k in range(len(units))]
    if src.get("pnotes"):
        return [n["off"] for n in src["pnotes"]]
    if src.get("parts"):
        return [max([n["t"] + n["dur"] for n in p["notes"]] + [0]) / p["divs"] * rng.choice([1, 1, 2, p["divs"]]) for p in src["parts"]]
    return None


def gen_opts(rng, src):
    units = src.get("units") or (SCORE_UNITS if src["src"] in SCORE_KINDS else PERF_UNITS if src["src"] in PERF_KINDS else [])
    m = rng.random()
    if m < 0.45 or not units:
        tu = "auto"
    elif m < 0.95:
        tu = rng.choice(units)
    elif m < 0.98:
        tu = rng.choice(TIME_UNITS)
    else:
        tu = rng.choice(["foo", "seconds", ""])
    td = rng.choice(TD_POOL) if rng.random() < 0.85 else rng.choice(TD_ODD)
    tm = rng.choice(TM_POOL) if rng.random() < 0.8 else rng.choice(TM_ODD)
    o = {
        "tu": tu, "td": td,
        "oo": rng.random() < 0.25, "ns": rng.random() < 0.4,
        "pm": rng.choice([-1, -1, 0, 2]), "tm": tm,
        "pr": rng.random() < 0.3, "rd": rng.random() < 0.85, "rs": rng.random() < 0.5,
        "et": None, "bi": rng.random() < 0.3, "ri": rng.random() < 0.6,
    }
    ends = ends_of(rng, src, units)
    if rng.random() < 0.3 and ends:
        base = max(ends)
        d = rng.choice([0, 0.5, 1, 2, 3, 5, -0.25, -2])
        et = base + d
        if rng.random() < 0.5:
            et = int(math.ceil(et))
        else:
            et = float(et)
        w = rng.random()
        if w < 0.2:
            et = {"arr": [et]}
        elif w < 0.27:
            et = {"list": [et]}
        elif w < 0.32:
            et = {"arr": [et, et + 1]}
        elif w < 0.35:
            et = {"arr": []}
        o["et"] = et
    # keywords that are not passed at all (their defaults apply)
    w = rng.random()
    if w < 0.25:
        o["omit"] = sorted(rng.sample(PR_KEYS, rng.randint(1, 4)))
    elif w < 0.33:
        o["omit"] = sorted(rng.sample(PR_KEYS, rng.randint(8, 12)))
    if rng.random() < 0.3:
        pc = {"norm": rng.random() < 0.6, "bin": rng.random() < 0.4}
        w = rng.random()
        if w < 0.3:
            pc["omit"] = sorted(rng.sample(PC_KEYS, rng.randint(1, 4)))
        elif w < 0.4:
            pc["omit"] = sorted(rng.sample(PC_KEYS, rng.randint(7, 10)))
        o["pc"] = pc
    return o


def gen_roll(rng, tier):
    rows = rng.choice([128, 128, 88, 88, 88, 12, 100]) if rng.random() < 0.9 else rng.choice([0, 1, 129, 87, 89, 127])
    n = rng.choice([0, 1, 1, 2, 3, 5, 8, 12, 20])
    cells = {}
    signed = rng.random() < 0.3
    def val():
        v = rng.choice([1, 1, 64, 64, 100, rng.randint(1, 127)])
        if signed and rng.random() < 0.4:
            v = rng.choice([-1, -64, -v, 128, 300, -(2 ** 20)])
        return v
    if rows > 0:
        prow = [rng.randrange(rows) for _ in range(rng.randint(1, 4))]
        mode = rng.random()
        if mode < 0.2 and n:
            # noisy rows: every cell of a few rows drawn from a small alphabet (adjacent equal / different / zero values)
            alpha = [0, 0, 1, 1, 2] + ([-1, -2] if signed else [5])
            for p in prow[:3]:
                for j in range(n):
                    v = rng.choice(alpha)
                    if v:
                        cells[(p, j)] = v
        else:
            for _ in range(rng.randint(0, 8)):
                if n == 0:
                    break
                p = rng.choice(prow) if rng.random() < 0.7 else rng.randrange(rows)
                on = rng.randrange(n)
                ln = rng.randint(1, 5)
                v = val()
                for j in range(on, min(n, on + ln)):
                    cells[(p, j)] = v
            for _ in range(rng.randint(0, 3)):
                if n:
                    cells[(rng.randrange(rows), rng.randrange(n))] = val()
    td = rng.choice([1, 2, 8, 12, 16, 3]) if rng.random() < 0.8 else rng.choice([None, None, 0, 0.5, 2.5, -2, 0.1, 7, 1000, 0.0])
    unit = rng.choice(["sec", "beat", "quarter"]) if td is not None or rng.random() < 0.5 else None
    d = {"k": "dec", "rows": rows, "n": n, "cells": sorted([p, j, v] for (p, j), v in cells.items()),
         "td": td, "unit": unit, "sparse": rng.random() < 0.3}
    # the container of the roll / of time_div (round 3): the decoder reads values, whatever holds them
    if rng.random() < 0.4:
        vals = [v for v in cells.values()]
        fits = [t for t, lo, hi in (("i1", -128, 127), ("u1", 0, 255), ("i2", -2 ** 15, 2 ** 15 - 1), ("i4", -2 ** 31, 2 ** 31 - 1))
                if all(lo <= v <= hi for v in vals)]
        d["form"] = rng.choice(["F", "ro", "strided", "csr", "csr"] + fits[:2])
        d["sparse"] = False
    if td and rng.random() < 0.3:
        d["td"] = {"a0": td} if rng.random() < 0.5 else {"np": td, "dt": "i8" if isinstance(td, int) else "f8"}
    return d


QVALS = [0.5, 0.7, -0.5, 0.25, 1.2, 1.9, 2.0, 1.0, 1.0, 64.0, 64.9, 64.5, -1.5, -1.2, -2.0, 100.99, 127.0, 1e-300, 0.999999]
QBIG = [3e9, -3e9, 2147483647.5, 2147483648.0, -2147483648.5, -2147483649.0, 1e18]


def gen_rollq(rng, tier):
    """a roll with REAL-valued cells (float64 / float32 / bool, dense / Fortran / csc / csr, explicit zeros in the sparse
    forms): values between integers (integer part 0, 1, 64, negative), adjacent cells with equal and with different
    integer parts, rarely values beyond the int32 column"""
    rows = rng.choice([128, 88, 88, 128, 128, 12]) if rng.random() < 0.93 else rng.choice([0, 87, 129])
    n = rng.choice([1, 2, 3, 5, 8, 12])
    dt = rng.choice(["f8", "f8", "f8", "f4", "b1"])
    cells = {}
    if rows:
        prow = [rng.randrange(rows) for _ in range(rng.randint(1, 3))]
        for p in prow:
            alpha = [0, 0] + [rng.choice(QVALS) for _ in range(rng.randint(1, 4))]
            for j in range(n):
                v = rng.choice(alpha)
                if v:
                    cells[(p, j)] = v
        for _ in range(rng.randint(0, 3)):
            cells[(rng.randrange(rows), rng.randrange(n))] = rng.choice(QVALS)
        if rng.random() < 0.06:
            cells[(rng.randrange(rows), rng.randrange(n))] = rng.choice(QBIG)
    td = rng.choice([1, 2, 8, 12, 16, 3]) if rng.random() < 0.8 else rng.choice([None, None, 0, 0.5, 2.5, -2, 0.1, 7])
    form = rng.choice(["dense", "dense", "F", "csc", "csr", "ro"])
    xz = []
    if form in ("csc", "csr") and rows and rng.random() < 0.5:
        xz = [[rng.randrange(rows), rng.randrange(n)] for _ in range(rng.randint(1, 3))]
    return {"k": "decq", "rows": rows, "n": n, "dt": dt, "cells": sorted([p, j, v] for (p, j), v in cells.items()),
            "td": td, "unit": rng.choice(["sec", "beat", "quarter"]), "form": form, "xz": xz}


FLAG_KEYS = ["oo", "ns", "pr", "rd", "rs", "bi", "ri"]
FLAG_KINDS = [["int", 0], ["int", 1], ["int", 2], ["npbool", True], ["npbool", False], ["str", ""], ["str", "x"], ["none"],
              ["list", []], ["list", [0]], ["float", 0.0], ["float", 1.5], ["npint", 0], ["npint", 3]]
TD_KINDS = [["bool", True], ["bool", False], ["str", "8"], ["str", " 4 "], ["str", "+2"], ["str", "-1"], ["str", "0"], ["str", "abc"],
            ["str", ""], ["str", "8.0"], ["str", "auto"], ["str", " auto"], ["str", "Auto"], ["str", "12"], ["str", "\t3\n"],
            ["str", "+ 2"], ["str", "--2"], ["none"], ["list", [4]], ["tuple", [4]], ["float", 2.7], ["npint", 3]]
TM_KINDS = [["bool", True], ["bool", False], ["none"], ["str", "1"], ["list", [1]], ["npint", 1]]
PM_KINDS = [["bool", True], ["bool", False], ["float", 2.0], ["float", 0.0], ["float", -1.0], ["npint", 2], ["none"], ["str", "1"],
            ["list", [1]]]
TU_KINDS = [["none"], ["int", 3], ["list", []]]


def gen_kinds(rng, tier):
    """ARGUMENTS OF ANOTHER KIND than documented: flags given as ints / numpy bools / strings / None / lists (truthiness),
    booleans, strings, None, lists for time_div / time_margin / pitch_margin / end_time / time_unit"""
    while True:
        arr = gen_array(rng, "quick")
        if arr["units"] and 1 <= len(arr["rows"]) <= 6:
            break
    opts = []
    for _ in range(8):
        o = gen_opts(rng, arr)
        o.pop("omit", None)
        o.pop("pc", None)
        if isinstance(o["td"], dict):
            o["td"] = rng.choice([1, 2, 8])
        if isinstance(o["et"], dict):
            o["et"] = None
        if o["tu"] not in arr["units"] + ["auto"]:
            o["tu"] = "auto"
        kd = {}
        for k in rng.sample(FLAG_KEYS, rng.randint(0, 3)):
            kd[k] = rng.choice(FLAG_KINDS)
        m = rng.random()
        if m < 0.45:
            kd["td"] = rng.choice(TD_KINDS)
        elif m < 0.6:
            kd["tm"] = rng.choice(TM_KINDS)
        elif m < 0.75:
            kd["pm"] = rng.choice(PM_KINDS)
        elif m < 0.9:
            ends = ends_of(rng, arr, arr["units"])
            last = int(math.ceil(max(ends))) if ends else 4
            kd["et"] = rng.choice([["bool", True], ["str", str(last + rng.choice([0, 1, 3, 40]))], ["str", " %d " % (last + 2)],
                                   ["str", "abc"], ["str", ""], ["str", "+%d" % (last + 5)], ["none"], ["str", "-3"]])
        elif m < 0.95:
            kd["tu"] = rng.choice(TU_KINDS)
        if not kd:
            kd[rng.choice(FLAG_KEYS)] = rng.choice(FLAG_KINDS)
        o["kd"] = kd
        opts.append(o)
    arr.update(k="kinds", opts=opts)
    return arr


PM_FRAC = [0.5, 1.5, -0.5, -0.25, 2.25, 0.1, 0.9, -0.9, -1.5, -2.5, 0.9999999999999999, 1.9999999999999998, 3.75, 0.25, -0.75, 1e-9,
           2.0000000000000004]


def gen_pmq(rng, tier):
    """ROUND 6: pitch_margin given as a float with a fractional part (documented: int; never validated): rows
    int(pitch - lowest + pm), int(span + 2 pm) of them, index positions int(row - 21) with piano_range; <= -1: no margin.
    Compared with Model/PianoRollMargin.lean by `prv` requests (no verdict of the oracle: the property speaks of a margin
    in rows)."""
    while True:
        arr = gen_array(rng, "quick")
        if arr["units"] and 1 <= len(arr["rows"]) <= 6:
            break
    # pitch sets in which neighbours exist (merging under a negative margin) or a single pitch (zero rows)
    w = rng.random()
    if w < 0.4:
        base = rng.randint(20, 100)
        for r in arr["rows"]:
            r["p"] = base + rng.choice([0, 1, 1, 2, 3, 7])
    elif w < 0.5:
        for r in arr["rows"]:
            r["p"] = arr["rows"][0]["p"]
    opts = []
    for _ in range(8):
        o = gen_opts(rng, arr)
        o.pop("omit", None)
        o.pop("pc", None)
        if isinstance(o["td"], dict):
            o["td"] = rng.choice([1, 2, 8])
        if isinstance(o["et"], dict):
            o["et"] = None
        if o["tu"] not in arr["units"] + ["auto"]:
            o["tu"] = "auto"
        o["ri"] = rng.random() < 0.8
        o["kd"] = {"pm": ["float", rng.choice(PM_FRAC)]}
        if rng.random() < 0.2:
            o["kd"][rng.choice(FLAG_KEYS)] = rng.choice(FLAG_KINDS)
        opts.append(o)
    arr.update(k="kinds", opts=opts, fam="pmq")
    return arr


def gen_roundtrip(rng, tier):
    """grid-aligned notes; same-pitch notes neither overlap nor touch"""
    td = rng.choice([1, 2, 8, 16, 12])
    notes = []
    busy = {}
    for _ in range(rng.randint(1, 8)):
        p = rng.choice([rng.randint(21, 108), 60, 61, rng.randint(0, 127)])
        on = rng.randint(0, 20)
        ln = rng.randint(1, 6)
        if any(not (on + ln < a or b < on) for a, b in busy.get(p, [])):
            continue
        busy.setdefault(p, []).append((on, on + ln))
        notes.append([p, on, ln, rng.randint(1, 127)])
    rng.shuffle(notes)
    d = {"k": "rt", "td": td, "notes": notes, "piano": rng.random() < 0.4, "unit": rng.choice(["sec", "beat"])}
    # round 5: the options that move the notes by one common shift (their own random stream: the older cases stay)
    r2 = random.Random(rng.getrandbits(32))
    if r2.random() < 0.6 and notes:
        d["rs"] = r2.random() < 0.6
        d["tm"] = r2.choice([0, 0, 1, 2, 0.5, 1.5, 0.25])
        if r2.random() < 0.4:
            last = max(on + ln for (_, on, ln, _) in notes)
            # on a resolution that is no power of two the float32 times are off the grid by ~1e-8: an end time exactly
            # at the last offset could fall short of it by rounding (the property does not say which way)
            d["et_frames"] = last + int(d["tm"] * td) + r2.choice([0, 1, 3, 0.5] if td != 12 else [0.5, 1, 3])
    return d


ET_FORMS = ["arr", "arr", "arr", "arr_ro", "a0", "a0", "a0_ro", "np", "np_f4", "np_i8", "arr_f4", "arr_i8", "a0_i8", "a0_f4",
            "list", "tuple", "arr2d", "py"]


def et_in_form(value, form):
    """the description of an `end_time` argument of container kind `form` holding (about) `value`"""
    if form == "py":
        return value
    base, _, mod = form.partition("_")
    dt = mod if mod in ("f4", "i8") else "f8"
    value = f32(value) if dt == "f4" else int(math.ceil(value)) if dt == "i8" else float(value)
    if base == "list":
        return {"list": [value]}
    if base == "tuple":
        return {"tuple": [value]}
    if base == "np":
        return {"np": value, "dt": dt}
    if base == "a0":
        d = {"a0": value, "dt": dt}
    elif base == "arr2d":
        d = {"arr": [value], "dt": dt, "nd": 2}
    else:
        d = {"arr": [value], "dt": dt}
    if mod == "ro":
        d["ro"] = True
    return d


def gen_hist(rng, tier):
    """a SESSION: one `note_info` object (note array in some container form, or a score / performance object) and one
    object each for time_div / time_margin / end_time (numpy scalars, 0-d and one-element arrays of several dtypes,
    lists, tuples, read-only arrays), passed to a sequence of compute_pianoroll / compute_pitch_class_pianoroll calls
    in which option sets repeat"""
    if rng.random() < 0.7:
        while True:
            src = gen_array(rng, "quick")
            if src["units"] and 1 <= len(src["rows"]) <= 8:
                break
        src["form"] = rng.choice(ARRAY_FORMS)
    else:
        while True:
            src = gen_object(rng, "quick")
            if src["src"] in SCORE_KINDS + PERF_KINDS:
                break
        if src.get("parts") and rng.random() < 0.7:
            for p in src["parts"]:
                p["warm"] = rng.randrange(1, 128)
    units = src.get("units") or (SCORE_UNITS if src["src"] in SCORE_KINDS else PERF_UNITS)
    base = gen_opts(rng, src)
    if base["tu"] not in units + ["auto"]:
        base["tu"] = "auto"
    if "omit" in base:
        base["omit"] = [k for k in base["omit"] if k not in ("et", "td", "tm")][:3]
    w = rng.random()
    if w < 0.3:
        base["td"] = {"a0": rng.choice([1, 2, 4, 8, 2.5, 8.0])}
    elif w < 0.55:
        base["td"] = {"np": rng.choice([1, 2, 4, 8, 16]), "dt": rng.choice(["i8", "i4", "f8", "f4"])}
    elif isinstance(base["td"], dict) or (not isinstance(base["td"], str) and base["td"] <= 0):
        base["td"] = rng.choice([1, 2, 8])
    w = rng.random()
    if w < 0.25:
        base["tm"] = {"a0": rng.choice([0, 1, 2, 0.5, 1.5])}
    elif w < 0.45:
        v = rng.choice([0, 1, 2, 0.5, 0.25])
        base["tm"] = {"np": v, "dt": "i8" if isinstance(v, int) and rng.random() < 0.5 else "f8"}
    elif tm_val(base["tm"]) < 0:
        base["tm"] = 0
    ends = ends_of(rng, src, units)
    base["et"] = None
    if ends and rng.random() < 0.85:
        value = max(ends) + (rng.choice([0, 0.5, 1, 2, 3, 5, 5, 8]) if rng.random() < 0.93 else -0.25)
        base["et"] = et_in_form(value, rng.choice(ET_FORMS))
    variants = [base]
    for _ in range(rng.randint(1, 3)):
        v = dict(base)
        for k in rng.sample(["oo", "ns", "pr", "rs", "bi", "ri", "rd", "rs"], rng.randint(1, 3)):
            v[k] = not v[k]
        if rng.random() < 0.3:
            v["pm"] = rng.choice([-1, 0, 2])
        if rng.random() < 0.15 and len(units) > 1:
            v["tu"] = rng.choice(units)
        variants.append(v)
    for v in variants:
        v["pc"] = {"norm": rng.random() < 0.6, "bin": rng.random() < 0.4}
    sched = [[0, "pr"]] + [[rng.randrange(len(variants)), "pc" if rng.random() < 0.25 else "pr"] for _ in range(rng.randint(1, 4))]
    sched.append(list(rng.choice(sched)))
    src.update(k="hist", variants=variants, sched=sched)
    return src


def cases(rng, tier):
    n_arr, n_opt, n_obj, n_oopt, n_dec, n_rt = {
        "quick": (260, 12, 70, 8, 300, 100), "thorough": (2600, 36, 700, 16, 4500, 1500)}.get(tier, (3500, 24, 800, 12, 3500, 1500))
    n_hist = {"quick": 160, "thorough": 1600}.get(tier, 1600)
    hist_rng = random.Random(rng.getrandbits(64))
    for i in range(n_hist):
        yield gen_hist(hist_rng, tier)
    # round 5 families draw from their own streams (the older families keep their cases for a given seed)
    k_seed = rng.getrandbits(64)
    k_rng = random.Random(k_seed)
    for i in range({"quick": 60, "thorough": 600}.get(tier, 600)):
        yield gen_kinds(k_rng, tier)
    # round 6: a stream of its own, seeded without drawing from `rng` (every older family keeps its cases for a given seed)
    pm_rng = random.Random(k_seed ^ 0xC13C13)
    for i in range({"quick": 40, "thorough": 500}.get(tier, 500)):
        yield gen_pmq(pm_rng, tier)
    q_rng = random.Random(rng.getrandbits(64))
    for i in range({"quick": 200, "thorough": 3000}.get(tier, 3000)):
        yield gen_rollq(q_rng, tier)
    f64_rng = random.Random(rng.getrandbits(64))
    for i in range({"quick": 120, "thorough": 1500}.get(tier, 1500)):
        yield gen_f64_array(f64_rng, tier)
    for _ in range(n_arr):
        arr = gen_array(rng, tier)
        arr["k"] = "pr"
        arr["opts"] = [gen_opts(rng, arr) for _ in range(n_opt)]
        yield arr
    for _ in range(n_obj):
        obj = gen_object(rng, tier)
        obj["k"] = "pr"
        obj["opts"] = [gen_opts(rng, obj) for _ in range(n_oopt if obj["src"] not in BAD_KINDS else 2)]
        yield obj
    for _ in range(n_dec):
        yield gen_roll(rng, tier)
    for _ in range(n_rt):
        yield gen_roundtrip(rng, tier)


# --------------------------------------------------------------------------- building inputs / requests
ARRAY_FORMS = ["plain", "ro", "strided", "fields", "rec", "wide", "aligned"]


def build_array(d):
    """the structured note array; `d["form"]`: plain | ro (read-only) | strided (every second row of a larger array) |
    fields (a multi-field view of an array with more columns) | rec (np.recarray) | wide (i8 / f8 columns) |
    aligned (C-struct padding)"""
    form = d.get("form") or "plain"
    wide = form == "wide"
    ity, fty = ("i8", "f8") if wide else ("i4", "f4")
    dt = [("pitch", ity)]
    for u in d["units"]:
        ty = ity if u in INT_UNITS else fty
        dt += [("onset_" + u, ty), ("duration_" + u, ty)]
    if d["has_vel"]:
        dt.append(("velocity", ity))
    if d["has_chan"]:
        dt.append(("channel", ity))
    dt.append(("id", "U8"))
    recs = []
    for i, r in enumerate(d["rows"]):
        rec = [r["p"]]
        for on, du in r["t"]:
            rec += [on, du]
        if d["has_vel"]:
            rec.append(r["v"])
        if d["has_chan"]:
            rec.append(r["c"])
        rec.append("n%d" % i)
        recs.append(tuple(rec))
    if form == "aligned":
        return np.array(recs, dtype=np.dtype(dt, align=True))
    arr = np.array(recs, dtype=dt)
    if form == "ro":
        arr.flags.writeable = False
    elif form == "strided" and len(arr):
        big = np.zeros(2 * len(arr) + 1, dtype=dt)
        big["pitch"] = 60
        for name, ty in dt[1:-1]:
            big[name] = 7
        big[1::2] = arr
        arr = big[1::2]
    elif form == "fields" and len(arr):
        dt2 = []
        for i, (name, ty) in enumerate(dt):
            dt2 += [("junk%d" % i, "f8" if i % 2 else "i2"), (name, ty)]
        big = np.zeros(len(arr), dtype=dt2)
        for name, ty in dt:
            big[name] = arr[name]
        for i in range(len(dt)):
            big["junk%d" % i] = 3
        arr = big[[name for name, _ in dt]]
    elif form == "rec":
        arr = arr.view(np.recarray)
    return arr


def build_input(d):
    """the `note_info` argument"""
    import partitura.performance as P
    import partitura.score as S

    src = d.get("src", "array")
    if src == "array":
        return build_array(d)
    if src in SCORE_KINDS:
        parts = [GS.build_part(p) for p in d["parts"]]
        if src == "part":
            return parts[0]
        if src == "partlist":
            return parts
        if src == "score":
            return S.Score(parts, id="s")
        g = S.PartGroup(group_name="g")
        g.children = parts
        return g
    if src in PERF_KINDS or src == "performedpartlist":
        notes = []
        for i, n in enumerate(d["pnotes"]):
            x = dict(id="n%d" % i, midi_pitch=n["p"], note_on=n["on"], note_off=n["off"], velocity=n["v"], track=n["tr"])
            if "c" in n:
                x["channel"] = n["c"]
            notes.append(x)
        pp = P.PerformedPart(notes, id="PP0", ppq=d.get("ppq", 4))
        if src == "performedpart":
            return pp
        if src == "performance":
            return P.Performance(performedparts=[pp], id="perf")
        return [pp]
    if src == "emptylist":
        return []
    if src == "plainarray":
        return np.zeros((3, 4))
    if src == "other":
        return "notes"
    return None


def layout_of(d):
    """(units, has_vel, has_chan) of the note array the input stands for; None = must be rejected"""
    src = d.get("src", "array")
    if src == "array":
        return list(d["units"]), d["has_vel"], d["has_chan"]
    if src in SCORE_KINDS:
        return list(SCORE_UNITS), False, False
    if src in PERF_KINDS:
        return list(PERF_UNITS), True, True
    return None


def np_scalar(v, dt):
    return np.dtype(dt).type(v)


def boxed(d, key):
    """the ndarray a description {key: values, "dt": dtype, "ro": read-only, "nd": 2} stands for"""
    a = np.array(d[key], dtype=d.get("dt", "f8" if key == "arr" else None))
    if d.get("nd") == 2:
        a = a.reshape(1, -1)
    if d.get("ro"):
        a.flags.writeable = False
    return a


def td_py(td):
    if isinstance(td, dict):
        if "np" in td:
            return np_scalar(td["np"], td.get("dt", "i8"))
        return boxed(td, "arr") if "arr" in td else boxed(td, "a0")
    return td


def td_tok(td):
    if td == "auto":
        return "auto"
    if isinstance(td, dict):
        return "arr" if "arr" in td else "n " + W.q(td["a0"] if "a0" in td else td["np"])
    return "n " + W.q(td)


def tm_val(tm):
    """the number a `time_margin` argument stands for (python number / numpy scalar / 0-d array)"""
    if isinstance(tm, dict):
        return tm["a0"] if "a0" in tm else tm["np"]
    return tm


def tm_py(tm):
    if isinstance(tm, dict):
        return boxed(tm, "a0") if "a0" in tm else np_scalar(tm["np"], tm.get("dt", "f8"))
    return tm


def et_py(et):
    """python number | {"arr": xs, dt, ro, nd} ndarray | {"a0": x, dt, ro} 0-d array | {"np": x, dt} numpy scalar |
    {"list": xs} | {"tuple": xs}"""
    if isinstance(et, dict):
        if "arr" in et:
            return boxed(et, "arr")
        if "a0" in et:
            return boxed(dict(et, dt=et.get("dt", "f8")), "a0")
        if "np" in et:
            return np_scalar(et["np"], et.get("dt", "f8"))
        if "tuple" in et:
            return tuple(et["tuple"])
        return list(et["list"])
    return et


def et_shifted(et, by):
    """the same kind of `end_time` container holding a value `by` larger"""
    if isinstance(et, dict):
        q = dict(et)
        for k in ("arr", "list", "tuple"):
            if k in q:
                q[k] = [x + by for x in q[k]]
        for k in ("a0", "np"):
            if k in q:
                q[k] = q[k] + by
        return q
    return et + by


def et_elems(et):
    """the elements of an `end_time` sequence; None for a scalar kind"""
    if isinstance(et, dict):
        for k in ("arr", "list", "tuple"):
            if k in et:
                return list(et[k])
    return None


def et_tok(et):
    if et is None:
        return "-"
    xs = et_elems(et)
    if xs is not None:
        return "a " + W.lst(W.q, xs)
    return "s " + W.q(et_scalar(et))


def et_scalar(et):
    """the number an `end_time` argument stands for; 'skip' for a sequence that does not have exactly one element"""
    xs = et_elems(et)
    if xs is not None:
        return xs[0] if len(xs) == 1 else "skip"
    if isinstance(et, dict):
        return et["a0"] if "a0" in et else et["np"]
    return et


def _tok(k, v):
    if k == "tu":
        return W.s(v)
    if k == "td":
        return td_tok(v)
    if k == "pm":
        return W.i(v)
    if k == "tm":
        return W.q(tm_val(v))
    if k == "et":
        return et_tok(v)
    return W.b(v)


def req_args(o):
    omit = o.get("omit", ())
    return " ".join("-" if k in omit else _tok(k, o[k]) for k in PR_KEYS)


def pc_values(o):
    """the pitch-class call's own keyword values (shared ones are those of the option set)"""
    pc = o["pc"]
    return {"norm": pc["norm"], "tu": o["tu"], "td": o["td"], "oo": o["oo"], "ns": o["ns"], "tm": o["tm"], "ri": o["ri"],
            "rs": o["rs"], "et": o["et"], "bin": pc["bin"]}


def req_pc_args(o):
    vals = pc_values(o)
    omit = o["pc"].get("omit", ())
    return " ".join("-" if k in omit else _tok({"norm": "b", "bin": "b"}.get(k, k), vals[k]) for k in PC_KEYS)


def effective(o):
    """the option values after defaults"""
    omit = o.get("omit", ())
    return {k: (PR_DEFAULTS[k] if k in omit else o[k]) for k in PR_KEYS}


def pc_effective(o):
    vals = pc_values(o)
    omit = o["pc"].get("omit", ())
    return {k: (PC_DEFAULTS[k] if k in omit else vals[k]) for k in PC_KEYS}


ARG_PY = {"td": td_py, "et": et_py, "tm": tm_py}


def arg_obj(k, v, pool):
    """the Python object for keyword `k` with description `v`; with a `pool` (one per session) equal descriptions
    are ONE object, built once and passed to every call that names it"""
    f = ARG_PY.get(k)
    if f is None:
        return v
    if pool is None:
        return f(v)
    key = k + ":" + json.dumps(v, sort_keys=True)
    if key not in pool:
        obj = f(v)
        pool[key] = (obj, freeze(obj), k, v)
    return pool[key][0]


def kwargs_of(o, pool=None):
    omit = o.get("omit", ())
    kw = {}
    for k in PR_KEYS:
        if k in omit:
            continue
        kw[PR_KWNAME[k]] = arg_obj(k, o[k], pool)
    return kw


def pc_kwargs_of(o, pool=None):
    vals = pc_values(o)
    omit = o["pc"].get("omit", ())
    kw = {}
    for k in PC_KEYS:
        if k in omit:
            continue
        kw[PC_KWNAME[k]] = arg_obj(k, vals[k], pool)
    return kw


def plain_opts(o):
    """the same option set with `time_div`, `time_margin`, `end_time` given as plain Python numbers
    (None when that is not possible: a sequence without exactly one element, an array time_div)"""
    q = dict(o)
    if isinstance(o["td"], dict):
        if "arr" in o["td"]:
            return None
        q["td"] = o["td"]["a0"] if "a0" in o["td"] else o["td"]["np"]
    q["tm"] = tm_val(o["tm"])
    if o["et"] is not None:
        x = et_scalar(o["et"])
        if x == "skip":
            return None
        q["et"] = x
    return q


# --------------------------------------------------------------------------- arguments are values: frame / aliasing
def _sparse(x):
    return hasattr(x, "indptr") and hasattr(x, "indices") and hasattr(x, "data")


def arrays_of(x):
    """every ndarray an argument / result consists of (with the arrays it is a view of)"""
    out = []
    if _sparse(x):
        for a in (x.data, x.indices, x.indptr):
            out += arrays_of(a)
    elif isinstance(x, np.ndarray):
        out.append(x)
        b = x.base
        while isinstance(b, np.ndarray):
            out.append(b)
            b = b.base
    elif isinstance(x, (list, tuple)):
        for y in x:
            out += arrays_of(y)
    return out


def freeze(x):
    """a deep, comparable copy of an argument's value (container kind, dtype, shape, every byte incl. the array
    it is a view of)"""
    if _sparse(x):
        return ("sparse", type(x).__name__, tuple(x.shape)) + tuple(freeze(a) for a in (x.data, x.indices, x.indptr))
    if isinstance(x, np.ndarray):
        return ("nd", type(x).__name__, str(x.dtype), tuple(x.shape)) + tuple(a.tobytes() for a in arrays_of(x))
    if isinstance(x, np.generic):
        return ("np", str(x.dtype), x.tobytes())
    if isinstance(x, (list, tuple)):
        return (type(x).__name__,) + tuple(freeze(y) for y in x)
    return ("py", type(x).__name__, repr(x))


def show(x):
    if isinstance(x, np.ndarray):
        return "%s(%s, dtype=%s)" % (type(x).__name__, x.tolist(), x.dtype)
    return repr(x)


def aliased(res, args):
    """does a result share memory with an argument array?"""
    ins = [a for x in args for a in arrays_of(x)]
    for r in arrays_of(res if not isinstance(res, tuple) else list(res)):
        for a in ins:
            try:
                if np.may_share_memory(r, a) and np.shares_memory(r, a):
                    return True
            except Exception:
                pass
    return False


def check_frame(pool, where):
    """oracle failures: an argument object no longer holds the value it was built with"""
    fails = []
    for key in sorted(pool):
        obj, before, k, v = pool[key]
        if freeze(obj) != before:
            fails.append("frame: %s changed the caller's %s argument (built from %s, now %s)" % (
                where, PR_KWNAME.get(k, k), json.dumps(v), show(obj)))
            pool[key] = (obj, freeze(obj), k, v)   # report each change once
    return fails


def req_array(lay, arr):
    """the note array as the model sees it: layout + rows (`arr` = the structured array, None = no rows)"""
    if lay is None:
        return "0 0 0 0"
    units, hv, hc = lay
    n = 0 if arr is None else len(arr)
    toks = [W.lst(W.s, units), W.b(hv), W.b(hc), str(n)]
    for rec in (arr if arr is not None else []):
        toks.append(W.i(rec["pitch"]))
        for u in units:
            toks.append(W.q(W.as_fraction(rec["onset_" + u])))
            toks.append(W.q(W.as_fraction(rec["duration_" + u])))
        toks.append(W.i(rec["velocity"]) if hv else "-")
        toks.append(W.i(rec["channel"]) if hc else "-")
    return " ".join(toks)


def fmt_roll(mat, idx):
    a = mat.toarray() if hasattr(mat, "toarray") else np.asarray(mat)
    ps, js = a.nonzero()
    cells = "[" + ",".join("(%d,%d,%d)" % (p, j, a[p, j]) for p, j in zip(ps.tolist(), js.tolist())) + "]"
    s = "(%d,%d)|%s" % (a.shape[0], a.shape[1], cells)
    if idx is not None:
        s += "|[" + ",".join("(%d,%d,%d,%d)" % tuple(int(x) for x in row) for row in idx) + "]"
    return s


# --------------------------------------------------------------------------- oracle: independent rasteriser
def rhe(x):
    """round half to even of a Fraction (Python's round on Fraction is exactly that)"""
    return int(round(x))


def select_unit(lay, e):
    """(unit, time_div) the documentation promises, None when the call must be rejected, 'skip' = no verdict"""
    tu = e["tu"]
    if tu not in TIME_UNITS + ["auto"]:
        return None
    if tu == "auto":
        pres = set(lay[0])
        unit = None
        for group in (SCORE_UNITS, PERF_UNITS):
            hit = [u for u in group if u in pres]
            if hit:
                unit = hit[0]
                break
        if unit is None:
            return None
    else:
        unit = tu
        if unit not in lay[0]:
            return None
    td = e["td"]
    if td == "auto":
        td = 1 if unit in INT_UNITS else 8
    elif isinstance(td, dict):
        if "arr" in td:
            return "skip"
        td = int(td["a0"] if "a0" in td else td["np"])
    else:
        td = int(td)  # truncation toward zero
    return unit, td


def notes_of(lay, arr, e, unit):
    """[(pitch, onset, duration, velocity)] over Fractions, in input order, drums removed"""
    out = []
    for rec in arr:
        if lay[2] and e["rd"] and int(rec["channel"]) == 9:
            continue
        out.append((int(rec["pitch"]), W.as_fraction(rec["onset_" + unit]), W.as_fraction(rec["duration_" + unit]),
                    int(rec["velocity"]) if lay[1] else 1))
    return out


def floats_exact(notes, e, td, t0, et, last):
    """the binary64 results the code rounds are exactly the rationals the oracle/model round"""
    t0f = float(t0)
    for (_, on, du, _) in notes:
        if Fraction(float(td) * (float(on) - t0f)) != td * (on - t0):
            return False
        if Fraction(float(td) * float(du)) != td * du:
            return False
    tm = Fraction(tm_val(e["tm"]))
    tmf = float(tm_val(e["tm"]))
    if Fraction(tmf * td) != tm * td:
        return False
    if et is None:
        if Fraction(td * tmf + float(last)) != td * tm + last:
            return False
    else:
        x = Fraction(et)
        ef = float(et) - t0f
        if Fraction(ef) != x - t0 or Fraction(ef * td) != (x - t0) * td:
            return False
        if Fraction(td * tmf + td * ef) != td * tm + td * (x - t0):
            return False
    return True


def rasterise(notes, e, td, et):
    """the property statement, directly: returns ('err', why) or (rows, cols, {(p,j): v}, idx_rows, t0, last)"""
    if not notes:
        return ("err", "empty")
    if any(du < 0 for (_, _, du, _) in notes):
        return ("err", "negative duration")
    first = min(on for (_, on, _, _) in notes)
    t0 = first if e["rs"] else min(Fraction(0), first)
    tm = Fraction(tm_val(e["tm"]))
    margin = int(tm * td)  # toward zero
    pm = e["pm"]
    if pm > -1:
        low = min(p for (p, _, _, _) in notes)
        high = max(p for (p, _, _, _) in notes)
        full_rows = high - low + 1 + 2 * pm
        shift = pm - low
    else:
        full_rows = 128
        shift = 0
    spans = []
    last = None
    for (p, on, du, v) in notes:
        a = rhe(td * (on - t0)) + margin
        ln = max(1, rhe(td * du))
        end = a + ln
        last = end if last is None else max(last, end)
        shown = 1 if e["oo"] else max(1, ln - (1 if e["ns"] else 0))
        spans.append((p + shift, a, a + shown, end, v, p))
    if et is None:
        cols = math.ceil(tm * td + last)
    else:
        x = Fraction(et) - t0
        if x * td < last:
            return ("err", "end_time before the last offset", t0, last)
        cols = math.ceil(tm * td + td * x)
    cells = {}
    for (row, a, b, _, v, _) in spans:
        if not (0 <= row < full_rows):
            return ("err", "pitch outside the roll")
        if a < 0 or b > cols:
            return ("err", "frames outside the roll", t0, last)
        for j in range(a, b):
            val = (1 if v != 0 else 0) if e["bi"] else v
            cells[(row, j)] = max(cells.get((row, j), 0), val)
    # round 6: a note of velocity 0 does not sound (it can neither light a cell nor hide a louder note: C13.cell_iff_sounding)
    cells = {k: v for k, v in cells.items() if v != 0}
    start = 0
    rows = full_rows
    if e["pr"]:
        start = 21
        rows = max(0, min(109, full_rows) - min(21, full_rows))
        cells = {(p - 21, j): v for (p, j), v in cells.items() if 21 <= p < 109}
    idx = []
    for (row, a, b, end, _, p) in spans:
        idx.append((row - start, a, end if e["oo"] else b, p))
    return (rows, cols, cells, idx, t0, last)


def check_roll(lay, arr, e, res, exc):
    """oracle failures of one compute_pianoroll call; `lay`/`arr` = layout and rows of the note array
    (None = the input must be rejected), `e` = the effective option values"""
    fails = []
    if lay is None:
        if exc is None:
            fails.append("error: an input that is no note array / score / performance was accepted")
        return fails, None
    if arr is None:
        fails.append("error: a score-like / performance-like input was rejected by ensure_notearray")
        return fails, None
    sel = select_unit(lay, e)
    if sel == "skip":
        return fails, "skip"
    if sel is None:
        if exc is None:
            fails.append("error: unknown/missing time unit %r accepted" % (e["tu"],))
        return fails, None
    unit, td = sel
    et = et_scalar(e["et"])
    if et == "skip":
        # a sequence that does not have exactly one element names no end time (fixes/C13-2: `.item()`)
        if exc is None:
            fails.append("error: an end_time sequence with %d elements was accepted" % len(et_elems(e["et"])))
        return fails, None
    notes = notes_of(lay, arr, e, unit)
    exp = rasterise(notes, e, td, et)
    if exp[0] == "err":
        if len(exp) > 2 and not floats_exact(notes, e, td, exp[2], et, exp[3]):
            return fails, "inexact"   # a rejection that hinges on the frames: no verdict when they are not exact
        if exc is None:
            fails.append("error: input must be rejected (%s) but a roll was returned" % exp[1])
        return fails, None
    rows, cols, cells, idx, t0, last = exp
    if not floats_exact(notes, e, td, t0, et, last):
        return fails, "inexact"
    if exc is not None:
        fails.append("error: valid input rejected with %r" % (exc,))
        return fails, None
    if e["ri"]:
        if not (isinstance(res, tuple) and len(res) == 2):
            fails.append("idx: return_idxs=True did not return (roll, index rows)")
            return fails, None
        mat, ridx = res
    else:
        if isinstance(res, tuple):
            fails.append("idx: index rows returned although return_idxs is False")
            return fails, None
        mat, ridx = res, None
    a = mat.toarray()
    if a.shape != (rows, cols):
        fails.append("shape: roll is %r, the notes and options require %r" % (a.shape, (rows, cols)))
        return fails, (rows, cols, cells)
    got = {(int(p), int(j)): int(a[p, j]) for p, j in zip(*a.nonzero())}
    if set(got) != set(cells):
        extra = sorted(set(got) - set(cells))[:3]
        miss = sorted(set(cells) - set(got))[:3]
        fails.append("cells: non-zero cells differ from the sounding frames (extra %r, missing %r)" % (extra, miss))
    else:
        bad = [(k, got[k], cells[k]) for k in sorted(cells) if got[k] != cells[k]]
        if bad:
            fails.append("velocity: cell %r holds %d, the (loudest) note there has %d (%d cells differ)" % (
                bad[0][0], bad[0][1], bad[0][2], len(bad)))
    if ridx is not None:
        r = [tuple(int(x) for x in row) for row in ridx]
        if r != idx:
            k = next((i for i in range(min(len(r), len(idx))) if r[i] != idx[i]), None)
            fails.append("idx: index rows are not the input notes' cells in input order (first differing row %r: %r vs %r)" % (
                k, r[k] if k is not None else len(r), idx[k] if k is not None else len(idx)))
        else:
            # they designate exactly the non-zero cells (rows cut away by the piano range excepted)
            des = set()
            for (row, on, off, _), nt in zip(r, notes):
                if 0 <= row < rows and nt[3] != 0:
                    for j in ([on] if e["oo"] else range(on, off)):
                        des.add((row, j))
            if des != set(got):
                fails.append("idx: index rows do not designate exactly the non-zero cells")
    return fails, (rows, cols, cells)


def pc_expected(full, binary, normalize):
    """octave fold of a full 128-row roll, exact"""
    n = full.shape[1]
    out = [[Fraction(0)] * 12 for _ in range(n)]
    for p, j in zip(*full.nonzero()):
        out[int(j)][int(p) % 12] += int(full[p, j])
    for j in range(n):
        if binary:
            out[j] = [Fraction(1) if x > 0 else x for x in out[j]]
        if normalize:
            s = sum(out[j])
            if s != 0:
                out[j] = [x / s for x in out[j]]
    return out


def run_decoder_oracle(a):
    """maximal runs of one non-zero value per row, sorted by (onset, pitch, offset, velocity)"""
    runs = []
    rows, n = a.shape
    for p in range(rows):
        j = 0
        while j < n:
            v = int(a[p, j])
            if v == 0:
                j += 1
                continue
            k = j
            while k < n and int(a[p, k]) == v:
                k += 1
            runs.append((j, p, k, v))
            j = k
    runs.sort()
    return runs


# --------------------------------------------------------------------------- evaluation
def call(f, *a, **kw):
    try:
        with warnings.catch_warnings():
            warnings.simplefilter("ignore")
            return f(*a, **kw), None
    except BaseException as e:
        if isinstance(e, (KeyboardInterrupt, SystemExit)):
            raise
        return None, e


def resolve_input(ev, M, d, inp):
    """(layout, rows, neutral) of the note array the `note_info` argument stands for"""
    src = d.get("src", "array")
    lay = layout_of(d)
    neutral = False
    if src == "performedpartlist":
        # documented as performance-like (PerformanceLike = Union[List[PerformedPart], ...]) but rejected by
        # ensure_notearray ("should be a list of Part objects"): no verdict on acceptance; when it is accepted
        # the roll must be that of the performance note array
        arr, _ = call(M.ensure_notearray, inp)
        if arr is not None:
            lay = (list(PERF_UNITS), True, True)
        else:
            neutral = True
    if src == "array":
        arr = inp
    elif neutral:
        arr = None
    elif lay is not None:
        arr, _ = call(M.ensure_notearray, inp)
        if arr is not None:
            # the layout the documentation promises for this kind of input
            names = set(arr.dtype.names or ())
            need = {"pitch"} | {"onset_" + u for u in lay[0]} | {"duration_" + u for u in lay[0]}
            need |= ({"velocity"} if lay[1] else set()) | ({"channel"} if lay[2] else set())
            have_units = [n[6:] for n in (arr.dtype.names or ()) if n.startswith("onset_")]
            if not need <= names or have_units != lay[0] or ("velocity" in names) != lay[1] or ("channel" in names) != lay[2]:
                ev.oracle.append("dispatch: the note array of a %s has columns %r" % (src, sorted(names)))
                arr = None
    else:
        arr = None
    return lay, arr, neutral


class Ctx:
    """one `note_info` argument and what the calls on it have shown so far"""

    def __init__(self, ev, M, d, inp):
        self.ev, self.M, self.inp = ev, M, inp
        self.src = d.get("src", "array")
        self.lay, self.arr, self.neutral = resolve_input(ev, M, d, inp)
        self.arr_req = req_array(self.lay, self.arr)
        self.pool = {}           # the argument objects shared by the calls of this case
        self.nontrivial = False
        self.skipped = 0
        self.large = 0
        self.n_exact = 0
        self.f64_compared = 0    # option sets whose binary64 products are inexact: compared with the binary64 model
        self.f64_differs = 0     # ... of which the exact-rational reading gives another roll (a frame boundary decided by rounding)
        self.pc_entries = 0      # round 6: normalised pitch-class entries compared exactly with the binary64 quotient ...
        self.pc_rounded = 0      # ... of which the quotient is not a binary64 number (the rounding shows)
        self.session = False     # sessions are answered by the exact model: inexact option sets are left out there


def differs_from_exact(c, e, res):
    """does the roll the implementation computed in binary64 differ from the exact-rational reading?"""
    sel = select_unit(c.lay, e)
    et = et_scalar(e["et"])
    exp = rasterise(notes_of(c.lay, c.arr, e, sel[0]), e, sel[1], et)
    if exp[0] == "err":
        return True
    rows, cols, cells, idx, _, _ = exp
    mat = res[0] if isinstance(res, tuple) else res
    a = mat.toarray()
    if a.shape != (rows, cols):
        return True
    return {(int(p), int(j)): int(a[p, j]) for p, j in zip(*a.nonzero())} != cells


def observe_pr(c, o, tag=""):
    """one compute_pianoroll call with the case's shared argument objects: oracle by value, correspondence request;
    returns (result, exception, go_on) - go_on False: no verdict / no request for this option set;
    go_on 'f64': compared with the binary64 model only (its products are not exact: the oracle, which reads the
    property over the exact values, gives no verdict)"""
    ev = c.ev
    e = effective(o)
    kw = kwargs_of(o, c.pool)
    res, exc = call(c.M.compute_pianoroll, c.inp, **kw)
    fails, info = ([], None) if c.neutral else check_roll(c.lay, c.arr, e, res, exc)
    if exc is None and aliased(res, [c.inp] + list(kw.values())):
        fails.append("alias: the returned roll / index rows share memory with an argument")
    inexact = info == "inexact"
    if inexact and c.session:
        c.skipped += 1
        return res, exc, False
    ev.oracle += ["%s%s [%s opts %s]" % (f, tag, c.src, {k: v for k, v in o.items() if k != "pc"}) for f in fails]
    if exc is None and not fails:
        m0 = res[0] if isinstance(res, tuple) else res
        if getattr(m0, "nnz", 0) > MAX_CELLS or (getattr(m0, "shape", (0, 0))[1] > MAX_COLS and "pc" in o):
            c.large += 1  # the model's cell-by-cell answer is quadratic in the number of cells
            return res, exc, False
    if exc is not None:
        want = "err"
    else:
        c.nontrivial = True
        try:
            want = fmt_roll(res[0], res[1]) if isinstance(res, tuple) else fmt_roll(res, None)
        except Exception as x:
            want = "unreadable result %r" % (x,)
    args = "%s %s %s" % (W.s(c.src), req_args(o), c.arr_req)
    # the code's own arithmetic (binary64 after every operation): every option set
    ev.requests.append("pr " + args)
    ev.impl.append(want)
    if inexact:
        c.f64_compared += 1
        try:
            if exc is not None or differs_from_exact(c, e, res):
                c.f64_differs += 1
        except Exception:
            pass
        return res, exc, "f64"
    # the exact-rational model of the theorems: wherever the products are exact (every second option set of a case:
    # the binary64 model, proved equal to it on such inputs by C13.float_exact, is compared on all of them)
    c.n_exact += 1
    if c.session or c.n_exact % 2 == 1:
        ev.requests.append("prq " + args)
        ev.impl.append(want)
    return res, exc, True


def observe_pc(c, o, tag="", exact=True):
    """one compute_pitch_class_pianoroll call (shared argument objects); returns (result, exception);
    `exact` False: the binary64 model only"""
    ev = Eval()
    r2, e2 = _observe_pc(c, ev, o, tag)
    c.ev.oracle += ev.oracle
    for rq, im in zip(ev.requests, ev.impl):
        # round 6: `pcf` = binary64 frames AND the binary64 division of the normalisation, compared EXACTLY (every float of the
        # result as the rational it is); `pcq` = the exact-rational model, compared with tolerance as before
        c.ev.requests.append(rq)
        c.ev.impl.append(im[1] if isinstance(im, tuple) and im[0] == "@both" else im)
        if exact:
            c.ev.requests.append("pcq" + rq[3:])
            c.ev.impl.append(im[2] if isinstance(im, tuple) and im[0] == "@both" else im)
    return r2, e2


def fmt_pc_exact(vals):
    """the text of Driver/C13.lean fmtPc for a pitch-class roll whose floats are taken as the rationals they are"""
    n, cols, idx = vals
    return "[%d,[%s],%s]" % (n, ",".join(W.f_list(lambda x: W.f_rat(W.as_fraction(x)), col) for col in cols),
                             W.f_list(lambda row: W.f_list(W.f_int, row), idx))


def _observe_pc(c, ev, o, tag):
    M, inp, src = c.M, c.inp, c.src
    pe = pc_effective(o)
    kw = pc_kwargs_of(o, c.pool)
    r2, e2 = call(M.compute_pitch_class_pianoroll, inp, **kw)
    ev.requests.append("pcf %s %s %s" % (W.s(src), req_pc_args(o), c.arr_req))
    if e2 is None and aliased(r2, [inp] + list(kw.values())):
        ev.oracle.append("alias: the pitch-class roll / index rows share memory with an argument%s [%s opts %s]" % (tag, src, o))
    # the full roll it must be the fold of (computed by the implementation itself from fresh argument objects, checked
    # for its own options by the clauses of check_roll whenever such an option set is drawn)
    ofull = {"tu": pe["tu"], "td": pe["td"], "oo": pe["oo"], "ns": pe["ns"], "pm": -1, "tm": pe["tm"], "ri": True,
             "pr": False, "rd": True, "rs": pe["rs"], "et": pe["et"], "bi": False}
    full, e3 = call(M.compute_pianoroll, inp, **kwargs_of(ofull))
    if e2 is not None:
        ev.impl.append("err")
        if e3 is None:
            ev.oracle.append("pc: pitch-class roll rejected (%r) an input whose full roll exists%s [%s opts %s]" % (e2, tag, src, o))
        return r2, e2
    c.nontrivial = True
    if pe["ri"] and not (isinstance(r2, tuple) and len(r2) == 2):
        ev.oracle.append("pc: return_idxs=True did not return (roll, index rows)%s [%s opts %s]" % (tag, src, o))
        ev.impl.append("unreadable")
        return r2, e2
    if not pe["ri"] and isinstance(r2, tuple):
        ev.oracle.append("pc: index rows returned although return_idxs is False%s [%s opts %s]" % (tag, src, o))
        ev.impl.append("unreadable")
        return r2, e2
    pcm, pidx = (r2 if pe["ri"] else (r2, None))
    if not np.isfinite(np.asarray(pcm, dtype=float)).all():
        # round 6: nan / inf entries (e.g. an empty frame divided by 0) - never the octave fold of an integer roll
        ev.oracle.append("pc: the pitch-class roll has nan / inf entries%s [%s opts %s]" % (tag, src, o))
        ev.impl.append("non-finite entries")
        return r2, e2
    vals = [int(pcm.shape[1]), [[float(x) for x in pcm[:, j]] for j in range(pcm.shape[1])],
            [[int(x) for x in row] for row in pidx] if pidx is not None else []]
    ev.impl.append(("@both", fmt_pc_exact(vals), ("@approx", vals, 1e-9)))
    if e3 is not None:
        ev.oracle.append("pc: pitch-class roll returned although the full roll is rejected (%r)%s [%s opts %s]" % (e3, tag, src, o))
        return r2, e2
    fa = full[0].toarray()
    exp = pc_expected(fa, pe["bin"], pe["norm"])
    if pcm.shape != (12, fa.shape[1]):
        ev.oracle.append("pc: shape %r for a full roll of %d frames%s [%s opts %s]" % (pcm.shape, fa.shape[1], tag, src, o))
        return r2, e2
    bad = [(c_, j) for j in range(fa.shape[1]) for c_ in range(12)
           if abs(Fraction(float(pcm[c_, j])) - exp[j][c_]) > Fraction(1, 10**9)]
    if pe["norm"]:
        c.pc_entries += 12 * fa.shape[1]
        c.pc_rounded += sum(1 for j in range(fa.shape[1]) for c_ in range(12) if Fraction(float(pcm[c_, j])) != exp[j][c_])
    if bad:
        c_, j = bad[0]
        ev.oracle.append("pc: cell %r is %r, the octave fold%s gives %s%s [%s opts %s]" % (
            (c_, j), float(pcm[c_, j]), " (normalised)" if pe["norm"] else "", exp[j][c_], tag, src, o))
    if pe["norm"]:
        for j in range(fa.shape[1]):
            sm = float(pcm[:, j].sum())
            if not (abs(sm - 1) < 1e-9 or not pcm[:, j].any()):
                ev.oracle.append("pc: normalised frame %d sums to %r%s [%s opts %s]" % (j, sm, tag, src, o))
                break
    if pidx is not None:
        want = [(int(r[0]) % 12, int(r[1]), int(r[2]), int(r[3])) for r in full[1]]
        if [tuple(int(x) for x in r) for r in pidx] != want:
            ev.oracle.append("pc: index rows are not the full roll's rows with the pitch taken mod 12%s [%s opts %s]" % (tag, src, o))
    return r2, e2


def finish(c, before, what="compute_pianoroll"):
    ev = c.ev
    ev.oracle += check_frame(c.pool, what)
    if freeze(c.inp) != before:
        ev.oracle.append("frame: %s modified its note_info argument" % what)
    ev.info = {"skipped_inexact": c.skipped, "skipped_large": c.large, "f64_compared": c.f64_compared,
               "f64_differs": c.f64_differs, "pc_entries": c.pc_entries, "pc_rounded": c.pc_rounded}
    ev.key = ("|".join(ev.requests)) if c.nontrivial else None
    return ev


def eval_pr(d):
    import partitura.utils.music as M

    ev = Eval()
    inp = build_input(d)
    c = Ctx(ev, M, d, inp)
    before = freeze(inp)
    for o in d["opts"]:
        _, _, go_on = observe_pr(c, o)
        if go_on and "pc" in o:
            observe_pc(c, o, exact=go_on is True)
    return finish(c, before)


def reborn(make, dead_id, tries=48):
    """a fresh object that lives where a dead one lived (CPython hands freed blocks out again) - or simply a fresh one"""
    keep = []
    for _ in range(tries):
        x = make()
        if id(x) == dead_id:
            return x
        keep.append(x)
    return make()


def canon_result(res, exc):
    """a hashable rendering of everything a call returned"""
    if exc is not None:
        return "err"
    if isinstance(res, tuple):
        return tuple(canon_result(r, None) for r in res)
    if _sparse(res) or hasattr(res, "toarray"):
        try:
            return fmt_roll(res, None)
        except Exception as x:
            return "unreadable %r" % (x,)
    if isinstance(res, np.ndarray):
        return (str(res.dtype), tuple(res.shape), res.tobytes())
    return repr(res)


def obj_text(x):
    """an argument object as the model's store prints it"""
    if isinstance(x, np.ndarray):
        if x.ndim == 0:
            return "a0:" + W.f_rat(W.as_fraction(x.item()))
        return "arr:" + W.f_list(lambda v: W.f_rat(W.as_fraction(v)), x.reshape(-1).tolist())
    if isinstance(x, (list, tuple)):
        return "seq:" + W.f_list(lambda v: W.f_rat(W.as_fraction(v)), x)
    return "num:" + W.f_rat(W.as_fraction(x))


def obj_tok(x):
    if isinstance(x, np.ndarray):
        if x.ndim == 0:
            return "a0 " + W.q(W.as_fraction(x.item()))
        return "arr " + W.lst(lambda v: W.q(W.as_fraction(v)), x.reshape(-1).tolist())
    if isinstance(x, (list, tuple)):
        return "seq " + W.lst(lambda v: W.q(W.as_fraction(v)), x)
    return "num " + W.q(W.as_fraction(x))


def sess_request(c, d, outs):
    """the whole session as ONE request: the store of argument objects (as they were built), the calls naming them by
    address; the model answers with every call's result and the store after the last call"""
    addr = {}
    objs = []
    for key in c.pool:
        obj, _, k, v = c.pool[key]
        if v is None or v == "auto":
            continue
        addr[key] = len(objs)
        objs.append(obj_tok(ARG_PY[k](v)))      # the value it was built with

    def ref(k, v):
        if v is None:
            return "-"
        if v == "auto":
            return "auto"
        return "@ %d" % addr[k + ":" + json.dumps(v, sort_keys=True)]

    calls = []
    for vi, fn in d["sched"]:
        o = d["variants"][vi]
        if fn == "pr":
            omit = o.get("omit", ())
            toks = ["-" if k in omit else (ref(k, o[k]) if k in ARG_PY else _tok(k, o[k])) for k in PR_KEYS]
        else:
            vals = pc_values(o)
            omit = o["pc"].get("omit", ())
            toks = ["-" if k in omit else (ref(k, vals[k]) if k in ARG_PY else _tok({"norm": "b", "bin": "b"}.get(k, k), vals[k]))
                    for k in PC_KEYS]
        calls.append(fn + " " + " ".join(toks))
    req = "sess %s %s %d %s %d %s" % (W.s(c.src), c.arr_req, len(objs), " ".join(objs), len(calls), " ".join(calls))
    store = W.f_list(obj_text, [c.pool[key][0] for key in c.pool if key in addr])
    return req, ";".join(outs) + "#" + store


def eval_hist(d):
    """a session of calls on shared argument objects: every call is judged by value (check_roll / the octave fold), the
    arguments must keep their values, a repeated call must repeat its result, and equal-valued fresh objects / plain
    Python numbers must give the same result"""
    import partitura.utils.music as M

    ev = Eval()
    inp = build_input(d)
    c = Ctx(ev, M, d, inp)
    c.session = True
    before = freeze(inp)
    first = {}
    outs = []
    whole = True
    for step, (vi, fn) in enumerate(d["sched"]):
        o = d["variants"][vi]
        tag = " {call %d of the session: variant %d, %s}" % (step, vi, fn)
        n_req = len(ev.requests)
        if fn == "pr":
            res, exc, _ = observe_pr(c, o, tag)
        else:
            res, exc = observe_pc(c, o, tag)
        if len(ev.requests) == n_req:
            whole = False
        elif fn == "pr":
            outs.append(ev.impl[-1] if isinstance(ev.impl[-1], str) else "?")
        else:
            r0 = res[0] if isinstance(res, tuple) else res
            outs.append("err" if exc is not None else "pc(%d)" % (r0.shape[1] if hasattr(r0, "shape") and len(r0.shape) == 2 else -1))
        ev.oracle += check_frame(c.pool, "call %d of the session (%s)" % (step, fn))
        now = freeze(inp)
        if now != before:
            ev.oracle.append("frame: call %d of the session (%s) modified its note_info argument" % (step, fn))
            before = now
        canon = canon_result(res, exc)
        if (vi, fn) in first:
            if first[(vi, fn)][1] != canon:
                ev.oracle.append("history: call %d repeats call %d (same function, same argument objects) and returns another "
                                 "result [%s variant %s]" % (step, first[(vi, fn)][0], c.src, {k: v for k, v in o.items() if k != "pc"}))
        else:
            first[(vi, fn)] = (step, canon)
    # the result depends on the VALUES only: fresh equal objects, and plain Python numbers instead of numpy containers
    for (vi, fn), (step, canon) in first.items():
        o = d["variants"][vi]
        dead = None
        if o["et"] is not None and "et" not in o.get("omit", ()):
            # a short-lived object of the same kind holding ANOTHER value first (its result is not judged): whatever the
            # implementation remembers about an object must not outlive it
            dk = kwargs_of(dict(o, et=et_shifted(o["et"], 1)))
            dead = id(dk["end_time"])
            call(M.compute_pianoroll, inp, **dk)
            del dk
        for label, q in (("fresh argument objects of the same kind", o), ("plain Python numbers of the same value", plain_opts(o))):
            if q is None:
                continue
            kw = kwargs_of(q) if fn == "pr" else pc_kwargs_of(q)
            if dead is not None and q is o and "end_time" in kw:
                del kw["end_time"]
                kw["end_time"] = reborn(lambda: et_py(o["et"]), dead)
            r, x = call(M.compute_pianoroll if fn == "pr" else M.compute_pitch_class_pianoroll, inp, **kw)
            if canon_result(r, x) != canon:
                ev.oracle.append("history: call %d (%s) returned something else than the same call with %s "
                                 "[%s variant %s]" % (step, fn, label, c.src, {k: v for k, v in o.items() if k != "pc"}))
    if c.src == "array" and (0, "pr") in first and len(inp):
        # the same for the note array: another array of the same layout comes and goes, then an equal-valued fresh one
        o = d["variants"][0]
        other = build_input(d)
        dead = id(other)
        if other.flags.writeable:
            other["pitch"] = (other["pitch"] + 5) % 120
            call(M.compute_pianoroll, other, **kwargs_of(o))
        del other
        twin = reborn(lambda: build_input(d), dead, 8)
        r, x = call(M.compute_pianoroll, twin, **kwargs_of(o))
        if canon_result(r, x) != first[(0, "pr")][1]:
            ev.oracle.append("history: an equal-valued fresh note array gives another roll than the session's array "
                             "[%s variant %s]" % (c.src, {k: v for k, v in o.items() if k != "pc"}))
    if c.src != "array" and c.arr is not None:
        arr2, _ = call(M.ensure_notearray, inp)
        if arr2 is None or arr2.dtype != c.arr.dtype or arr2.tobytes() != c.arr.tobytes():
            ev.oracle.append("frame: the notes of the %s argument changed during the session" % c.src)
        if any(p.get("warm") for p in d.get("parts", ())):
            # the same score built without interleaved read-only views must give the same first roll
            plain = build_input(dict(d, parts=[{k: v for k, v in p.items() if k != "warm"} for p in d["parts"]]))
            o = d["variants"][0]
            r, x = call(M.compute_pianoroll, plain, **kwargs_of(o))
            if (0, "pr") in first and canon_result(r, x) != first[(0, "pr")][1]:
                ev.oracle.append("history: the roll of a %s differs from the roll of the same score built without "
                                 "interleaved read-only views [variant %s]" % (c.src, {k: v for k, v in o.items() if k != "pc"}))
    if whole and c.lay is not None and c.arr is not None:
        req, want = sess_request(c, d, outs)
        ev.requests.append(req)
        ev.impl.append(want)
    return finish(c, before, "the session")


def dense_of(d):
    a = np.zeros((d["rows"], d["n"]), dtype=int)
    for p, j, v in d["cells"]:
        a[p, j] = v
    return a


def stored(x):
    """canonical text of a float32 value: the exact rational, or inf"""
    x = float(x)
    if x != x:
        return "nan"
    if x in (float("inf"), float("-inf")):
        return "inf"
    return W.f_rat(Fraction(x))


def fmt_notes_exact(na, unit):
    return "[" + ",".join("[%d,%s,%s,%d]" % (int(r["pitch"]), stored(r["onset_" + unit]), stored(r["duration_" + unit]), int(r["velocity"]))
                          for r in na) + "]"


def dec_call(M, inp, td, unit):
    kw = {}
    if td is not None:
        kw["time_div"] = td
    if unit is not None:
        kw["time_unit"] = unit
    return call(M.pianoroll_to_notearray, inp, **kw)


def eval_dec(d):
    import partitura.utils.music as M
    from scipy.sparse import csc_matrix, csr_matrix

    ev = Eval()
    a = dense_of(d)
    form = d.get("form")
    if d["sparse"]:
        inp = csc_matrix(a)
    elif form == "csr":
        inp = csr_matrix(a)
    elif form == "F":
        inp = np.asfortranarray(a)
    elif form == "ro":
        inp = a.copy()
        inp.flags.writeable = False
    elif form == "strided":
        big = np.full((2 * a.shape[0], a.shape[1]), 9, dtype=a.dtype)
        big[::2] = a
        inp = big[::2]
    elif form:
        inp = a.astype(form)
    else:
        inp = a
    before = a.copy()
    tdo, unit = td_py(d["td"]), d.get("unit", "sec")
    td = tm_val(d["td"])
    frozen = (freeze(inp), freeze(tdo))
    res, exc = dec_call(M, inp, tdo, unit)
    # the same objects once more: same notes, arguments untouched, nothing shared with them
    res2, exc2 = dec_call(M, inp, tdo, unit)
    if canon_result(res, exc) != canon_result(res2, exc2):
        ev.oracle.append("history: decoding the same roll object twice gives two different note arrays")
    if (freeze(inp), freeze(tdo)) != frozen:
        ev.oracle.append("frame: pianoroll_to_notearray modified its arguments")
    if exc is None and aliased(res, [inp, tdo]):
        ev.oracle.append("alias: the decoded note array shares memory with an argument")
    unit_eff = "sec" if unit is None else unit
    td_eff = 8 if td is None else td
    ev.requests.append("dec %d %d %s %s" % (d["rows"], d["n"], W.opt(W.q, td),
                                           W.lst(lambda c: "%d %d %d" % tuple(c), d["cells"])))
    # the decoder for real-valued rolls (Model/PianoRollDecodeQ.lean) must agree on every integer roll
    ev.requests.append("decq" + ev.requests[-1][3:])
    good_shape = d["rows"] in (128, 88)
    runs = run_decoder_oracle(a)
    if exc is not None:
        ev.impl += ["err", "err"]
        if good_shape and not (td_eff == 0 and runs):
            ev.oracle.append("dec: a %dx%d integer roll was rejected: %r" % (d["rows"], d["n"], exc))
        return ev
    if ("onset_" + unit_eff) not in (res.dtype.names or ()) or ("duration_" + unit_eff) not in (res.dtype.names or ()):
        ev.impl += ["unreadable", "unreadable"]
        ev.oracle.append("dec: the result has no onset_%s / duration_%s columns (%r)" % (unit_eff, unit_eff, res.dtype.names))
        return ev
    ev.impl += [fmt_notes_exact(res, unit_eff)] * 2
    if not good_shape:
        ev.oracle.append("dec: a roll with %d rows was accepted" % d["rows"])
        return ev
    ev.key = ev.requests[0]
    if td_eff == 0:
        return ev
    init = 21 if d["rows"] == 88 else 0
    # binary64 division, stored as binary32 (numpy's conversions are the reference for the two roundings)
    want = [(p + init, Fraction(float(np.float32(float(on) / td_eff))), Fraction(float(np.float32(float(off - on) / td_eff))), v)
            for (on, p, off, v) in runs]
    got = [(int(r["pitch"]), W.as_fraction(r["onset_" + unit_eff]), W.as_fraction(r["duration_" + unit_eff]), int(r["velocity"]))
           for r in res]
    if len(got) != len(want):
        ev.oracle.append("dec: %d notes decoded, the roll has %d runs" % (len(got), len(want)))
    else:
        for g, w in zip(got, want):
            if g != w:
                ev.oracle.append("dec: decoded note %r is not the run %r" % (tuple(map(float, g)), tuple(map(float, w))))
                break
        if [str(x) for x in res["id"]] != ["n%d" % i for i in range(len(res))]:
            ev.oracle.append("dec: note ids are not n0..n%d" % (len(res) - 1))
    if (a != before).any():
        ev.oracle.append("frame: pianoroll_to_notearray modified its argument")
    # round 6: the same roll with time_div as a numpy.float32 - the quotient is then formed in binary32 (one rounding;
    # Model/PianoRollDecode32.lean); the notes must be the same, the times are compared exactly with the model
    if td is not None:
        with warnings.catch_warnings():
            warnings.simplefilter("ignore")
            td32 = np.float32(td)
        if td32 != 0 and np.isfinite(td32):
            res32, exc32 = dec_call(M, inp, td32, unit)
            ev.requests.append("dec32 %d %d %s %s" % (d["rows"], d["n"], W.q(Fraction(float(td32))),
                                                     W.lst(lambda c: "%d %d %d" % tuple(c), d["cells"])))
            if exc32 is not None:
                ev.impl.append("err")
                ev.oracle.append("dec: time_div=np.float32(%r) rejected (%r), time_div=%r accepted" % (td, exc32, td))
            else:
                ev.impl.append(fmt_notes_exact(res32, unit_eff))
                if [(int(r["pitch"]), int(r["velocity"])) for r in res32] != [(g[0], g[3]) for g in got]:
                    ev.oracle.append("dec: time_div=np.float32(%r) decodes other notes than time_div=%r" % (td, td))
    return ev


def kind_obj(spec):
    """the Python object of a kind description"""
    t = spec[0]
    if t == "none":
        return None
    v = spec[1]
    if t == "bool":
        return bool(v)
    if t == "npbool":
        return np.bool_(v)
    if t == "int":
        return int(v)
    if t == "npint":
        return np.int64(v)
    if t == "float":
        return float(v)
    if t == "str":
        return str(v)
    if t == "tuple":
        return tuple(v)
    return list(v)


def kind_tok(spec):
    t = spec[0]
    if t == "none":
        return "N"
    v = spec[1]
    if t in ("bool", "npbool"):
        return "B " + W.b(bool(v))
    if t in ("int", "npint"):
        return "I " + W.i(v)
    if t == "float":
        return "F " + W.q(W.as_fraction(v))
    if t == "str":
        return "S " + W.s(v)
    return "L " + W.lst(lambda x: W.q(W.as_fraction(x)), v)


def plain_tok(k, v):
    """the token of a keyword passed in its documented form"""
    if k == "tu":
        return "S " + W.s(v)
    if k == "td":
        return "S auto" if v == "auto" else ("I " + W.i(v) if isinstance(v, int) else "F " + W.q(W.as_fraction(v)))
    if k == "pm":
        return "I " + W.i(v)
    if k == "tm":
        v = tm_val(v)
        return "I " + W.i(v) if isinstance(v, int) else "F " + W.q(W.as_fraction(v))
    if k == "et":
        if v is None:
            return "N"
        return "I " + W.i(v) if isinstance(v, int) else "F " + W.q(W.as_fraction(v))
    return "B " + W.b(v)


def kind_value(k, spec):
    """the documented-type value an argument of a NUMBER-LIKE / FLAG-LIKE kind stands for (the reading: flags are read by
    truthiness, a bool is the integer 0 / 1, a numpy integer is that integer, a float with an integer value is that
    integer); ('skip',) for the kinds the oracle gives no verdict on (strings, None, lists for a number)"""
    t = spec[0]
    if k in FLAG_KEYS:
        if t in ("bool", "npbool", "int", "npint"):
            return ("ok", bool(spec[1]))
        return ("skip",)
    if t in ("bool", "npbool", "int", "npint"):
        return ("ok", int(spec[1]))
    if t == "float" and k in ("pm",) and float(spec[1]) == int(spec[1]):
        return ("ok", int(spec[1]))
    if t == "float" and k in ("td", "tm", "et"):
        return ("ok", float(spec[1]))
    return ("skip",)


def eval_kinds(d):
    import partitura.utils.music as M

    ev = Eval()
    inp = build_input(d)
    c = Ctx(ev, M, d, inp)
    before = freeze(inp)
    for o in d["opts"]:
        kd = o["kd"]
        kw = kwargs_of(o)
        for k, spec in kd.items():
            kw[PR_KWNAME[k]] = kind_obj(spec)
        res, exc = call(M.compute_pianoroll, inp, **kw)
        e = effective(o)
        judged = True
        for k, spec in kd.items():
            val = kind_value(k, spec)
            if val[0] == "ok":
                e[k] = val[1]
            else:
                judged = False
        if judged:
            fails, info = check_roll(c.lay, c.arr, e, res, exc)
            ev.oracle += ["%s [argument kinds %s; array opts %s]" % (f, kd, {k: v for k, v in o.items() if k != "kd"}) for f in fails]
        if exc is None and aliased(res, [inp]):
            ev.oracle.append("alias: the returned roll / index rows share memory with an argument")
        m0 = None if exc is not None else (res[0] if isinstance(res, tuple) else res)
        # round 6: a float margin pm > -1 whose double is a whole number (0.5, 1.5, -0.5, ...): "pitch span plus twice the margin"
        # is a whole number of rows - the one clause of the property that has a reading for such a margin
        pmk = kd.get("pm")
        if (m0 is not None and pmk and pmk[0] == "float" and float(pmk[1]) > -1 and float(pmk[1]) != int(pmk[1])
                and float(2 * pmk[1]).is_integer() and c.lay is not None and c.arr is not None and len(kd) == 1):
            sel = select_unit(c.lay, e)
            if sel not in ("skip", None):
                ns_ = notes_of(c.lay, c.arr, e, sel[0])
                if ns_:
                    full = max(n[0] for n in ns_) - min(n[0] for n in ns_) + 1 + int(2 * pmk[1])
                    want_rows = max(0, min(109, full) - min(21, full)) if e["pr"] else full
                    if m0.shape[0] != want_rows:
                        ev.oracle.append("shape: %d rows with pitch_margin=%r, the pitch span plus twice the margin%s is %d [array opts %s]" % (
                            m0.shape[0], pmk[1], " (rows 21..108 of it)" if e["pr"] else "", want_rows,
                            {k: v for k, v in o.items() if k != "kd"}))
        if m0 is not None and getattr(m0, "nnz", 0) > MAX_CELLS:
            continue
        toks = [kind_tok(kd[k]) if k in kd else plain_tok(k, o[k]) for k in PR_KEYS]
        ev.requests.append("prv %s %s %s" % (W.s(c.src), " ".join(toks), c.arr_req))
        if exc is not None:
            ev.impl.append("err")
        else:
            c.nontrivial = True
            try:
                ev.impl.append(fmt_roll(res[0], res[1]) if isinstance(res, tuple) else fmt_roll(res, None))
            except Exception as x:
                ev.impl.append("unreadable result %r" % (x,))
    return finish(c, before)


def eval_decq(d):
    """real-valued rolls: outside the property's quantifier ("all integer rolls") - the binary-format / aliasing / frame /
    history clauses apply, the decoded notes are compared with the model (maximal runs of non-zero cells of one integer
    part), the oracle gives no verdict on them"""
    import partitura.utils.music as M
    from scipy.sparse import csc_matrix, csr_matrix

    ev = Eval()
    a = np.zeros((d["rows"], d["n"]), dtype=d["dt"])
    for p, j, v in d["cells"]:
        a[p, j] = v
    form = d["form"]
    if form in ("csc", "csr"):
        # explicit zeros are stored entries that are no cells
        ps = [c[0] for c in d["cells"]] + [z[0] for z in d["xz"] if a[z[0], z[1]] == 0]
        js = [c[1] for c in d["cells"]] + [z[1] for z in d["xz"] if a[z[0], z[1]] == 0]
        vs = [a[c[0], c[1]] for c in d["cells"]] + [0 for z in d["xz"] if a[z[0], z[1]] == 0]
        mk = csc_matrix if form == "csc" else csr_matrix
        inp = mk((np.array(vs, dtype=a.dtype if d["dt"] != "b1" else "f8"), (ps, js)), shape=a.shape) if ps else mk(a)
    elif form == "F":
        inp = np.asfortranarray(a)
    elif form == "ro":
        inp = a.copy()
        inp.flags.writeable = False
    else:
        inp = a.copy()
    tdo, unit = d["td"], d["unit"]
    frozen = freeze(inp)
    res, exc = dec_call(M, inp, tdo, unit)
    res2, exc2 = dec_call(M, inp, tdo, unit)
    if canon_result(res, exc) != canon_result(res2, exc2):
        ev.oracle.append("history: decoding the same roll object twice gives two different note arrays")
    if freeze(inp) != frozen:
        ev.oracle.append("frame: pianoroll_to_notearray modified its arguments")
    if exc is None and aliased(res, [inp]):
        ev.oracle.append("alias: the decoded note array shares memory with an argument")
    cells = [[p, j, W.as_fraction(a[p, j])] for p, j, _ in d["cells"] if a[p, j] != 0]
    ev.requests.append("decq %d %d %s %s" % (d["rows"], d["n"], W.opt(W.q, tdo),
                                            W.lst(lambda c: "%d %d %s" % (c[0], c[1], W.q(c[2])), cells)))
    if exc is not None:
        ev.impl.append("err")
        return ev
    if ("onset_" + unit) not in (res.dtype.names or ()):
        ev.impl.append("unreadable")
        return ev
    ev.impl.append(fmt_notes_exact(res, unit))
    if d["rows"] in (128, 88):
        ev.key = ev.requests[0]
    return ev


def eval_rt(d):
    """encode grid-aligned, non-touching notes, decode, expect the notes back"""
    import partitura.utils.music as M

    ev = Eval()
    td, unit = d["td"], d["unit"]
    notes = d["notes"]
    if not notes:
        return ev
    recs = [(p, f32(Fraction(on, td)), f32(Fraction(ln, td)), v) for (p, on, ln, v) in notes]
    arr = np.array(recs, dtype=[("pitch", "i4"), ("onset_" + unit, "f4"), ("duration_" + unit, "f4"), ("velocity", "i4")])
    # float32 storage of k/12 is not on the grid exactly; the frames still are (checked via the correspondence of the roll)
    lay = ([unit], True, False)
    o = {"tu": unit, "td": td, "oo": False, "ns": False, "pm": -1, "tm": d.get("tm", 0), "pr": d["piano"], "rd": True,
         "rs": d.get("rs", False), "et": None, "bi": False, "ri": False}
    # frame 0 and the leading margin: the one shift the decoder cannot know (C13.decode_encode_shift)
    f0 = min(on for (_, on, _, _) in notes) if o["rs"] else 0
    margin = int(Fraction(o["tm"]) * td)
    if "et_frames" in d:
        o["et"] = float(Fraction(d["et_frames"]) / td + Fraction(f0, td))
    in_range = all((21 <= p < 109) if d["piano"] else (0 <= p < 128) for (p, _, _, _) in notes)
    pr, exc = call(M.compute_pianoroll, arr, **kwargs_of(o))
    ev.requests.append("pr array " + req_args(o) + " " + req_array(lay, arr))
    if exc is not None:
        ev.impl.append("err")
        if in_range:
            ev.oracle.append("roundtrip: encoding rejected %r" % (exc,))
        return ev
    ev.impl.append(fmt_roll(pr, None))
    back, exc2 = call(M.pianoroll_to_notearray, pr, td, unit)
    a = pr.toarray()
    ps, js = a.nonzero()
    cells = [[int(p), int(j), int(a[p, j])] for p, j in zip(ps.tolist(), js.tolist())]
    ev.requests.append("dec %d %d %s %s" % (a.shape[0], a.shape[1], W.q(td), W.lst(lambda c: "%d %d %d" % tuple(c), cells)))
    if exc2 is not None:
        ev.impl.append("err")
        ev.oracle.append("roundtrip: decoding rejected %r" % (exc2,))
        return ev
    ev.impl.append(fmt_notes_exact(back, unit))
    if in_range:
        tol = Fraction(1, 10**5)
        got = sorted((int(r["pitch"]), rhe(W.as_fraction(r["onset_" + unit]) * td), rhe(W.as_fraction(r["duration_" + unit]) * td),
                      int(r["velocity"])) for r in back)
        ok_grid = all(abs(W.as_fraction(r["onset_" + unit]) * td - rhe(W.as_fraction(r["onset_" + unit]) * td)) < tol * td * 100 for r in back)
        want = sorted((p, on - f0 + margin, ln, v) for (p, on, ln, v) in notes)
        if got != want or not ok_grid:
            ev.oracle.append("roundtrip: decoding the roll of %r (remove_silence=%r time_margin=%r end_time=%r; notes shifted "
                             "by %d frames) gives %r" % (want, o["rs"], o["tm"], o["et"], margin - f0, got))
    ev.key = "|".join(ev.requests)
    return ev


def evaluate(d):
    k = d.get("k", "pr")
    if k == "pr":
        return eval_pr(d)
    if k == "dec":
        return eval_dec(d)
    if k == "hist":
        return eval_hist(d)
    if k == "decq":
        return eval_decq(d)
    if k == "kinds":
        return eval_kinds(d)
    return eval_rt(d)


def finding_key(d, f):
    return d.get("k", "pr") + ":" + f.split(":")[0]


def shrink(d):
    k = d.get("k", "pr")
    if k == "pr":
        if len(d["opts"]) > 1:
            for o in d["opts"]:
                yield dict(d, opts=[o])
        for o in d["opts"][:1]:
            if "pc" in o and len(d["opts"]) == 1:
                yield dict(d, opts=[{kk: v for kk, v in o.items() if kk != "pc"}])
        if d.get("src", "array") == "array":
            for i in range(len(d["rows"])):
                yield dict(d, rows=d["rows"][:i] + d["rows"][i + 1:])
        elif d.get("pnotes"):
            for i in range(len(d["pnotes"])):
                yield dict(d, pnotes=d["pnotes"][:i] + d["pnotes"][i + 1:])
        elif d.get("parts"):
            if len(d["parts"]) > 1 and d["src"] != "part":
                for i in range(len(d["parts"])):
                    yield dict(d, parts=d["parts"][:i] + d["parts"][i + 1:])
            for pi, p in enumerate(d["parts"]):
                for i in range(len(p["notes"])):
                    if any(n.get("tie") == p["notes"][i]["id"] for n in p["notes"]):
                        continue
                    q = dict(p, notes=p["notes"][:i] + p["notes"][i + 1:])
                    yield dict(d, parts=d["parts"][:pi] + [q] + d["parts"][pi + 1:])
        if len(d["opts"]) == 1:
            o = d["opts"][0]
            if o.get("omit"):
                yield dict(d, opts=[{kk: v for kk, v in o.items() if kk != "omit"}])
            if "pc" in o and o["pc"].get("omit"):
                yield dict(d, opts=[dict(o, pc={kk: v for kk, v in o["pc"].items() if kk != "omit"})])
            for kk, v in (("oo", False), ("ns", False), ("pm", -1), ("tm", 0), ("pr", False), ("rs", False),
                          ("et", None), ("bi", False), ("ri", False), ("rd", True)):
                if o[kk] != v:
                    yield dict(d, opts=[dict(o, **{kk: v})])
    elif k == "hist":
        if len(d["sched"]) > 1:
            for i in range(len(d["sched"])):
                yield dict(d, sched=d["sched"][:i] + d["sched"][i + 1:])
        used = sorted({vi for vi, _ in d["sched"]})
        if len(used) < len(d["variants"]):
            yield dict(d, variants=[d["variants"][vi] for vi in used], sched=[[used.index(vi), fn] for vi, fn in d["sched"]])
        if d.get("src", "array") == "array":
            for i in range(len(d["rows"])):
                if len(d["rows"]) > 1:
                    yield dict(d, rows=d["rows"][:i] + d["rows"][i + 1:])
            if d.get("form", "plain") != "plain":
                yield dict(d, form="plain")
        for vi, o in enumerate(d["variants"]):
            for kk, v in (("oo", False), ("ns", False), ("pm", -1), ("tm", 0), ("pr", False), ("bi", False), ("ri", False), ("rd", True)):
                if o[kk] != v:
                    yield dict(d, variants=d["variants"][:vi] + [dict(o, **{kk: v})] + d["variants"][vi + 1:])
            if o.get("omit"):
                yield dict(d, variants=d["variants"][:vi] + [{kk: v for kk, v in o.items() if kk != "omit"}] + d["variants"][vi + 1:])
    elif k == "kinds":
        if len(d["opts"]) > 1:
            for o in d["opts"]:
                yield dict(d, opts=[o])
        for i in range(len(d["rows"])):
            if len(d["rows"]) > 1:
                yield dict(d, rows=d["rows"][:i] + d["rows"][i + 1:])
        if len(d["opts"]) == 1:
            o = d["opts"][0]
            for kk in list(o["kd"]):
                if len(o["kd"]) > 1:
                    yield dict(d, opts=[dict(o, kd={a: b for a, b in o["kd"].items() if a != kk})])
    elif k == "decq":
        for i in range(len(d["cells"])):
            yield dict(d, cells=d["cells"][:i] + d["cells"][i + 1:])
        if d["form"] != "dense":
            yield dict(d, form="dense", xz=[])
    elif k == "dec":
        for i in range(len(d["cells"])):
            yield dict(d, cells=d["cells"][:i] + d["cells"][i + 1:])
        if d["sparse"]:
            yield dict(d, sparse=False)
    else:
        for i in range(len(d["notes"])):
            yield dict(d, notes=d["notes"][:i] + d["notes"][i + 1:])


def distribution(descs, results):
    from collections import Counter

    c = Counter(d.get("k", "pr") for d in descs)
    opt = Counter()
    units = Counter()
    srcs = Counter()
    n_opts = 0
    for d in descs:
        if d.get("k", "pr") != "pr":
            if d.get("k") == "hist":
                o = d["variants"][0]
                opt["hist:input=%s" % (d.get("form", "plain") if d.get("src", "array") == "array" else d["src"])] += 1
                for kk in ("et", "td", "tm"):
                    v = o[kk]
                    kind = "none" if v is None else "python" if not isinstance(v, dict) else \
                        "+".join(str(v[x]) if x in ("dt", "nd") else x for x in sorted(v) if x in ("arr", "a0", "np", "list", "tuple", "dt", "ro", "nd"))
                    opt["hist:%s=%s" % (kk, kind)] += 1
                opt["hist:calls=%d" % len(d["sched"])] += 1
                if any(fn == "pc" for _, fn in d["sched"]):
                    opt["hist:with pc"] += 1
            if d.get("k") == "kinds":
                for o in d["opts"]:
                    for kk, spec in o["kd"].items():
                        opt["kinds:%s=%s" % ("flag" if kk in FLAG_KEYS else kk, spec[0])] += 1
                        if kk == "pm" and spec[0] == "float" and float(spec[1]) != int(spec[1]):
                            v = float(spec[1])
                            opt["kinds:pm fractional %s" % ("<= -1" if v <= -1 else "in (-1,0)" if v < 0 else ">= 0")] += 1
            if d.get("k") == "rt" and ("rs" in d):
                opt["rt:shifted (rs=%s, margin %s, end_time %s)" % (d["rs"], "0" if not d["tm"] else "int" if d["tm"] == int(d["tm"]) else "frac",
                                                                  "given" if "et_frames" in d else "none")] += 1
            if d.get("k") == "decq":
                opt["decq:%s/%s" % (d["dt"], d["form"])] += 1
                ips = sorted({int(c[2]) for c in d["cells"]})
                opt["decq:integer part 0 present"] += int(0 in ips and any(int(c[2]) == 0 for c in d["cells"]))
                opt["decq:negative"] += int(any(c[2] < 0 for c in d["cells"]))
                opt["decq:beyond int32"] += int(any(abs(c[2]) >= 2 ** 31 for c in d["cells"]))
                opt["decq:explicit zeros"] += int(bool(d["xz"]))
                continue
            if d.get("k") == "dec":
                tdv = tm_val(d["td"])
                opt["dec:td=%s" % ("omitted" if tdv is None else "0" if tdv == 0 else "int" if isinstance(tdv, int) else "float")] += 1
                if d.get("form") or isinstance(d["td"], dict):
                    opt["dec:container=%s/%s" % (d.get("form") or "dense", "numpy" if isinstance(d["td"], dict) else "python")] += 1
                if any(c_[2] < 0 for c_ in d["cells"]):
                    opt["dec:negative"] += 1
                if d["n"] <= 1:
                    opt["dec:n<=1"] += 1
            continue
        srcs[d.get("src", "array")] += 1
        if d.get("src", "array") == "array" and any(r.get("v") == 0 for r in d["rows"]):
            opt["arrays with velocity-0 notes" + (" only" if all(r.get("v") == 0 for r in d["rows"]) else "")] += 1
        if d.get("src", "array") == "array":
            units["+".join(sorted(d["units"])) or "none"] += 1
        for o in d["opts"]:
            n_opts += 1
            for kk in ("oo", "ns", "pr", "rs", "bi", "ri"):
                if o[kk]:
                    opt[kk] += 1
            opt["pm=%d" % o["pm"]] += 1
            opt["td=%s" % (o["td"] if not isinstance(o["td"], dict) else "array")] += 1
            opt["tm=%s" % (tm_val(o["tm"]),)] += 1
            opt["tu=%s" % o["tu"]] += 1
            if o["et"] is not None:
                opt["end_time" + (":seq" if isinstance(o["et"], dict) else "")] += 1
            if o.get("omit"):
                opt["some keywords omitted"] += 1
            if "pc" in o:
                opt["pc"] += 1
    c["dec32 observations (time_div as numpy.float32)"] = sum(1 for r in results for x in (r.get("requests") or []) if str(x).startswith("dec32 "))
    f64c = sum((r.get("info") or {}).get("f64_compared", 0) for r in results)
    f64d = sum((r.get("info") or {}).get("f64_differs", 0) for r in results)
    c["pr:f64 family"] = sum(1 for d in descs if d.get("fam") == "f64")
    errs = sum(1 for r in results for x in r.get("impl", []) if x == "err")
    skipped = sum((r.get("info") or {}).get("skipped_inexact", 0) for r in results)
    large = sum((r.get("info") or {}).get("skipped_large", 0) for r in results)
    sizes = Counter(min(len(d["rows"]), 12) for d in descs if d.get("k", "pr") == "pr" and d.get("src", "array") == "array")
    return {"by_kind": dict(c), "inputs": dict(srcs), "option_sets": n_opts, "options": dict(opt), "unit_sets": dict(units),
            "array_sizes(capped 12)": dict(sizes), "error_observations": errs,
            "inexact_float_compared_with_binary64_model": f64c, "of_which_exact_reading_gives_another_roll": f64d,
            "skipped_inexact_float(sessions)": skipped,
            "normalised_pc_entries_compared_exactly": sum((r.get("info") or {}).get("pc_entries", 0) for r in results),
            "of_which_rounded_quotients": sum((r.get("info") or {}).get("pc_rounded", 0) for r in results),
            "oracle_only_large_rolls": large}
