"""C20 - exports, views and analyses never modify their argument and are repeatable;
scores and performances support len, indexing and iteration consistently and re-entrantly.

Reading.  "Leave the argument exactly as it was" is checked on the deep fingerprint of
gen_score.py: every time point (t, quarter, prev, next), both registries in order, every public and
private attribute of every object, the quarter tables, beat-mode flag, score metadata, and the
identity (id()) of every object and time point ("same objects").  Internal caches whose only role
is memoisation of a derived value (Part._quarter_map) are not part of the
argument's observable state and are excluded.  An entry point that raises is not a C20 failure by
itself (other properties own that), but the argument must be unchanged also then.
"Identical result" compares bytes for files, arrays elementwise, fingerprints for returned parts.

Unknown private attributes that appear lazily (memos) are not observable state either (gen_score.py).
"Only operations documented as in-place change their input": after an unfolding / transposition, documented
in-place operations applied to the RESULT must leave the ARGUMENT's fingerprint as it was (clause `alias`).
"Calling them again ... gives an identical result" is also demanded across histories: an argument that was read from
or re-edited while it was built (gen_score `warm`) gives the results of an equal argument without that history.

What is a theorem here (Props/C20*.lean):
 * the container protocol (C20.lean; C20Seq.lean for reversed(), `in`, slices, assignment between next calls);
 * the reference bookkeeping of the copies an unfolding makes (C20Refs.lean over Model/RefHeap.lean), tied to
   ReplaceRefMixin.replace_refs on random graphs of real Note/GraceNote/Slur/Tuplet objects (`refs` cases);
 * ARGUMENT FORMS (C20Forms.lean over Model/ArgForms.lean): whatever ScoreLike form the argument has, save_musicxml,
   save_score_midi, Score(x) and ensure_notearray reach exactly the parts iter_parts reaches; `transpose` over a heap of
   note cells leaves every cell of the argument as it was (no side condition), returns the transformed contents
   (Score / Part) or a copy (PartGroup / list), and a second call gives an equal result; save_performance_midi reads
   the caller's performed parts as they are for every PerformanceLike form (`argforms` / `perfforms` cases);
   Performance(...) / sanitize_track_numbers reaches its fixed point in one pass (C20Perf.lean);
 * the dispatch tables and literals those models copy are REGENERATED from the live source (translate_c20.py ->
   Gen/C20Tables.lean) and proved equal to the models for every argument (C20Gen.lean): the heads of
   save_performance_midi, Performance.__init__, transpose, save_score_midi (+ every later use of `parts`), save_musicxml,
   Score.__init__, ensure_notearray, how slice_notearray_by_time binds / writes its result, and the bodies of the container
   methods (__getitem__ / __setitem__ / __iter__ / __len__ of Score and Performance delegate to ONE list); composed theorems
   (`live_exporters_agree`, `live_slice_frame`) state the property for the tables the live source contains;
 * ARRAY VIEWS THAT COPY (C20Array.lean over Model/ArrayView.lean): slice_notearray_by_time over a heap of numpy buffers —
   every existing buffer (the argument's) is left as it was, the result is a new buffer (no shared memory), holds the
   active rows (clipped), in-place edits of the result do not reach the argument, a second call gives an equal new
   array (`slice` cases);
 * the memo behind the read-only property number_of_staves (C20Cache.lean): a read never changes the objects and no
   result depends on the memo, for all histories of add / remove / read (`staves` cases).
The rest of the non-mutation half (the exporters' and analysers' bodies) is decided by frame checks on generated inputs —
now for EVERY form of the documented ScoreLike / PerformanceLike unions and every read-only function found in
partitura's public namespaces (harness/c20_forms.py `discover`); it is labelled so in MANIFEST/evidence.
"""
import copy
import io
import random

import numpy as np

import wire as W
from core import Eval
import gen_score as G
import c20_forms as F

PROPERTY = "C20"
DRIVER = "drv_c20"
PROPS = ["PartituraModel.Props.C20", "PartituraModel.Props.C20Refs", "PartituraModel.Props.C20Forms",
         "PartituraModel.Props.C20Seq", "PartituraModel.Props.C20Gen", "PartituraModel.Props.C20Cache",
         "PartituraModel.Props.C20Perf", "PartituraModel.Props.C20Array"]
TRUSTED = [
    "Python iterator protocol (iter()/next() dispatch to __iter__/__next__; reversed() and `in` fall back to "
    "__len__/__getitem__ and __iter__ for classes without __reversed__/__contains__), list indexing and slicing",
    "frame checks: the deep fingerprint of harness/gen_score.py is taken as 'the argument exactly as it was'",
    "copy.deepcopy allocates a new object for every note it reaches (Model/ArgForms.lean `copyParts`; parts do not share notes)",
    "isinstance / collections.abc.Iterable as interpreted by Model/ArgFormsGen.lean (a Performance is iterable)",
    "sorted(set(pairs)) of sanitize_track_numbers = strictly sorted list without duplicates (Model/ArgForms.lean `sortedSet`)",
    "numpy: np.empty and indexing with an integer array allocate a new buffer; `arr[idx] = v` and `arr[field] = v` write into "
    "the buffer of `arr` and nowhere else; a float assigned to an integer field truncates toward zero; sorted(set of "
    "indices) = ascending indices, each once (Model/ArrayView.lean)",
    "harness/translate_c20.py reads the if/elif chains and bindings of the live source by their AST shape (an unknown shape "
    "becomes the token `?` and the theorems of Props/C20Gen.lean stop building)",
]
PARTIAL = ["non-mutation and repeatability of the BODIES of the exporters and analysers (what save_musicxml / save_score_midi / "
           "save_match / the note-array builders / the estimators do with the parts they reach) are established by frame "
           "checks (deep fingerprint before/after, results of repeated calls compared) on generated inputs, not by a theorem; "
           "proved are the argument normalisation of every form, transpose over the heap, the copies of an unfolding, the "
           "number_of_staves memo, slice_notearray_by_time over the buffer heap and the container protocol",
           "of the array views only slice_notearray_by_time is modelled; note_array_from_note_list and compute_pianoroll "
           "(which build new arrays from Python objects) are frame-checked, not proved",
           "slice ASSIGNMENT (c[a:b] = [...]) changes the number of parts and is not modelled"]
RULE = ("(c) random graphs of real Note/GraceNote/Slur/Tuplet objects copied with copy() + replace_refs(o_map) and compared, "
        "attribute by attribute and list identity by list identity, with the Lean heap model; (d) in-place operations on "
        "results, arguments with construction histories compared with twins without; "
        "(a) random interleavings of iter/next/len/getitem (and reversed/in/slice/assignment/missing methods: proto3) on real "
        "Score and Performance objects with 0-4 parts, compared with the Lean container model and with a plain Python list; "
        "(b) generated scores/parts/performances on which every read-only entry point is called twice in a random order with a "
        "deep fingerprint (incl. object identities) before and after each call; "
        "(e) forms (part ids P<n>, other spellings, and duplicate ids): every form of the ScoreLike / PerformanceLike unions "
        "read from the live source (Score, Score built from "
        "groups, Part alone / taken out of a Score / of a group, PartGroup, nested groups, list, tuple, list holding a group; "
        "Performance with and without unique tracks, PerformedPart alone / taken out of a Performance / on a non-zero track / "
        "with controls without a track key / with gaps, list, tuple) x every read-only function discovered in partitura's "
        "public namespaces, frame taken over the argument AND its owners; (f) argforms / perfforms: random part trees "
        "(nesting depth 0-3) and random track entries (missing keys, -1, gaps) in every form, compared with "
        "Model/ArgForms.lean (iter_parts, Score(x), parts visited by save_musicxml / save_score_midi / ensure_notearray, "
        "transpose over the note heap, save_performance_midi, Performance(...) + num_tracks); (g) staves: histories of "
        "add/remove/number_of_staves; (h) slice: note arrays of 0-6 rows (times in quarter-beat ticks) with windows that "
        "cover every row / none / the middle / touch an onset or offset / are inverted, with and without clipping, "
        "compared with Model/ArrayView.lean (argument afterwards, result rows, shared memory); "
        "distinct = distinct request text / (seed, form)")
LEVEL_TEXT = ("Lean 4 theorems over all inputs: container protocol incl. reversed / in / slices / assignment between next "
              "calls (every handle sees every position once, for every interleaving); copies made by unfolding share no "
              "list with the original; for every ScoreLike form the exporters, Score(x) and ensure_notearray reach exactly "
              "the parts iter_parts reaches; transpose leaves every note cell of its argument as it was, for every form, "
              "and is repeatable; save_performance_midi binds every PerformanceLike form to the caller's own parts "
              "(dispatch tables of ALL these heads and the bodies of the container methods regenerated from the live source and "
              "proved equal to the model); the "
              "number_of_staves memo never changes objects and no result depends on it; slice_notearray_by_time over a heap of "
              "numpy buffers writes only into a newly allocated buffer (argument untouched, no shared memory, repeatable). "
              "All tied to the code by differential runs. "
              "Non-mutation/repeatability of the exporters' and analysers' bodies: frame checks only (every entry point x "
              "every documented argument form), not proved.")


def cases(rng, tier):
    n = 300 if tier == "quick" else 6000
    for _ in range(n):
        nparts = rng.choice([0, 1, 2, 2, 3, 4])
        ops = []
        handles = 0
        use_set = rng.random() < 0.4
        for _ in range(rng.randint(1, 30)):
            r = rng.random()
            if r < 0.2 or handles == 0 and r < 0.6:
                ops.append(["iter"])
                handles += 1
            elif r < 0.75 and handles:
                ops.append(["next", rng.randrange(handles)])
            elif r < 0.85:
                ops.append(["len"])
            elif r < 0.93 or not use_set:
                ops.append(["get", rng.randint(-nparts - 2, nparts + 1)])
            else:
                ops.append(["set", rng.randint(-nparts - 1, nparts), 100 + len(ops)])  # c[i] = a new part
        yield {"k": "proto", "kind": rng.choice(["score", "performance"]), "n": nparts, "ops": ops}
    # the rest of the sequence protocol: reversed() (sequence-protocol fallback), `in`, slices, assignment BETWEEN
    # next calls, the list methods the containers do not have
    for _ in range(200 if tier == "quick" else 5000):
        nparts = rng.choice([0, 1, 2, 3, 3, 4])
        ops, handles = [], 0
        for _ in range(rng.randint(1, 24)):
            r = rng.random()
            if r < 0.12 or handles == 0 and r < 0.4:
                ops.append([rng.choice(["iter", "riter"])])
                handles += 1
            elif r < 0.55 and handles:
                ops.append(["next", rng.randrange(handles)])
            elif r < 0.6:
                ops.append(["len"])
            elif r < 0.68:
                ops.append(["get", rng.randint(-nparts - 2, nparts + 1)])
            elif r < 0.8:
                ops.append(["set", rng.randint(-nparts - 1, nparts), 100 + len(ops)])
            elif r < 0.88:
                ops.append(["in", rng.choice([rng.randrange(nparts + 1), 100 + rng.randrange(len(ops) + 1)])])
            elif r < 0.97:
                b = lambda: rng.choice([None, None] + list(range(-nparts - 2, nparts + 3)))
                ops.append(["slice", b(), b(), rng.choice([None, None, 1, 2, -1, -2, 3, 0])])
            else:
                ops.append(["noattr", rng.choice(["index", "count", "del"])])
        yield {"k": "proto3", "kind": rng.choice(["score", "performance"]), "n": nparts, "ops": ops}
    for nparts in (2, 3):
        yield {"k": "nested", "kind": "score", "n": nparts}
        yield {"k": "nested", "kind": "performance", "n": nparts}
    # reference bookkeeping of the copies an unfolding makes (copy + replace_refs): random object graphs
    for _ in range(150 if tier == "quick" else 5000):
        nn = rng.randint(1, 6)
        links = []
        for _ in range(rng.randint(0, 7)):
            links.append([rng.choice(["slur", "tuplet", "tie"]), rng.randrange(nn), rng.randrange(nn)])
        nobj = nn + sum(1 for l in links if l[0] != "tie")
        k = rng.randint(0, nobj)
        yield {"k": "refs", "notes": nn, "grace": [rng.random() < 0.2 for _ in range(nn)], "links": links,
               "copy": rng.sample(range(nobj), k)}
    # parts that carry their stored segmentation and a leap with awaiting destinations (Fine / To Coda): the
    # single-path unfoldings walk the stored Segment objects
    for _ in range(8 if tier == "quick" else 300):
        yield {"k": "frame", "seed": rng.randrange(2**31), "what": rng.choice(["part", "part", "score"]), "nav": True,
               "segments": True, "edit_result": rng.random() < 0.3}
    # the normalisation glue of the entry points against Model/ArgForms.lean (cheap: tiny parts)
    for _ in range(120 if tier == "quick" else 4000):
        yield F.argforms_desc(rng)
    for _ in range(200 if tier == "quick" else 6000):
        yield F.perfforms_desc(rng)
    # the memo behind the read-only property number_of_staves: histories of add / remove / read (Model/StavesCache.lean)
    for _ in range(100 if tier == "quick" else 3000):
        yield F.staves_desc(rng)
    # array views that copy: slice_notearray_by_time against Model/ArrayView.lean (heap of buffers)
    for _ in range(150 if tier == "quick" else 5000):
        yield F.slice_desc(rng)
    # ARGUMENT FORMS: every form of the documented ScoreLike / PerformanceLike unions (read from the live source),
    # every registered read-only entry point on each; each form at least once per run, in a random order
    forms, _missing = F.form_table()
    reps = 1 if tier == "quick" else 40
    fl = [f for f in forms for _ in range(reps)]
    rng.shuffle(fl)
    for side, form in fl:
        yield {"k": "forms", "side": side, "form": form, "seed": rng.randrange(2**31)}
    for _ in range(3 if tier == "quick" else 100):
        yield {"k": "pairs", "seed": rng.randrange(2**31)}
    m = 20 if tier == "quick" else 1200
    for _ in range(m):
        c = {"k": "frame", "seed": rng.randrange(2**31), "what": rng.choice(["score", "score", "part", "performance"])}
        if c["what"] != "performance":
            if rng.random() < 0.5:
                c["warm"] = rng.choice([2, 16, 31, 63, 64, 95, 127, 128, 160, 255])
            if rng.random() < 0.5:
                c["edit_result"] = True
            if rng.random() < 0.4:
                c["nav"] = True
            if rng.random() < 0.4:
                c["segments"] = True
            if rng.random() < 0.15:
                c["no_measures"] = True
        yield c
    # parts that count MUSICAL beats with CUSTOMISED numbers per time signature (use_musical_beat({"4/4": 2})): the
    # read-only calls (the match export on the part itself above all) must leave mode, TimeSignature.musical_beats,
    # beat maps and beat columns alone
    for i in range(10 if tier == "quick" else 400):
        c = {"k": "frame", "seed": rng.randrange(2**31), "what": rng.choice(["part", "part", "score"]), "mb": 1 + i % 2}
        if rng.random() < 0.3:
            c["warm"] = rng.choice([2, 31, 127, 255])
        yield c
    # the estimators on a structured NOTE ARRAY argument with zero-duration notes (grace notes / onset-only arrays)
    for i in range(10 if tier == "quick" else 400):
        yield {"k": "naarg", "seed": rng.randrange(2**31), "zero": ["grace", "some", "all"][i % 3]}


def make_container(kind, n):
    import partitura.score as S
    import partitura.performance as P

    if kind == "score":
        parts = [S.Part("P%d" % i) for i in range(n)]
        return S.Score(parts), parts
    pps = [P.PerformedPart([{"midi_pitch": 60 + i, "note_on": 0.0, "note_off": 1.0, "velocity": 60}], id="pp%d" % i)
           for i in range(n)]
    return P.Performance(pps), pps


def evaluate(d):
    ev = Eval()
    k = d["k"]
    if k == "proto":
        c, parts = make_container(d["kind"], d["n"])
        idx = {id(p): i for i, p in enumerate(parts)}
        handles, outs, ref = [], [], []
        cursors = []
        keep = []
        cur = list(range(d["n"]))  # reference: the ids of the parts the container holds now
        has_set = any(op[0] == "set" for op in d["ops"])
        for op in d["ops"]:
            try:
                if op[0] == "iter":
                    handles.append(iter(c))
                    cursors.append(0)
                    o = "h%d" % (len(handles) - 1)
                    r = o
                elif op[0] == "set":
                    i, newid = op[1], op[2]
                    if -d["n"] <= i < d["n"]:
                        cur[i % d["n"]] = newid
                        r = "len%d" % d["n"]
                    else:
                        r = "IndexError"
                    _, newparts = make_container(d["kind"], 1)
                    idx[id(newparts[0])] = newid
                    keep.append(newparts[0])
                    try:
                        c[i] = newparts[0]
                        o = "len%d" % len(c)
                    except IndexError:
                        o = "IndexError"
                elif op[0] == "next":
                    h = op[1]
                    r = "p%d" % cur[cursors[h]] if cursors[h] < d["n"] else "stop"
                    if cursors[h] < d["n"]:
                        cursors[h] += 1
                    try:
                        o = "p%d" % idx[id(next(handles[h]))]
                    except StopIteration:
                        o = "stop"
                elif op[0] == "len":
                    o = "len%d" % len(c)
                    r = "len%d" % d["n"]
                else:
                    i = op[1]
                    r = "p%d" % cur[i % d["n"]] if -d["n"] <= i < d["n"] else "IndexError"
                    try:
                        o = "p%d" % idx[id(c[i])]
                    except IndexError:
                        o = "IndexError"
            except Exception as e:  # anything else is a protocol failure
                o = "err:%s" % type(e).__name__
            outs.append(o)
            ref.append(r)
        ev.requests.append("%s %d %s" % ("run2" if has_set else "run", d["n"], W.lst(lambda op: " ".join(str(x) for x in op), d["ops"])))
        ev.impl.append("[" + ",".join(outs) + "]")
        if outs != ref:
            j = [i for i, (a, b) in enumerate(zip(outs, ref)) if a != b][0]
            ev.oracle.append("container protocol: %s with %d parts, op #%d %s returned %s, expected %s (ops=%s)" % (
                d["kind"], d["n"], j, d["ops"][j], outs[j], ref[j], d["ops"]))
        ev.key = "proto:" + ev.requests[0]
    elif k == "proto3":
        proto3_case(d, ev)
    elif k == "refs":
        refs_case(d, ev)
    elif k == "nested":
        c, parts = make_container(d["kind"], d["n"])
        idx = {id(p): i for i, p in enumerate(parts)}
        pairs = [(idx[id(a)], idx[id(b)]) for a in c for b in c]
        exp = [(i, j) for i in range(d["n"]) for j in range(d["n"])]
        if pairs != exp:
            ev.oracle.append("nested iteration over a %s with %d parts visited %s" % (d["kind"], d["n"], pairs))
        z = [(idx[id(a)], idx[id(b)]) for a, b in zip(c, c)]
        if z != [(i, i) for i in range(d["n"])]:
            ev.oracle.append("zip(c, c) over a %s visited %s" % (d["kind"], z))
        ev.key = "nested:%s:%d" % (d["kind"], d["n"])
    elif k == "argforms":
        ev.requests, ev.impl, ev.oracle = F.observe_argforms(d)
        ev.key = "argforms:" + ev.requests[0]
    elif k == "staves":
        ev.requests, ev.impl, ev.oracle = F.observe_staves(d)
        ev.key = "staves:" + ev.requests[0]
    elif k == "slice":
        ev.requests, ev.impl, ev.oracle = F.observe_slice(d)
        ev.key = "slice:" + ev.requests[0]
    elif k == "perfforms":
        ev.requests, ev.impl, ev.oracle = F.observe_perfforms(d)
        ev.key = "perfforms:" + ev.requests[0]
    elif k == "pairs":
        pairs_case(d, ev)
        ev.key = "pairs:%d" % d["seed"]
    elif k == "forms":
        forms_case(d, ev)
        ev.key = "forms:%s:%s:%d" % (d["side"], d["form"], d["seed"])
    elif k == "naarg":
        naarg_case(d, ev)
        ev.key = "naarg:%d:%s" % (d["seed"], d["zero"])
    else:
        frame_case(d, ev)
        ev.key = "frame:%d:%s%s" % (d["seed"], d["what"], ":mb%d" % d["mb"] if d.get("mb") else "")
    return ev


def proto3_case(d, ev):
    """the extended protocol on a real Score / Performance; the REFERENCE is a plain Python list driven by the same
    operations (list iterators, reversed(), `in`, slicing): the containers promise to behave like the list of their
    parts.  The Lean model (IterProto.run3) must agree with the implementation as well."""
    c, parts = make_container(d["kind"], d["n"])
    idx = {id(p): i for i, p in enumerate(parts)}
    keep = list(parts)
    n = d["n"]
    ref_list = list(range(n))          # the reference container: ids of the parts
    rh, ih = [], []                    # reference handles / implementation handles
    outs, refs = [], []
    tok = lambda i: "p%d" % i

    def ref_next(h):
        kind, pos = rh[h]
        if kind == "f":
            if pos < len(ref_list):
                rh[h] = (kind, pos + 1)
                return tok(ref_list[pos])
            return "stop"
        if pos >= 0:
            rh[h] = (kind, pos - 1)
            return tok(ref_list[pos])
        return "stop"

    for op in d["ops"]:
        try:
            if op[0] in ("iter", "riter"):
                ih.append(iter(c) if op[0] == "iter" else reversed(c))
                rh.append(("f", 0) if op[0] == "iter" else ("r", len(ref_list) - 1))
                o = r = "h%d" % (len(ih) - 1)
            elif op[0] == "next":
                r = ref_next(op[1])
                try:
                    o = tok(idx[id(next(ih[op[1]]))])
                except StopIteration:
                    o = "stop"
            elif op[0] == "len":
                o, r = "len%d" % len(c), "len%d" % len(ref_list)
            elif op[0] == "get":
                r = tok(ref_list[op[1]]) if -n <= op[1] < n else "IndexError"
                try:
                    o = tok(idx[id(c[op[1]])])
                except IndexError:
                    o = "IndexError"
            elif op[0] == "set":
                _, newparts = make_container(d["kind"], 1)
                idx[id(newparts[0])] = op[2]
                keep.append(newparts[0])
                if -n <= op[1] < n:
                    ref_list[op[1]] = op[2]
                    r = "len%d" % n
                else:
                    r = "IndexError"
                try:
                    c[op[1]] = newparts[0]
                    o = "len%d" % len(c)
                except IndexError:
                    o = "IndexError"
            elif op[0] == "in":
                r = "T" if op[1] in ref_list else "F"
                obj = [p for p in keep if idx[id(p)] == op[1]]
                if not obj:   # a part that was never in the container
                    _, np_ = make_container(d["kind"], 1)
                    obj = np_
                o = "T" if obj[0] in c else "F"
            elif op[0] == "slice":
                try:
                    r = "[" + ",".join(tok(i) for i in ref_list[slice(op[1], op[2], op[3])]) + "]"
                except ValueError:
                    r = "ValueError"
                try:
                    got = c[slice(op[1], op[2], op[3])]
                    o = "[" + ",".join(tok(idx[id(p)]) for p in got) + "]"
                except ValueError:
                    o = "ValueError"
            else:
                r = "AttributeError"   # not list methods of these classes; nothing may change
                try:
                    if op[1] == "index":
                        c.index(keep[0] if keep else None)
                    elif op[1] == "count":
                        c.count(keep[0] if keep else None)
                    else:
                        del c[0]
                    o = "no-error"
                except AttributeError:
                    o = "AttributeError"
        except Exception as e:
            o = "err:%s" % type(e).__name__
        outs.append(o)
        refs.append(r)
    def optok(op):
        if op[0] == "slice":
            return "slice " + " ".join("-" if x is None else str(x) for x in op[1:])
        if op[0] == "noattr":
            return "noattr"
        return " ".join(str(x) for x in op)
    ev.requests.append("run3 %d %s" % (n, W.lst(optok, d["ops"])))
    ev.impl.append("[" + ",".join(outs) + "]")
    if outs != refs:
        j = [i for i, (a, b) in enumerate(zip(outs, refs)) if a != b][0]
        ev.oracle.append("container protocol: %s with %d parts, op #%d %s returned %s, a list of the parts gives %s (ops=%s)" % (
            d["kind"], n, j, d["ops"][j], outs[j], refs[j], d["ops"]))
    ev.key = "proto3:" + ev.requests[0]


# ------------------------------------------------------------------ frame checks
def canon_result(r):
    import partitura.score as S
    import partitura.performance as P

    if isinstance(r, (S.Part, S.Score)):
        return G.fingerprint_score(r)
    if isinstance(r, (P.Performance, P.PerformedPart)):
        return G.fingerprint_performance(r)
    if isinstance(r, np.ndarray):
        return ["nd", str(r.dtype), list(r.shape), repr(r.tolist())]
    if hasattr(r, "toarray"):
        a = r.toarray()
        return ["sp", list(a.shape), a.tolist()]
    if isinstance(r, (bytes, str, int, float, type(None), bool, np.generic)):
        return repr(r)
    if isinstance(r, (list, tuple)):
        return [canon_result(x) for x in r]
    if isinstance(r, dict):
        return sorted((repr(k), canon_result(v)) for k, v in r.items())
    if hasattr(r, "tracks") and hasattr(r, "save"):  # mido.MidiFile
        b = io.BytesIO()
        r.save(file=b)
        return b.getvalue()
    return repr(type(r))


def fp_diff(a, b, path=""):
    if type(a) != type(b):
        return "%s: %r -> %r" % (path, a, b)
    if isinstance(a, dict):
        for k in sorted(set(a) | set(b)):
            if k not in a or k not in b:
                return "%s.%s: present only on one side" % (path, k)
            r = fp_diff(a[k], b[k], path + "." + str(k))
            if r:
                return r
        return None
    if isinstance(a, list):
        if len(a) != len(b):
            return "%s: length %d -> %d" % (path, len(a), len(b))
        for i, (x, y) in enumerate(zip(a, b)):
            r = fp_diff(x, y, "%s[%d]" % (path, i))
            if r:
                return r
        return None
    return None if a == b else "%s: %r -> %r" % (path, a, b)


def score_entry_points(obj, rng):
    """name -> callable(obj) for a Score or Part argument"""
    import partitura as pt
    import partitura.score as S
    import partitura.utils.music as M
    from partitura.io.exportmusicxml import save_musicxml
    from partitura.io.exportmidi import save_score_midi
    from partitura.musicanalysis import estimate_spelling, estimate_voices, estimate_key

    part = obj if isinstance(obj, S.Part) else (obj.parts[0] if len(obj.parts) else None)

    def midi(o):
        b = io.BytesIO()
        save_score_midi(o, b)
        return b.getvalue()

    eps = {
        "save_musicxml": lambda o: save_musicxml(o),
        "save_score_midi": midi,
        "note_array": lambda o: o.note_array(),
        "note_array_all": lambda o: o.note_array(include_pitch_spelling=True, include_key_signature=True,
                                                 include_time_signature=True, include_metrical_position=True,
                                                 include_grace_notes=True, include_staff=True, include_divs_per_quarter=True),
        "transpose": lambda o: M.transpose(o, S.Interval(3, "M")),
        "compute_pianoroll": lambda o: M.compute_pianoroll(o),
        "estimate_spelling": lambda o: estimate_spelling(o),
        "estimate_voices": lambda o: estimate_voices(o),
        "estimate_key": lambda o: estimate_key(o),
    }
    def match_export(o):
        # export the first part with a performance derived from it and a note-for-note alignment; the SCORE side
        # (o) is the argument whose non-modification is judged
        from partitura.io.exportmatch import save_match

        pp = M.performance_from_part(part, bpm=100)
        al = [{"label": "match", "score_id": n.id, "performance_id": n.id} for n in part.notes_tied]
        b = io.StringIO()
        mf = save_match(al, pp, part, out=None, assume_unfolded=True)
        return [str(l.matchline) for l in mf.lines]

    if part is not None:
        # (kern / MEI export are not among the entry points C20 lists; they belong to C19)
        eps["save_match"] = match_export
        eps["slice_notearray_by_time"] = lambda o: M.slice_notearray_by_time(part.note_array(), 0, 4)
        eps["note_array_from_part_list"] = lambda o: M.note_array_from_part_list([part], unique_id_per_part=True)
        eps["performance_from_part"] = lambda o: M.performance_from_part(part)
        t = (part.first_point.t + part.last_point.t) // 2 if part.first_point is not None else 0
        for nm in ("beat_map", "inv_beat_map", "quarter_map", "inv_quarter_map", "quarter_duration_map",
                   "time_signature_map", "key_signature_map", "clef_map", "measure_map", "measure_number_map",
                   "metrical_position_map"):
            eps["map:" + nm] = (lambda nm: lambda o: np.asarray(getattr(part, nm)(t)))(nm)
        eps["pretty"] = lambda o: part.pretty()
        eps["rest_array"] = lambda o: part.rest_array()
        eps["unfold_part_maximal"] = lambda o: S.unfold_part_maximal(part)
        eps["unfold_part_minimal"] = lambda o: S.unfold_part_minimal(part)
        eps["iter_unfolded_parts"] = lambda o: list(S.iter_unfolded_parts(part))
    return eps


def performance_entry_points(perf):
    import partitura.utils.music as M
    from partitura.io.exportmidi import save_performance_midi

    def midi(o):
        b = io.BytesIO()
        save_performance_midi(o, b)
        return b.getvalue()

    return {
        "save_performance_midi": midi,
        "perf_note_array": lambda o: o.note_array(),
        "perf_pianoroll": lambda o: M.compute_pianoroll(o.performedparts[0]),
        "num_tracks": lambda o: o.num_tracks,
    }


def add_repeat(pd, rng):
    """wrap the middle of the part in a simple repeat (at measure boundaries of the first time signature)"""
    if pd["ts"] and len(pd["ts"]) == 1:
        _, b, bt = pd["ts"][0]
        bar = 4 * b * pd["divs"] // bt
        end = max(n["t"] + n["dur"] for n in pd["notes"]) if pd["notes"] else 0
        nb = end // bar if bar else 0
        if nb >= 2:
            s = rng.randrange(0, nb - 1) * bar
            e = rng.randrange(s // bar + 1, nb + 1) * bar
            pd["extras"].append(["Repeat", s, e, {}])


def add_navigation(pd, rng):
    """one of the standard navigation forms at bar lines of a part with a single time signature (after add_repeat):
    D.C., D.C. al Fine, D.S. al Fine, D.C. al Coda, D.S. al Coda"""
    if not (pd["ts"] and len(pd["ts"]) == 1):
        return
    _, b, bt = pd["ts"][0]
    bar = 4 * b * pd["divs"] // bt
    end = max(n["t"] + n["dur"] for n in pd["notes"]) if pd["notes"] else 0
    nb = end // bar if bar else 0
    if nb < 2:
        return
    T = [i * bar for i in range(nb + 1)]
    form = rng.choice(["dc", "dcfine", "dcfine", "dsfine", "dccoda", "dscoda"])
    X = pd["extras"]
    if form == "dc":
        X.append(["DaCapo", T[nb], None, {}])
    elif form == "dcfine":
        X.append(["Fine", T[rng.randint(1, nb - 1)], None, {}])
        X.append(["DaCapo", T[nb], None, {}])
    elif form == "dsfine" and nb >= 3:
        s_ = rng.randint(0, nb - 2)
        X.append(["Segno", T[s_], None, {}])
        X.append(["Fine", T[rng.randint(s_ + 1, nb - 1)], None, {}])
        X.append(["DalSegno", T[nb], None, {}])
    elif form == "dccoda" and nb >= 3:
        a = rng.randint(1, nb - 2)
        c = rng.randint(a + 1, nb - 1)
        X.append(["ToCoda", T[a], None, {}])
        X.append(["DaCapo", T[c], None, {}])
        X.append(["Coda", T[c], None, {}])
    elif form == "dscoda" and nb >= 4:
        s_ = rng.randint(0, nb - 4)
        a = rng.randint(s_ + 1, nb - 2)
        c = rng.randint(a + 1, nb - 1)
        X.append(["Segno", T[s_], None, {}])
        X.append(["ToCoda", T[a], None, {}])
        X.append(["DalSegno", T[c], None, {}])
        X.append(["Coda", T[c], None, {}])


def custom_musical_beats(part, mode):
    """a dict for use_musical_beat / set_musical_beat_per_ts that differs from the default table for every time
    signature of the part (mode 1: halve / one beat per bar; mode 2: another non-default number)"""
    import partitura.score as S

    out = {}
    for ts in part.iter_all(S.TimeSignature):
        default = {6: 2, 9: 3, 12: 4}.get(ts.beats, ts.beats)
        cands = [v for v in ((1, 2, 3) if mode == 1 else (3, 2, 5, 1)) if v != default]
        out["%d/%d" % (ts.beats, ts.beat_type)] = cands[0]
    return out


def beat_view(part):
    """what a caller sees of the beat structure of a part, read through the public interface only (independent of the
    fingerprint): mode flag, the time-signature objects and their three numbers, beat map and its inverse at sampled
    times, third column of time_signature_map, beat columns of the note array"""
    import partitura.score as S

    tss = [(id(t), t.start.t, t.beats, t.beat_type, t.musical_beats) for t in part.iter_all(S.TimeSignature)]
    out = {"mode": bool(part._use_musical_beat), "ts": tss}
    if part.first_point is not None and part.last_point is not None and part.first_point.t < part.last_point.t:
        a, b = part.first_point.t, part.last_point.t
        ts_ = sorted(set([a, b, (a + b) // 2, (a + 3 * b) // 4] + [t[1] for t in tss]))
        try:
            out["beat_map"] = [float(x) for x in np.atleast_1d(part.beat_map(ts_))]
            out["inv_beat_map"] = [float(x) for x in np.atleast_1d(part.inv_beat_map(out["beat_map"]))]
            out["ts_map"] = [[int(x) for x in part.time_signature_map(t)] for t in ts_ if a <= t < b]
        except Exception as e:
            out["maps"] = type(e).__name__
        try:
            na = part.note_array()
            out["beats"] = sorted(zip([str(x) for x in na["id"]], [float(x) for x in na["onset_beat"]],
                                      [float(x) for x in na["duration_beat"]]))
        except Exception as e:
            out["beats"] = type(e).__name__
    return out


def naarg_case(d, ev):
    """estimate_key / estimate_spelling / estimate_voices with a structured NOTE ARRAY argument (documented form) that
    contains notes of duration zero: the caller's array must be byte-for-byte what it was, the result must not alias it,
    a second call on it gives the same result, and the result equals the one on a private copy of the array"""
    import partitura.score as S
    from partitura.musicanalysis import estimate_spelling, estimate_voices, estimate_key

    rng = random.Random(d["seed"])
    sd = G.random_score_desc(rng, nparts=1, n_measures=rng.randint(2, 4), p_uneven=0.0, p_grace=0.3, p_rest=0.05)
    part = G.build_score(sd).parts[0]
    if d["zero"] != "grace" and rng.random() < 0.5:
        part.use_musical_beat()
    try:
        na = part.note_array()
    except Exception as e:
        ev.info = {"raised": {"note_array": type(e).__name__}}
        ev.key = "naarg:%s" % d["zero"]
        return
    if len(na) == 0:
        ev.info = {"raised": {}, "empty": True}
        ev.key = "naarg:%s" % d["zero"]
        return
    na = na.copy()
    dur_fields = [f for f in na.dtype.names if f.startswith("duration_")]
    if d["zero"] == "all":          # an onset-only array: no note has a duration
        for f in dur_fields:
            na[f] = 0
    elif d["zero"] == "some" or not (na["duration_div"] == 0).any():
        idx = rng.sample(range(len(na)), max(1, len(na) // 4))   # as grace notes / zero-length notes appear in an array
        for f in dur_fields:
            na[f][idx] = 0
    nzero = int((na["duration_beat"] == 0).sum())
    calls = {"estimate_key": lambda a: estimate_key(a), "estimate_key_temperley": lambda a: estimate_key(a, key_profiles="temperley"),
             "estimate_spelling": lambda a: estimate_spelling(a), "estimate_voices": lambda a: estimate_voices(a)}
    names = sorted(calls)
    rng.shuffle(names)
    raised = {}
    for nm in names + names[::-1]:
        before = na.copy()
        ref_in = na.copy()
        try:
            r = calls[nm](na)
        except BaseException as e:
            if isinstance(e, (KeyboardInterrupt, SystemExit)):
                raise
            raised[nm] = type(e).__name__
            r = None
        if before.tobytes() != na.tobytes() or before.dtype != na.dtype:
            ch = [f for f in na.dtype.names if before[f].tobytes() != na[f].tobytes()]
            ev.oracle.append("%s modified the note array it was given (%d notes, %d with duration zero; mode %s): fields %s changed, "
                             "e.g. %s -> %s" % (nm, len(na), nzero, d["zero"], ch, before[ch[0]].tolist()[:8] if ch else "",
                                                na[ch[0]].tolist()[:8] if ch else ""))
            na[...] = before
            continue
        if r is None:
            continue
        if isinstance(r, np.ndarray) and (r is na or np.shares_memory(r, na)):
            ev.oracle.append("%s returned an array that shares memory with its note-array argument" % nm)
        try:
            r2 = calls[nm](ref_in)
        except BaseException as e:
            if isinstance(e, (KeyboardInterrupt, SystemExit)):
                raise
            ev.oracle.append("%s works on a note array and raises %s on an equal copy of it" % (nm, type(e).__name__))
            continue
        if canon_result(r) != canon_result(r2):
            ev.oracle.append("%s gives different results on a note array and on an equal copy of it" % nm)
    ev.info = {"raised": raised, "zeros": nzero, "n": len(na)}
    ev.key = "naarg:%s" % d["zero"]


def frame_case(d, ev):
    import partitura.score as S
    import partitura.performance as P

    rng = random.Random(d["seed"])
    if d["what"] == "performance":
        pps = []
        for i in range(rng.randint(1, 3)):
            notes = []
            t = 0.0
            for j in range(rng.randint(1, 12)):
                t += rng.choice([0.0, 0.125, 0.25, 0.5])
                notes.append({"midi_pitch": rng.randint(30, 90), "note_on": t, "note_off": t + rng.choice([0.125, 0.5, 1.0]),
                              "velocity": rng.randint(1, 127), "track": i, "channel": rng.randint(0, 3), "id": "n%d_%d" % (i, j)})
            controls = [{"number": 64, "value": rng.randint(0, 127), "time": rng.random() * 4, "track": i, "channel": 0}
                        for _ in range(rng.randint(0, 4))]
            try:
                pps.append(P.PerformedPart(notes, id="pp%d" % i, controls=controls))
            except ValueError:
                # construction failures belong to C14 (pedal / re-strike clipping), not to C20
                pps.append(P.PerformedPart(notes, id="pp%d" % i))
        obj = P.Performance(pps)
        eps = performance_entry_points(obj)
        fp = lambda: {"perf": G.fingerprint_performance(obj), "ids": [id(p) for p in obj.performedparts],
                      "attrs": sorted(k for k in vars(obj))}
    else:
        sd = G.random_score_desc(rng, nparts=1 if d["what"] == "part" else rng.randint(1, 3), n_measures=rng.randint(2, 4),
                                 p_uneven=rng.choice([0.0, 0.4]))
        for pd in sd["parts"]:
            if rng.random() < 0.5:
                add_repeat(pd, rng)
            if d.get("nav"):
                add_navigation(pd, rng)
            if d.get("no_measures"):
                pd["measures"] = []   # a part assembled with Part.add() only: time signature, notes, no Measure objects
        # the argument may come with a HISTORY (reads in the middle of its construction, notes placed wrongly first and
        # re-added, ties set last: gen_score.build_part `warm`); a twin with the same content and no history is kept
        # to compare every result with ("gives an identical result" must not depend on what was read before)
        twin = None
        if d.get("warm"):
            cold = G.build_score(copy.deepcopy(sd))
            twin = cold.parts[0] if d["what"] == "part" else cold
            for pd in sd["parts"]:
                pd["warm"] = d["warm"]
        score = G.build_score(sd)
        if d.get("segments"):
            # the segmentation is stored on the part (documented in-place: add_segments / Part.segments) BEFORE the
            # read-only calls: they must use it without rewriting it
            for p_ in score.parts:
                try:
                    S.add_segments(p_)
                except Exception:
                    pass
            if twin is not None:
                for p_ in ([twin] if isinstance(twin, S.Part) else twin.parts):
                    try:
                        S.add_segments(p_)
                    except Exception:
                        pass
        if d.get("mb"):
            for p_ in list(score.parts) + ([] if twin is None else [twin] if isinstance(twin, S.Part) else list(twin.parts)):
                p_.use_musical_beat(custom_musical_beats(p_, d["mb"]))
        obj = score.parts[0] if d["what"] == "part" else score
        eps = score_entry_points(obj, rng)
        if d.get("mb"):
            _parts = [obj] if isinstance(obj, S.Part) else list(obj.parts)
            fp = lambda: {"fp": G.fingerprint_score(obj, with_ids=True), "beat_view": {str(i_): beat_view(p_) for i_, p_ in enumerate(_parts)}}
        else:
            fp = lambda: G.fingerprint_score(obj, with_ids=True)
        if twin is not None and G.fingerprint_score(twin) != G.fingerprint_score(obj):
            ev.oracle.append("history: a %s built with reads in between differs from the same %s built without: %s" % (
                d["what"], d["what"], fp_diff(G.fingerprint_score(twin), G.fingerprint_score(obj))))
            twin = None
    names = sorted(eps)
    rng.shuffle(names)
    order = names + names[::-1]  # every entry point twice, the second round in another order
    results = {}
    raised = {}
    epoch = 0  # bumped whenever the argument was modified: results are only comparable within an epoch
    base = fp()
    for nm in order:
        try:
            r = canon_result(eps[nm](obj))
            err = None
        except BaseException as e:
            if isinstance(e, (KeyboardInterrupt, SystemExit)):
                raise
            r, err = None, "%s" % type(e).__name__
        now = fp()
        if now != base:
            ev.oracle.append("%s modified its argument (%s): %s" % (nm, d["what"], fp_diff(base, now)))
            base = now
            epoch += 1
        if err:
            raised[nm] = err
        elif nm in results and results[nm][0] == epoch:
            if results[nm][1] != r:
                ev.oracle.append("%s is not repeatable: second call on the same %s gives a different result" % (nm, d["what"]))
        else:
            results[nm] = (epoch, r)
    # ---- the same entry points on the twin without history give the same results
    if d["what"] != "performance" and twin is not None:
        teps = score_entry_points(twin, rng)
        for nm in names:
            if nm not in results or results[nm][0] != 0:
                continue  # raised, or the argument had been modified before this result was taken
            try:
                r = canon_result(teps[nm](twin))
            except BaseException as e:
                if isinstance(e, (KeyboardInterrupt, SystemExit)):
                    raise
                ev.oracle.append("history: %s works on a %s with a read/edit history and raises %s on the same %s without" % (
                    nm, d["what"], type(e).__name__, d["what"]))
                continue
            if r != results[nm][1]:
                ev.oracle.append("history: %s on a %s that was read from / re-edited while it was built (warm=%s) differs from "
                                 "%s on an equal %s without that history: %s" % (
                                     nm, d["what"], d["warm"], nm, d["what"], fp_diff(r, results[nm][1]) or "results differ"))
        for nm, err in raised.items():
            if nm in teps:
                try:
                    teps[nm](twin)
                    ev.oracle.append("history: %s raises %s on a %s with a read/edit history and works on the same %s without" % (
                        nm, err, d["what"], d["what"]))
                except BaseException as e:
                    if isinstance(e, (KeyboardInterrupt, SystemExit)):
                        raise
    # ---- results are independent objects: in-place operations on a RESULT (their input) must not reach the ARGUMENT
    if d["what"] != "performance" and d.get("edit_result"):
        edit_results(obj, d, ev, fp)
    # ---- array arguments: a view of a note array must copy (the argument array is left alone and not aliased)
    if d["what"] != "performance":
        import partitura.score as S
        import partitura.utils.music as M

        part0 = obj if isinstance(obj, S.Part) else (obj.parts[0] if len(obj.parts) else None)
        if part0 is not None and len(part0.notes_tied) > 0:
            na = part0.note_array()
            lo = float(na["onset_beat"].min())
            hi = float((na["onset_beat"] + na["duration_beat"]).max())
            for (a, b) in ((lo - 1.0, hi - 0.25), (lo - 1.0, hi + 1.0), (lo + 0.25, hi - 0.25)):
                before = na.copy()
                try:
                    sl = M.slice_notearray_by_time(na, a, b, clip_onset_duration=True)
                except Exception as e:
                    raised["slice_notearray_by_time"] = type(e).__name__
                    continue
                if before.tobytes() != na.tobytes():
                    ev.oracle.append("slice_notearray_by_time modified its argument array (window %s..%s, %d notes)" % (a, b, len(na)))
                    break
                if isinstance(sl, np.ndarray) and (sl is na or np.shares_memory(sl, na)):
                    ev.oracle.append("slice_notearray_by_time returned a view of its argument (window %s..%s covers %d of %d notes): "
                                     "writing to the result would modify the argument" % (a, b, len(sl), len(na)))
                    break
    ev.info = {"raised": raised, "order": order[: len(names)]}


def forms_case(d, ev):
    """every read-only entry point of the registry (c20_forms.discover) on ONE argument form of the documented
    ScoreLike / PerformanceLike union: called twice (second round in reverse order); the frame is taken over everything
    the argument reaches AND everything that owns it (the Score / Performance a part was taken out of, the group it sits
    in, the list / tuple object itself)"""
    import inspect

    rng = random.Random(d["seed"])
    if d["side"] == "S":
        arg, parts, groups, score, seq = F.build_score_form(d["form"], rng)
        fp = lambda: F.fp_score_form(parts, groups, score, seq)
    else:
        arg, pps, perf, seq = F.build_perf_form(d["form"], rng)
        fp = lambda: F.fp_perf_form(pps, perf, seq)
    eps, info = F.entry_points(d["side"])
    names = sorted(eps)
    rng.shuffle(names)
    order = names + names[::-1]
    results, raised, ok = {}, {}, set()
    epoch = 0
    base = fp()
    what = "%s form '%s'" % ("ScoreLike" if d["side"] == "S" else "PerformanceLike", d["form"])
    for nm in order:
        try:
            r = eps[nm](arg)
            if inspect.isgenerator(r):
                r = list(r)
            r = F.canon_score_result(r, canon_result) if d["side"] == "S" else canon_result(r)
            err = None
        except BaseException as e:
            if isinstance(e, (KeyboardInterrupt, SystemExit)):
                raise
            r, err = None, type(e).__name__
        now = fp()
        if now != base:
            ev.oracle.append("%s modified its argument (%s): %s" % (nm, what, fp_diff(base, now)))
            base = now
            epoch += 1
        if err:
            raised[nm] = err
        elif nm in results and results[nm][0] == epoch:
            ok.add(nm)
            if results[nm][1] != r:
                ev.oracle.append("%s is not repeatable: second call on the same argument (%s) gives a different result" % (nm, what))
        else:
            results[nm] = (epoch, r)
    ev.info = {"raised": {"%s[%s]" % (k_, d["form"]): v for k_, v in raised.items()}, "form": d["form"], "side": d["side"],
               "accepted": sorted(ok), "registry": {k_: v for k_, v in info.items() if k_ != "skipped"}}


def pairs_case(d, ev):
    """the entry points that take a score-like AND a performance-like argument (save_match, save_parangonada_csv,
    encode_performance, make_performance_features — found by c20_forms.discover as `paired`): every combination of a
    ScoreLike form of one part with a PerformanceLike form of its performance; both arguments are framed"""
    import partitura.score as S
    import partitura.performance as P
    import partitura.utils.music as M

    rng = random.Random(d["seed"])
    pd = G.random_part_desc(rng, pid="P0", n_measures=rng.randint(1, 2), alters=(-1, 0, 0, 1), p_grace=0.0)
    reg = F.discover()
    paired = {n: e["fn"] for n, e in reg.items() if e["status"] == "readonly" and len(e["params"]) > 1}
    recipes = {
        "save_match": lambda f, al, pa, sa: [str(l.matchline) for l in f(al, pa, sa, out=None, assume_unfolded=True).lines],
        "save_parangonada_csv": lambda f, al, pa, sa: f(al, pa, sa, outdir=None),
        "encode_performance": lambda f, al, pa, sa: f(sa, pa, al),
        "make_performance_features": lambda f, al, pa, sa: f(sa, pa, al, feature_functions="all"),
    }
    sforms = {"part": lambda p: p, "score": lambda p: S.Score([p]), "list": lambda p: [p],
              "group": lambda p: F._group(S, [p], 1)}

    def off_track(pp):
        for n in pp.notes:
            n["track"] = 2
        return pp

    pforms = {"performance": lambda pp: P.Performance([pp]), "ppart": lambda pp: pp, "pplist": lambda pp: [pp],
              "ppart_offset_track": off_track}
    checked = []
    for sf in sorted(sforms):
        for pf in sorted(pforms):
            part = G.build_part(copy.deepcopy(pd))
            try:
                pp = M.performance_from_part(part, bpm=100)
            except Exception:
                return
            al = [{"label": "match", "score_id": n.id, "performance_id": n.id} for n in part.notes_tied]
            sa, pa = sforms[sf](part), pforms[pf](pp)
            al0 = copy.deepcopy(al)
            fp = lambda: (G.fingerprint_part(part, with_ids=True)["objects"], G.fingerprint_part(part)["points"],
                          F.fp_perf_form([pp], pa if isinstance(pa, P.Performance) else None, pa if isinstance(pa, list) else None))
            base = fp()
            for nm in sorted(paired):
                if nm not in recipes:
                    continue
                res = []
                for _ in range(2):
                    try:
                        res.append(canon_result(recipes[nm](paired[nm], al, pa, sa)))
                    except BaseException as e:
                        if isinstance(e, (KeyboardInterrupt, SystemExit)):
                            raise
                        res.append(("raised", type(e).__name__))
                    now = fp()
                    if now != base:
                        side = "score" if now[:2] != base[:2] else "performance"
                        ev.oracle.append("%s modified its %s argument (forms %s x %s): %s" % (
                            nm, side, sf, pf, fp_diff(list(base), list(now))))
                        base = now
                        res = []
                        break
                    if al != al0:
                        ev.oracle.append("%s modified its alignment argument (forms %s x %s)" % (nm, sf, pf))
                        al0 = copy.deepcopy(al)
                if len(res) == 2 and res[0] != res[1]:
                    ev.oracle.append("%s is not repeatable: second call on the same arguments (forms %s x %s) gives a different result" % (nm, sf, pf))
                if len(res) == 2 and not (isinstance(res[0], tuple) and res[0][:1] == ("raised",)):
                    checked.append("%s[%s x %s]" % (nm, sf, pf))
    ev.info = {"accepted": checked, "form": "pairs", "raised": {},
               "unknown_paired": sorted(n for n in paired if n not in recipes)}


def refs_case(d, ev):
    """the copying step of ScoreVariant.create_variant_part on a random graph of real Note / GraceNote / Slur / Tuplet
    objects: `copy(o)` for the chosen objects, then `replace_refs(o_map)` on every copy.  Observed: every reference
    attribute (in `_ref_attrs` order) of every object afterwards — None, the object referred to, or a list with its
    contents and whether it is one of the list objects that existed before the step (S) or a new one (F).  The Lean
    model (Model/RefHeap.lean, `variant`) must give the same heap; the oracle appends to every list of every copy and
    requires the originals to be unchanged."""
    import copy as _copy
    import partitura.score as S

    objs = []
    for i in range(d["notes"]):
        objs.append(S.GraceNote("grace", "C", 4, id="n%d" % i) if d["grace"][i] else S.Note("C", 4, id="n%d" % i))
    for kind, a, b in d["links"]:
        if kind == "slur":
            objs.append(S.Slur(objs[a], objs[b]))
        elif kind == "tuplet":
            objs.append(S.Tuplet(objs[a], objs[b]))
        elif a < b and objs[a].tie_next is None and objs[b].tie_prev is None:
            # (ties go forward and form chains: a cycle is not a score, and formatting the "reference not found"
            # warning of replace_refs would recurse through it)
            objs[a].tie_next = objs[b]
            objs[b].tie_prev = objs[a]
    n0 = len(objs)
    # the heap before the step: a cell address for every list object, in (object, attribute) order
    cell_of, cells, attrs_tok = {}, [], []
    index = {id(o): i for i, o in enumerate(objs)}
    for o in objs:
        toks = []
        for a in o._ref_attrs:
            v = getattr(o, a)
            if v is None:
                toks.append("n")
            elif isinstance(v, list):
                if id(v) not in cell_of:
                    cell_of[id(v)] = len(cells)
                    cells.append(v)
                toks.append("l %d" % cell_of[id(v)])
            else:
                toks.append("s %d" % index[id(v)])
        attrs_tok.append("%d %s" % (len(toks), " ".join(toks)) if toks else "0")
    cells_tok = " ".join("%d %s" % (len(c), " ".join(W.opt(W.i, index.get(id(x))) for x in c)) if c else "0" for c in cells)
    before = [[index.get(id(x)) for x in c] for c in cells]
    old_lists = list(cells)  # kept alive: their ids cannot be reused
    old_ids = set(id(c) for c in old_lists)
    chosen = [objs[i] for i in d["copy"]]
    copies = [_copy.copy(o) for o in chosen]
    o_map = dict(zip(chosen, copies))
    import warnings as _w
    with _w.catch_warnings():
        _w.simplefilter("ignore")
        for c in copies:
            c.replace_refs(o_map)
    allobjs = objs + copies
    index = {id(o): i for i, o in enumerate(allobjs)}

    def fmt(o):
        out = []
        for a in o._ref_attrs:
            v = getattr(o, a)
            if v is None:
                out.append("-")
            elif isinstance(v, list):
                out.append(("lS" if id(v) in old_ids else "lF") + W.f_list(lambda x: W.f_opt(W.f_int, index.get(id(x))), v))
            else:
                out.append("s%d" % index[id(v)] if id(v) in index else "s?")
        return W.f_list(lambda x: x, out)

    ev.requests.append("refs %d %s %d %s %s" % (n0, " ".join(attrs_tok), len(cells), cells_tok,
                                                W.lst(W.i, d["copy"])))
    ev.impl.append(W.f_list(fmt, allobjs))
    # oracle: lists of copies are new objects; in-place edits of them do not reach the originals
    for ci, c in enumerate(copies):
        for a in c._ref_attrs:
            v = getattr(c, a)
            if isinstance(v, list):
                if id(v) in old_ids:
                    ev.oracle.append("alias: after copy + replace_refs the copy of object %d still holds the original's %s list" % (d["copy"][ci], a))
                v.append(None)
    after = [[index.get(id(x)) for x in c] for c in old_lists]
    if after != before:
        ev.oracle.append("alias: appending to the lists of the copies changed a list of an original object: %r -> %r" % (before, after))
    ev.key = "refs:%s" % (ev.requests[-1],)


def edit_results(obj, d, ev, fp):
    """take the score-valued results (unfoldings, transposition), apply documented in-place operations to THEM, and
    require the argument to stay as it was: only the input of an in-place operation may change"""
    import partitura.score as S
    import partitura.utils.music as M

    part = obj if isinstance(obj, S.Part) else (obj.parts[0] if len(obj.parts) else None)
    if part is None:
        return
    rng = random.Random(d["seed"] + 7)
    makers = {
        "unfold_part_maximal": lambda: S.unfold_part_maximal(part),
        "unfold_part_minimal": lambda: S.unfold_part_minimal(part),
        "iter_unfolded_parts": lambda: list(S.iter_unfolded_parts(part))[-1],
        "unfold_part_maximal(update_ids)": lambda: S.unfold_part_maximal(part, update_ids=True),
        "transpose": lambda: M.transpose(part, S.Interval(2, "M")),
        "unfold_part_maximal(score)": lambda: S.unfold_part_maximal(obj) if isinstance(obj, S.Score) else S.unfold_part_maximal(part),
    }
    for nm in sorted(makers):
        base = fp()
        try:
            res = makers[nm]()
        except BaseException as e:
            if isinstance(e, (KeyboardInterrupt, SystemExit)):
                raise
            continue
        rp = res.parts[0] if isinstance(res, S.Score) else res
        if fp() != base:
            return  # reported by the frame clause already
        notes = list(rp.notes)
        done = []

        def attempt(label, f):
            try:
                f()
                done.append(label)
            except BaseException as e:
                if isinstance(e, (KeyboardInterrupt, SystemExit)):
                    raise

        if len(notes) >= 2:
            a, b = sorted(rng.sample(range(len(notes)), 2))
            attempt("Slur", lambda: rp.add(S.Slur(notes[a], notes[b]), notes[a].start.t, notes[b].end.t))
            a, b = sorted(rng.sample(range(len(notes)), 2))
            attempt("Tuplet", lambda: rp.add(S.Tuplet(notes[a], notes[b], actual_notes=3, normal_notes=2), notes[a].start.t, notes[b].end.t))
        if notes:
            n = rng.choice(notes)
            attempt("attributes", lambda: (setattr(n, "voice", 9), setattr(n, "staff", 3), setattr(n, "step", "B"),
                                           setattr(n, "symbolic_duration", {"type": "long", "dots": 0})))
            attempt("remove", lambda: rp.remove(rng.choice(notes)))
        attempt("add", lambda: rp.add(S.Note("C", 4, id="added"), 1, 3))
        attempt("KeySignature", lambda: rp.add(S.KeySignature(3, "major"), 0))
        attempt("set_quarter_duration", lambda: rp.set_quarter_duration(0, rp._quarter_durations[0] * 2))
        attempt("tie_notes", lambda: S.tie_notes(rp))
        attempt("add_measures", lambda: S.add_measures(rp))
        attempt("fill_rests", lambda: S.fill_rests(rp))
        attempt("use_musical_beat", lambda: rp.use_musical_beat())
        now = fp()
        if now != base:
            ev.oracle.append("alias: in-place operations on the RESULT of %s (%s) changed the argument it was made from (%s): %s" % (
                nm, ", ".join(done), d["what"], fp_diff(base, now)))
            return


def finding_key(d, f):
    if d["k"] == "frame":
        return "frame:" + f.split(" ")[0] + ":" + ("modified" if "modified" in f else "repeat")
    if d["k"] == "naarg":
        return "naarg:" + f.split(" ")[0] + ":" + ("modified" if "modified" in f else "other")
    if d["k"] == "slice":
        return "slice:" + ("modified" if "modified its argument" in f else "view" if "view of its argument" in f else "repeat")
    return d["k"] + ":" + f.split(":")[0]


def shrink(d):
    if d["k"] == "proto":
        ops = d["ops"]
        for i in range(len(ops)):
            if ops[i][0] == "iter":
                continue
            yield dict(d, ops=ops[:i] + ops[i + 1:])


def distribution(descs, results):
    from collections import Counter

    c = Counter(d["k"] + ":" + str(d.get("what", d.get("kind", d.get("form", "")))) for d in descs)
    raised = Counter()
    accepted = Counter()     # entry point x argument form on which both calls returned (the frame was checked on all)
    registry = {}
    for r in results:
        info = r.get("info") or {}
        for nm, e in info.get("raised", {}).items():
            raised[nm + ":" + e] += 1
        for nm in info.get("accepted", []):
            accepted["%s[%s]" % (nm, info.get("form"))] += 1
        if info.get("registry"):
            registry[info.get("side")] = info["registry"]
    # shapes of the Lean-tied streams
    tree_depth = Counter()
    def depth(x):
        return 0 if x[0] == "p" else 1 + max([depth(c_) for c_ in x[1]] + [0])
    ops3, staves_ops, perf_tracks, slice_shapes = Counter(), Counter(), Counter(), Counter()
    for d in descs:
        if d["k"] == "argforms":
            tree_depth["%s/depth%d" % (d["form"], max([depth(x) for x in d["tree"]] + [0]))] += 1
        elif d["k"] == "proto3":
            for op in d["ops"]:
                ops3[op[0]] += 1
        elif d["k"] == "staves":
            for op in d["ops"]:
                staves_ops[op[0]] += 1
        elif d["k"] == "slice":
            s_, e_ = d["s"], d["e"]
            act = [r for r in d["rows"] if (s_ <= r[0] < e_) or (r[0] < s_ < r[0] + r[1])]
            early = [r for r in act if r[0] < s_]
            slice_shapes["%s/%s/%s/%s" % (d["shape"], "clip" if d["clip"] else "noclip",
                                          "empty" if not act else ("all" if len(act) == len(d["rows"]) else "some"),
                                          "early" if early else "noearly")] += 1
        elif d["k"] == "perfforms":
            canon = all(t == 0 for pp in d["pps"] for t in pp["notes"])
            perf_tracks["%s/%s/%s" % (d["form"], "ensure" if d["ensure"] else "keep", "canonical" if canon else "noncanonical")] += 1
    forms, missing = F.form_table()
    return {"by_kind": dict(c), "entry_points_that_raised": dict(raised), "entry_point_x_form_checked": dict(accepted),
            "registry": registry, "forms_generated": ["%s:%s" % f for f in forms], "forms_without_builder": missing,
            "argforms_shapes": dict(tree_depth), "proto3_ops": dict(ops3), "staves_ops": dict(staves_ops),
            "perfforms_shapes": dict(perf_tracks), "slice_shapes": dict(slice_shapes)}
