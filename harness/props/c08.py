"""C08 - saving an alignment as a match file and loading it returns the same data.

Reading of the property (what the oracle demands; chosen so that minimally repaired code is right):

* Equality is up to what the format stores.  Performance times are stored in MIDI ticks of the file's
  clock (units = ppq, rate = mpq): the loaded tick of an event is the nearest tick of the saved time in
  seconds (ties of x.5 either way: the binary64 product is not modelled), the loaded seconds are that
  tick converted back, and the loaded performed part carries the file's ppq and mpq.  Performed notes are
  compared by id (the order of notes in the loaded part is the order of lines in the file), pedal events
  as the time-ordered sequences of sustain (64) and soft (67) events; other controllers are not stored.
* Domain (what a "partial alignment" is): every performed note occurs in exactly one entry of kind
  match / insertion / ornament, every score note in at most one entry of kind match / deletion, ornaments
  refer to any score note; at least one score note is stored (a match or a deletion: without one there is no
  score to load).  Alignments WITHOUT any match, or whose only matches are grace notes, are part of the domain
  (fix C08-13: there is then no performance-time -> score-time map and the performed-only lines follow the score
  lines; with one matched onset the map is constant).  The score onsets that carry a matched non-grace note have
  distinct mean performed onsets (equal ones divide by zero inside scipy).  Performed note ids follow the
  format's convention `n<...>`.
  Score notes that occur in no match/deletion entry are not stored by the format, so they are not demanded
  back; neither are bars that hold no stored note (theorem `empty_bars_not_stored`: two scores that differ only
  in such bars are written to the same file).
* Score times are stored as measure:beat + offset (fraction of a whole note, numerator and denominator
  <= 1024: the format's FractionalSymbolicDuration approximates beyond that, so cases stay inside) and as
  beat times printed with four decimals.  Loaded score notes are demanded at the same onset IN BEATS and
  with the same duration in beats (tied duration of the note the alignment names), the same step / alter
  (None and 0 are the same) / octave, id, voice, staff, grace-ness, and the articulations the importer
  supports (staccato, accent).
  Independently of the loaded measure structure every stored note is also demanded at the same distance
  IN QUARTERS from the loaded origin (the first stored note if it is not after beat 0, else beat 0) and
  with the same duration in quarters, on integer division times.
  The reader's divisions are the lcm of the written offset/duration denominators; the distance of a bar line
  from the loaded origin is written nowhere as a fraction (only the four-decimal beat times tell it), so the
  score clauses are demanded when every bar line of a stored note lies on that grid (e.g. not for a pickup
  of two triplet eighths whose aligned notes are all quarters; theorem `barline_off_grid`), the signature clauses
  when moreover every signature after the origin lies on it.
* "measures at the same positions": for every saved measure holding a stored note whose start is not
  before the first stored note, the loaded part has a measure starting at the same beat.  The format
  stores no measure for a bar without a stored note (the reader extends the previous measure over it, so
  a pickup followed by such a bar is no longer recognisable): the clauses that compare BEAT positions and
  measures are applied only when every bar from the first to the last stored note holds a stored note (and the stored notes are not all in the pickup: an incomplete final bar);
  the quarter-position clauses always.
* "time and key signatures at the start of the bar where they were written": every saved signature that
  differs from the one before it is demanded, with the same content, at the same distance in quarters from
  the loaded origin (clipped to the origin), whether or not its bar holds a stored note; a signature that is
  replaced by the next one at or before the origin is not part of the loaded score.  A key signature's mode
  None is written as major.
* The written file itself must state the saved positions: beat times (four decimals) and measure numbers
  (counted from 0 with a pickup, else from 1) of snote and signature lines, beat numbers >= 1.
* Pedal events with the same tick and value are one line of text and are read once (exact duplicate lines
  are removed by the reader, as documented).
* De-duplication as documented in validate_match_ids: exact duplicate text lines are read once; if a
  score id occurs in several snote-carrying lines all DELETION lines with that id are dropped; if a
  performed id occurs in several note-carrying lines all INSERTION lines with that id are dropped;
  matches are always kept; nothing else is dropped, nothing is duplicated.
* Empty lines are skipped by the reader wherever they stand - also before the version line (fix C08-12): a
  written file with empty lines inserted anywhere loads to the same triple (kind "blank": the full round-trip
  oracle).
* Older formats (0.1.0 - 0.5.0; the exporter writes 1.0.0 only): the content of a generated case is written with
  the line classes of matchlines_v0 (kind "v0": info / meta / snote / note / trill / pedal lines built from the
  exporter's own line objects) and must load to the same alignment (every ornament is a trill there), performance
  and score.  The signature at the start of the score is the global info line of those formats (no position: in
  force from the loaded origin, fix C08-14), every later change a meta line (0.3.0 and later; cases with a change
  are written in one of those versions); deletions and insertions use the old sub-kinds (trailing_score_note,
  no_played_note, hammer_bounce, trailing_played_note) at random.  A quarter of these files also get duplicate /
  conflicting lines injected (de-duplication on the old formats).
* Every case runs under a limit of CPU time (60 s user+system; harness/cpulimit.py); a writer/reader that does not
  terminate is a failure.
* Round 4: performed times reach hours (late passages) and clocks are as fine as 10000 ticks per quarter at 60000
  microseconds per quarter; every written and loaded tick must be the nearest tick of the binary64 seconds of the
  saved note / control dictionaries (exact rational arithmetic, clauses perf / text-tick / pedal).  Ticks stay below
  2^31: PerformedPart.note_array stores them as int32 and raises beyond (outside this property).
* Round 4: "measures at the same positions" includes the END of the last bar that holds a stored note and that
  nothing was added (clauses measure-end / measure-extra / measure-chain, see oracle_measures): demanded when that
  bar is complete under the time signature in force at its start - the property's "complete final measure"; the
  format stores no measure lengths, so a reader can only close the last bar with that signature - and is not the
  pickup.  Measures AFTER it exist legitimately when something stored sounds or stands there (a stored note tied
  across the bar line, a later signature): add_measures fills the timeline; they are not judged.
* Round 5: the score's own `Measure.number` is whatever scores carry (by position, both halves of a split bar under
  one number, repeated numbers of an unfolded repeat, gaps, counts from 0 or 5, decreasing, arbitrary, None): the file
  numbers its measures by POSITION (0 or 1, 2, 3 ...; clause text-snote / text-sig as before) and every saved measure
  that holds a stored note is demanded back where it started (clauses measure / measure-extra / measure-end).
  A bar may be split in two measures by a double bar (never the first or the last bar).  When the FIRST bar holding
  a stored note is such a short half, Part.beat_map of the loaded score counts it as an anacrusis: the beat-position
  clauses are then not applied (the quarter-position clauses are); when the LAST stored bar is one, the reader closes
  it with the full bar length and measure-chain is not judged (the format stores no measure lengths).
* Round 5: durations and offsets are not only dyadic: quintuplets, septuplets and nonuplets mixed in one piece
  (divisions 20 ... 1008 per quarter, every written fraction within the format's bound of 1024); every loaded duration
  is demanded to the division (score-duration-q: exact fractions of a quarter).  Divisions with 5 | divs and 16 | divs are
  left out: there a beat time can be k/160 exactly, a decimal tie that `'%.4f'` resolves by the binary64 neighbour.
* Round 5 (kind "respell"): the durations / offsets of a written file re-spelled with tuple divisors (`1/4/3`) and
  additive components (`1/4+1/8`) - the spellings of hand-made and older files - load to the same score (all loaded-
  triple clauses; the text clauses do not apply to an edited text).
* Round 5: a score note without a voice / without a staff is not demanded back with one (the format stores nothing;
  the reader assigns voice 1 / max+1 and a staff by pitch - compared with the model, stream attrs); staff numbers of two
  digits come back as written (fix C08-18); ornaments, fermatas and fingerings on the snote line change nothing.
* Round 6: a time signature written INSIDE a measure (6/8 changing to 4/4 after two beats).  The format places a signature
  at the start of the bar where it was written (the property says so), so such a signature cannot come back where it was
  and the loaded beat count after it is not the saved one: for these scores (`midbar_ts`) the time-signature, measure and
  beat-position clauses are not applied; every stored note is still demanded at its saved distance IN QUARTERS from the
  loaded origin with its saved duration (score-onset-q / score-duration-q), and everything about the text, the
  performance and the alignment.  The beat number of a note is counted in the beat type in force AT THE NOTE, so the
  first line in the reader's order (measure, beat, offset) is then not the earliest note: fix C08-19 (the reader took
  `snotes[0]` as the earliest one and moved every note; Lean: first_line_is_earliest / first_line_not_earliest).
* Round 5 (kind "pid"): the id of a performed note as written and read (`format_pnote_id`) is stable: ids that follow the
  convention `n...` are kept, writing / reading twice changes nothing more.
"""
import io
import contextlib
import json
import math
import os
import random
import re
import tempfile
from fractions import Fraction

import wire as W
from core import Eval

PROPERTY = "C08"
DRIVER = "drv_c08"
PROPS = ["PartituraModel.Props.C08", "PartituraModel.Props.C08Mixed", "PartituraModel.Props.C08Order",
         "PartituraModel.Props.C08Format", "PartituraModel.Props.C08Last", "PartituraModel.Props.C08Round5", "PartituraModel.Props.C08Attr",
         "PartituraModel.Props.C08Compose", "PartituraModel.Props.C08Fallback"]
TRUSTED = [
    "C07 (line level): the text of a line <-> its fields; the correspondence reads the written text with its own "
    "regular expressions and the reader's input with the real line parsers; the synthesised old-format files are "
    "written by the line classes of matchlines_v0 themselves",
    "'%.4f' rendering of a beat time and float() of that text = nearest multiple of 1/10000 (model: dec4, exact "
    "rationals, ties to even).  A tie x.xxxx5 that is a binary64 number (denominator a power of two) is rounded the "
    "same way by Python; ties that are not (denominator 2^5 * 5^k) need 5 | divs and 16 | divs - such divisions are not "
    "generated",
    "binary64 arithmetic of part_from_matchfile: the POSITIONS in quarters (divs*(...) before round) are modelled in exact "
    "rationals; the implementation's values are within 1e-9 of the exact ones and never near a rounding boundary for "
    "the generated divisions (checked by the comparison, not proved).  The DURATIONS int(divs*4*num/(den*tup)) are "
    "modelled in binary64 (Model/MatchFloat.lean on C03's Model/Binary64.readFloat: correct rounding to 53 bits, ties "
    "to even, exponent range not modelled) and proved equal to the exact ones (durDivsF_exact); in the synthesised "
    "old-format files the beat times are binary64 reprs (since fix C08-17 the last bar is closed with the signature "
    "at its first stored note, so its END is compared for them too)",
    "Python's int(text) is modelled on plain ASCII digit strings and re's prefix matches v\\d+, \\d+, fingering\\d+ on "
    "ASCII digits (Model/MatchAttr.lean: what f'v{voice}' / f'staff{staff}' write); list membership / str.startswith as "
    "equality / prefix of character lists",
    "translate_c08.py reads the literal pieces by PROBING the live functions (defaults through inspect.signature, the "
    "rest through matchfile_from_alignment / part_from_matchfile on small probe scores); only the two name tuples of "
    "importmusicxml.get_articulations / get_ornaments are read from the syntax tree (first tuple of >= 5 strings)",
    "seconds_to_midi_ticks / midi_ticks_to_seconds: binary64 product modelled exactly (C12); times up to hours and "
    "clocks up to 10000 ticks per quarter / 60000 us per quarter keep the product below 2^31 ticks, far from where "
    "binary64 loses a tick (2^53); PerformedPart.note_array stores ticks as int32 (larger ticks: outside the domain)",
    "numpy: np.unique(return_index) keeps first occurrences in order after np.sort(idx); np.lexsort and "
    "list.sort are stable, NaN sorts after every number; np.lcm.reduce; np.isclose(a,b,atol) = |a-b| <= atol + "
    "1e-5*|b|; np.searchsorted",
    "scipy interp1d kind='previous' with fill values (first,last) and kind='linear' with extrapolation; "
    "partitura.utils.generic.interp1d returns the single value for a one-point map; the performance-time -> "
    "score-time map is built from float32 note-array columns: the model uses the float32 onsets exactly and exact "
    "means, keys are compared with tolerance 2e-4 and the order of the lines only when no two keys involving an "
    "interpolated one are closer than 1e-3",
    "Part.beat_map / time_signature_map / quarter_duration_map / iter_all of the score being written (C02, C10): "
    "modelled as the piecewise-linear beat function with the pickup shift",
    "score.add_measures / tie_notes / find_tuplets after the reconstruction (C11): only onsets, tied durations, "
    "the importer's own measures and the signatures are compared",
]
PARTIAL = [
    "bars_recovered / onset_roundtrip (all beat types) hold for written scores with fewer than 2500 divisions per "
    "quarter and conclude exactness under the explicit condition divisions * (1/(5000*beat type) + |knotErr|) < 1/2 "
    "(sum over the two notes a position is derived from): knotErr = 0 when the time-signature changes fall on beat "
    "times that four decimals hold exactly (bars_recovered_exact_changes: whole beats), |knotErr| <= changes/5000 "
    "always (knotErr_le); beyond that bound the format's four decimals do not determine the position",
    "the position theorems assume the true position lies on the reader's division grid (hgrid / hz): inherent - "
    "the reader's divisions come from the written fractions only (theorem barline_off_grid gives a score whose bar "
    "line is off that grid); the oracle applies the score clauses only on the grid",
    "bars_recovered: the first stored note of the bar must not start exactly at the end of the last stored note "
    "unless it lies in the stretch of the last time signature (hend; the importer's beat-type map carries an extra "
    "end point there) - mirrored by the model and compared",
    "composition (round 5): reconstruct_spec (every loaded note / bar line of the model's `reconstruct` is built from "
    "its own line and the first line of its bar by barTime / notePos / durDivs / importDivs - all inputs), "
    "roundtrip_durations (write-then-read, no side condition), roundtrip_onsets and roundtrip_bars (write-then-read; "
    "hypotheses: WrittenScore, stored notes at or after the first time signature, the grid condition, reader's "
    "divisions < 1250, time-signature changes on beat times four decimals hold - the general bound with knotErr stays "
    "in onset_roundtrip -, and hTS: the time-signature lines are read as written, i.e. every signature lies in a "
    "measure and none restates the one before it - a decidable condition on the score, discharged by `decide` in the "
    "example, not proved from a well-formedness predicate) are PROVED.  Round 6 (Props/C08Fallback.lean): the OnsetInBeats "
    "fallback of part_from_matchfile is now inside the composition - reconstruct_onset_spec (all inputs: the two numbers "
    "the reader compares for each note, which one it keeps and the flag it records), fallback_quiet (two positions whose "
    "beat times were rounded to four decimals pass isclose(atol = divs/100)), roundtrip_onsets_exact / roundtrip_onsets_all: "
    "under the hypotheses of roundtrip_onsets and nothing more, NO fallback flag is set and EVERY loaded onset is the "
    "saved distance from the loaded origin (the origin: the EARLIEST line if before beat 0, fix C08-19).  Not proved: the "
    "positions of the signatures and the end of the last bar in the composition (last_bar_closed is about the piece), hTS "
    "from a well-formedness predicate, and - the tie itself - that part_from_matchfile is `reconstruct`: COMPARED (requests "
    "dec / decn / decr / durf / attrs on the text side, rtq / rtn end to end; the number of fallbacks of the "
    "implementation is compared there too: always 0)",
    "time signatures INSIDE a measure (round 6): the quarter positions, durations, text, performance and alignment are "
    "judged and compared with the model (every 8th generated case gets such a variant: 41 of 441 scores of a quick run; never in the first "
    "measure: a change there decides whether Part.beat_map counts the measure as a pickup and moves the reader's zero of "
    "the quarter axis off beat 0 - Score.quarters of the model is the reader's axis); the loaded time signatures, "
    "measures and beat positions of such scores are NOT judged (the format puts a signature at the start of its bar).  "
    "first_line_is_earliest / repair_conservative (the unrepaired reader was right on scores with laid-out measures and "
    "signatures at measure starts) are proved, first_line_not_earliest is the witness of F-C08-19",
    "order of the written lines: line_order (permutation, sorted by the documented key, stable) and "
    "time_map_places (the map passes through the matched onsets and is monotone when they are performed in score "
    "order) are proved; the knots themselves (means of float32 onsets per score onset, grace-only onsets left out) "
    "and the float32/float64 arithmetic of scipy are compared only",
    "bars without a stored note: inherent (theorem empty_bars_not_stored); the reader extends the previous measure "
    "over them; the beat-position and measure clauses of the oracle are restricted to alignments that touch every "
    "bar between their first and last stored note",
    "last_bar_closed (end of the last stored bar) assumes, like bars_recovered, that both bar lines lie on the reader's "
    "division grid and that the bar is complete under the signature in force at its first stored note; that "
    "`reconstruct` feeds it the first note of the last bar is compared (requests dec / rtq), the measures add_measures "
    "appends after that bar when something stored sounds or stands later are not modelled (C11) and not judged",
    "tick_stable / tick_moves speak about exact rationals; that the implementation takes the seconds from the note "
    "dictionaries (binary64) and not from a narrower copy is what the oracle clauses perf / text-tick check on late "
    "passages and fine clocks",
    "FractionalSymbolicDuration.bound_integers (numerator or denominator > 1024; the bound itself is regenerated: "
    "lits_extracted) is outside the generated domain",
    "durDivsF_exact / loaded_durations_exact need divisions*4*numerator < 2^53 (binary64 integers); components_sum "
    "needs every additive component on the reader's grid (true for the reader's own divisions: the denominator of a "
    "sum is the lcm of its components' denominators - FractionalSymbolicDuration.__add__ is not modelled, the harness "
    "sends the summed numerator / denominator the parser produced)",
    "attrs_roundtrip assumes articulation / ornament names that are `plain` (not `s`, `stac`, `leftOutTied`, `grace`, "
    "no prefix `staff`, `v<digit>`, <digit>): decidable; all names of the live MusicXML tables are "
    "(musicxml_names_plain).  Fingerings and ornaments are written but not demanded back (the reader keeps the first "
    "fingering only; not in the property); the tie mark is read (`tied`) but what tie_notes makes of it is C11",
    "Measure.number is not part of the model: the writer does not look at it (proved on the live code by the probe "
    "`secondMeasureDuplicate` of lits_extracted, and for the model by measure_numbers_by_position)",
    "the time-map knots are still exact means of the float32 onsets in the model (binary32 arithmetic of the mean "
    "itself not modelled): keys compared with a tolerance, see TRUSTED",
]
RULE = ("seeded random single-divs parts (13 dyadic/triplet division values; 30% RICH pieces: divisions 20 ... 1008 whose notes mix "
        "quintuplet, septuplet, nonuplet ... units, durations 1-7 units; 18 time signatures x/2 ... x/16 incl. changes of the beat "
        "type, pickups, changes of time and key signature at bar starts, 1-9 bars, 12% planned shapes: a long stretch in "
        "a metre counted in eighths/sixteenths (or quarters/halves) followed by a short final section in the other kind; "
        "12% with a bar split in two measures by a double bar (optionally a key signature there); Measure.number by position "
        "(42%) or: shared by the halves of a split bar, duplicated, repeating (unfolded), with gaps, from 0 / from k, "
        "decreasing, random, None, partly None; "
        "1-3 voices (6% without a voice number, 8% two-digit numbers), 1-2 staves (6% none, 8% two-digit numbers), chords, ties within and across "
        "bars, grace notes, rests, articulations, 30% with ornaments / fermatas / fingerings; 30% built through "
        "a construction history with read-only views in between, gen_score 'warm') x random performances (tick grid and "
        "off grid, 6 ppq x 6 mpq choices, 30% LATE passages one minute to eight hours into the recording on clocks up "
        "to 10000 ticks per quarter and down to 60000 us per quarter, sustain/soft/other controllers incl. duplicates, "
        "30% with the performed part's views read before writing) x random alignments (match/deletion/omitted, insertions, "
        "ornaments, shuffled; 5% without any match, 3% with a single match); every 4th case is re-read after injecting "
        "duplicate / conflicting lines; every 7th with empty lines inserted (also before the version line); every 3rd "
        "is also written as a version 0.1.0-0.5.0 file with the line classes of matchlines_v0 and loaded (a quarter "
        "of those with injected duplicates); every 6th is re-read with its durations / offsets re-spelled with tuple "
        "divisors and additive components; every 8th also with a time signature INSIDE a measure (at a stored onset "
        "that has a stored onset before it in its bar, preferring points and beat types that give the later note "
        "the smaller beat number, else 70% a coarser beat type; 60% or more with nothing stored before that bar, so that "
        "its lines open the file; own random stream - the other cases are what they were); 2 lists of 40 arbitrary performed-note ids; plus the repository's match files. "
        "distinct = distinct sub-seed (or file) and kind; non-trivial = a file was written and read")
LEVEL_TEXT = ("Lean 4 theorems about an executable model of the match-file time arithmetic (exporter: measure:beat + "
              "offset/duration fractions; importer: divisions = lcm of denominators, beats->quarters map over time "
              "signatures of mixed beat types, bar starts from the first note of each bar, round(divs * position), the last "
              "bar closed with the signature at its first note), the tick arithmetic (a tick survives a perturbation of "
              "the seconds iff it stays below half a tick), the reader's de-duplication rule, the alignment extraction and the order of the written lines, for all "
              "inputs, plus theorems stating what the format cannot hold (bars without a stored note, bar lines off the "
              "reader's grid); round 5: the COMPOSITION of the pieces (reconstruct_spec; write-then-read roundtrip_durations, "
              "roundtrip_onsets, roundtrip_bars; round 6: roundtrip_onsets_all - the reader's OnsetInBeats fallback "
              "never overrides a written position, every loaded onset is exact, with no assumption about the order of the "
              "lines since fix C08-19), the loaded durations in binary64 (exact whenever one rounded division follows "
              "exact integer products), measure numbers by position and one bar per distinct number, the score attributes "
              "(voice, staff, staccato / accent, grace through the attribute list, for every note and every plain name), "
              "performed-note ids, pedal lines, and the literal pieces of the live source regenerated on every run "
              "(Gen/C08Lits.lean: defaults, header order, pedal controllers, measure numbering, decimals, fraction bound, MusicXML "
              "name tables, supported articulations, staff numbers); the model is tied to the code by comparing, on generated scores/performances/alignments "
              "(1.0.0 files written by save_match, 0.1.0-0.5.0 files synthesised with the old line classes) and on "
              "the repository's match files, the written text (score fields, ticks, pedal lines, line order) and the "
              "loaded part/performance/alignment with the model's output, including the model's own write-then-read "
              "composition.")
SEARCH_LIMIT = 1500
STAFF_SPLIT = 55       # default of importmatch.add_staffs (Gen/C08Lits.staffSplit, theorem lits_extracted)

REPO = os.environ.get("VERIF_REPO", "/repo")
FIXDIR = os.path.join(REPO, "tests", "data", "match")
STEPS = "CDEFGAB"
BASE = {"C": 0, "D": 2, "E": 4, "F": 5, "G": 7, "A": 9, "B": 11}
TS_POOL = [(4, 4), (3, 4), (2, 4), (6, 8), (5, 4), (2, 2), (3, 8), (9, 8), (12, 8), (3, 2), (7, 8), (4, 8), (6, 4),
           (3, 16), (6, 16), (5, 8), (2, 8), (12, 16)]
# metres whose beat is shorter than a quarter (positions in beats run ahead of positions in quarters) / not shorter
TS_FINE = [(6, 8), (3, 8), (9, 8), (12, 8), (7, 8), (4, 8), (5, 8), (2, 8), (3, 16), (6, 16), (12, 16)]
TS_COARSE = [(4, 4), (3, 4), (2, 4), (5, 4), (2, 2), (3, 2), (6, 4)]


# ====================================================================== generation
ALL_ARTICULATIONS = ["accent", "strong-accent", "staccato", "tenuto", "detached-legato", "staccatissimo", "spiccato",
                     "scoop", "plop", "doit", "falloff", "breath-mark", "caesura", "stress", "unstress", "soft-accent"]


# round 5: divisions whose divisors mix tuplets (4 * L <= 1024: every written fraction stays inside the format)
RICH_L = [30, 60, 120, 180, 180, 45, 90, 90, 21, 42, 84, 105, 210, 35, 70, 140, 63, 126, 252, 36, 20]
RICH_K = (1, 2, 3, 4, 5, 6, 7, 8, 9, 10, 12, 14, 15, 16, 18, 20)


def measure_numbers(rng, n, first_half=None):
    """`Measure.number` of the n measures.  The exporter numbers the measures of the FILE by position (0 or 1, 2, 3 ...)
    whatever the score's own numbers are; the reader makes one bar per distinct number of the file.  Half of the
    scores are numbered by position; the others carry what scores carry: both halves of a split bar under one
    number, repeated numbers (an unfolded repeat: 1 2 3 1 2 3), gaps, a count from 0 or from 5, decreasing or
    arbitrary numbers, no numbers at all (None) or some missing."""
    scheme = rng.choice(["pos"] * 8 + ["dup", "dup", "repeat", "repeat", "gaps", "from0", "fromk", "decreasing",
                                       "random", "none", "some-none"])
    if scheme == "pos":
        nums = list(range(1, n + 1))
        if first_half is not None and rng.random() < 0.6:
            nums = [i + 1 if i <= first_half else i for i in range(n)]      # both halves of the split bar: one number
    elif scheme == "dup":
        nums, c = [], 0
        for i in range(n):
            if i == 0 or rng.random() >= 0.4:
                c += 1
            nums.append(c)
        if len(set(nums)) == n and n > 1:
            j = rng.randint(1, n - 1)
            nums = [x if i < j else x - 1 for i, x in enumerate(nums)]
    elif scheme == "repeat":
        per = rng.randint(1, max(1, n - 1))
        nums = [i % per + 1 for i in range(n)]
    elif scheme == "gaps":
        nums, c = [], 0
        for i in range(n):
            c += rng.randint(1, 3)
            nums.append(c)
    elif scheme == "from0":
        nums = list(range(n))
    elif scheme == "fromk":
        k0 = rng.randint(2, 40)
        nums = list(range(k0, k0 + n))
    elif scheme == "decreasing":
        nums = list(range(n, 0, -1))
    elif scheme == "random":
        nums = [rng.randint(0, 5) for _ in range(n)]
    elif scheme == "none":
        nums = [None] * n
    else:
        nums = [None if rng.random() < 0.4 else i + 1 for i in range(n)]
    return scheme, nums


ALL_ORNAMENTS = ["trill-mark", "turn", "delayed-turn", "inverted-turn", "delayed-inverted-turn", "vertical-turn",
                 "inverted-vertical-turn", "shake", "wavy-line", "mordent", "inverted-mordent", "schleifer", "tremolo", "haydn",
                 "other-ornament"]


def decorate(o, n):
    """ornaments, fermata and fingerings of a generated note on the score object"""
    import partitura.score as S

    if n.get("orn"):
        o.ornaments = list(n["orn"])
    if n.get("fermata"):
        o.fermata = S.Fermata(o)
    if n.get("fing"):
        o.technical = [S.Fingering(f) for f in n["fing"]]


def gen_part(rng, tier="quick"):
    """single-divs part with explicit measures (optional pickup), ts/ks changes at bar starts"""
    divs = rng.choice([1, 2, 3, 4, 4, 6, 8, 12, 16, 24, 48, 96, 480])
    ks_ = [k for k in (1, 2, 3, 4, 6, 8, 12) if divs % k == 0]
    k = rng.choice(ks_)
    unit = divs // k
    # round 5: NON-DYADIC rhythms.  The reader's divisions are the lcm of the written denominators; a duration of n/d
    # whole notes becomes int(divs * 4 * n / d) divisions - exact only because ONE correctly rounded division follows
    # exact integer products.  Quintuplets, septuplets and nonuplets mixed in one piece (divisions 45 ... 720 per
    # quarter, durations such as 7/20, 17/7, 41/20, 49/24 of a whole note) are where a product with an already rounded
    # quotient falls one ulp below the integer (about 5% of the durations at 45, 90, 180, 360, 720, 21 ... 84, 105 ...)
    rich = rng.random() < 0.3
    unit_pool = [unit]
    if rich:
        L = rng.choice(RICH_L)
        # beat times are written with four decimals: a beat time k/160 (= x.xxxx5 exactly, but not a binary64 number)
        # is rounded by '%.4f' according to the float below or above it, which no exact model decides; such ties
        # need 5 | divs and 16 | divs (beat = t * beat_type / (4 * divs), beat types >= 2) - left out
        divs = L * rng.choice([m for m in (1, 1, 2, 4) if not ((L * m) % 5 == 0 and (L * m) % 16 == 0)])
        ks_ = [k for k in RICH_K if L % k == 0]
        unit_pool = [divs // k for k in rng.sample(ks_, min(len(ks_), rng.choice([2, 3, 4, 6])))]
        unit = divs // L
    n_measures = rng.randint(1, 5)
    voices = rng.choice([1, 1, 2, 3])
    staves = rng.choice([1, 2, 2])

    def barlen(beats, bt):
        f = Fraction(4 * divs * beats, bt)
        return int(f) if f.denominator == 1 and int(f) % unit == 0 else None

    def pick_ts():
        for _ in range(50):
            b, bt = rng.choice(TS_POOL)
            if barlen(b, bt):
                return b, bt
        return 4, 4

    same_den = rng.random() < 0.35
    d = {"id": "P0", "divs": divs, "ts": [], "ks": [], "clefs": [], "notes": [], "measures": [], "extras": []}
    beats, bt = pick_ts()
    # shapes (round 4): the positions of a signature change in BEATS and in QUARTERS differ most after long stretches
    # of metres counted in eighths / sixteenths (or halves); a final section shorter than the one before it is where
    # a map keyed on the wrong unit still answers with the earlier signature
    shape = rng.random()
    plan = None
    if shape < 0.12:
        def pick_from(pool):
            ok = [x for x in pool if barlen(*x)]
            return rng.choice(ok) if ok else None
        first = pick_from(TS_FINE if rng.random() < 0.7 else TS_COARSE)
        last = pick_from(TS_COARSE if first in TS_FINE else TS_FINE)
        if first and last:
            n_first = rng.randint(2, 6)
            n_last = rng.randint(1, 2)
            mid = pick_from(TS_POOL) if rng.random() < 0.3 else None
            plan = [first] * n_first + ([mid] if mid else []) + [last] * n_last
            n_measures = len(plan)
            beats, bt = plan[0]
    elif shape < 0.2:
        n_measures = rng.randint(6, 9)
    d["ts"].append([0, beats, bt])
    t = 0
    bars = []
    pickup = rng.random() < 0.35 and barlen(beats, bt) > unit
    if plan and pickup:
        plan = [plan[0]] + plan
    for m in range(n_measures + (1 if pickup else 0)):
        if plan:
            if m > 0 and tuple(plan[m]) != (beats, bt):
                beats, bt = plan[m]
                d["ts"].append([t, beats, bt])
        elif m > 0 and rng.random() < 0.3:
            for _ in range(20):
                b2, bt2 = pick_ts()
                if not same_den or bt2 == bt:
                    break
            if not same_den or bt2 == bt:
                beats, bt = b2, bt2
                d["ts"].append([t, beats, bt])
        bl = barlen(beats, bt)
        if m == 0 and pickup:
            pu = rng.choice(unit_pool)
            bl = pu * rng.randint(1, bl // pu - 1) if bl // pu > 1 else unit * rng.randint(1, bl // unit - 1)
        bars.append((t, t + bl))
        if rng.random() < (0.85 if m == 0 else 0.2):
            d["ks"].append([t, rng.randint(-7, 7), rng.choice(["major", "minor", "major", "minor", None])])
        t += bl
    # round 5: a bar split in two measures by a double bar (3 + 1 quarters of a 4/4 bar; never the first or the last
    # bar: the last measure stays complete), possibly with a key signature at the double bar
    first_half = None
    if len(bars) >= 3 and rng.random() < 0.12:
        j = rng.randint(1, len(bars) - 2)
        bs, be = bars[j]
        pu = rng.choice(unit_pool)
        if (be - bs) // pu > 1:
            cut = bs + pu * rng.randint(1, (be - bs) // pu - 1)
            bars[j:j + 1] = [(bs, cut), (cut, be)]
            first_half = j
            if rng.random() < 0.5:
                d["ks"].append([cut, rng.randint(-7, 7), rng.choice(["major", "minor", None])])
    scheme, nums = measure_numbers(rng, len(bars), first_half)
    d["measures"] = [[s, e, num] for (s, e), num in zip(bars, nums)]
    d["shape"] = {"numbering": scheme if any(m[2] != i + 1 for i, m in enumerate(d["measures"])) else "pos",
                  "rich": bool(rich), "split": first_half is not None}
    nid = 0
    # round 5: what else the attribute list of an snote line carries (ornament names - one of them starts with `v` -,
    # fermata, fingerings), notes without a voice or without a staff, staff numbers of two digits
    decorated = rng.random() < 0.3
    high_staves = rng.random() < 0.08
    high_voices = rng.random() < 0.08
    for v in range(1, voices + 1):
        staff = rng.randint(1, staves)
        if high_staves:
            staff = rng.choice([10, 11, 12, 20, 25, rng.randint(9, 40)])
        v_attr = None if rng.random() < 0.06 else (v + 9 * rng.randint(1, 3) if high_voices else v)
        if rng.random() < 0.06:
            staff = None
        open_tie = None
        for (bs, be) in bars:
            pos = bs
            while pos < be:
                if rich:
                    dur = min(rng.choice([1, 1, 2, 2, 3, 4, 5, 7]) * rng.choice(unit_pool), be - pos)
                else:
                    dur = min(rng.choice([1, 1, 2, 2, 3, 4, 6, 8]) * unit, be - pos)
                if rng.random() < 0.12:
                    d["notes"].append({"id": "r%d" % nid, "t": pos, "dur": dur, "kind": "rest", "voice": v_attr, "staff": staff})
                    nid += 1
                    open_tie = None
                    pos += dur
                    continue
                if rng.random() < 0.1:
                    d["notes"].append({"id": "g%d" % nid, "t": pos, "dur": 0, "kind": "grace", "step": rng.choice(STEPS),
                                       "alter": rng.choice([-1, 0, 0, None, 1]), "oct": rng.randint(2, 6), "voice": v_attr,
                                       "staff": staff, "grace_type": rng.choice(["grace", "acciaccatura", "appoggiatura"])})
                    if decorated and rng.random() < 0.4:
                        g = d["notes"][-1]
                        if rng.random() < 0.6:
                            g["orn"] = rng.sample(ALL_ORNAMENTS, 1)
                        if rng.random() < 0.5:
                            g["art"] = rng.sample(ALL_ARTICULATIONS, rng.choice([1, 2]))
                    nid += 1
                nchord = 1 + (rng.random() < 0.25) + (rng.random() < 0.12)
                used = set()
                prev, open_tie = open_tie, None
                for c in range(nchord):
                    if prev is not None and c == 0:
                        step, alter, octv = prev["step"], prev["alter"], prev["oct"]
                    else:
                        for _ in range(10):
                            step, alter, octv = rng.choice(STEPS), rng.choice([-2, -1, 0, 0, 0, None, 1, 2]), rng.randint(1, 7)
                            if (step, octv) not in used:
                                break
                    used.add((step, octv))
                    n = {"id": "n%d" % nid, "t": pos, "dur": dur, "kind": "note", "step": step, "alter": alter,
                         "oct": octv, "voice": v_attr, "staff": staff}
                    if decorated and rng.random() < 0.3:
                        if rng.random() < 0.6:
                            n["orn"] = rng.sample(ALL_ORNAMENTS, rng.choice([1, 1, 2]))
                        if rng.random() < 0.3:
                            n["fermata"] = True
                        if rng.random() < 0.4:
                            n["fing"] = [rng.randint(0, 5) for _ in range(rng.choice([1, 1, 2]))]
                    r = rng.random()
                    if r < 0.2:
                        if rng.random() < 0.5:
                            n["art"] = rng.choice([["staccato"], ["accent"], ["staccato", "accent"], ["tenuto"], ["accent", "tenuto"]])
                        else:
                            # any of the articulation names a score can carry (MusicXML): the reader supports
                            # staccato and accent only, names that merely start with / contain one of them
                            # (staccatissimo, strong-accent, soft-accent) must not be taken for it
                            n["art"] = rng.sample(ALL_ARTICULATIONS, rng.choice([1, 1, 2, 3]))
                    nid += 1
                    if prev is not None and c == 0:
                        prev["tie"] = n["id"]
                        n["tied"] = True
                    d["notes"].append(n)
                    if c == 0 and pos + dur < bars[-1][1] and rng.random() < 0.15:
                        open_tie = n
                pos += dur
    return d


def build_part(d):
    """gen_score.build_part plus articulations (copied: the shared helper has no articulations)"""
    import partitura.score as S

    if d.get("warm"):
        # the same part through a construction history with reads in between (shared helper); articulations after
        import gen_score

        p = gen_score.build_part(d)
        arts = {n["id"]: n["art"] for n in d.get("notes", []) if n["kind"] in ("note", "grace") and n.get("art")}
        byid_d = {n["id"]: n for n in d.get("notes", [])}
        for o in p.iter_all(S.Note, include_subclasses=True):
            if o.id in arts:
                o.articulations = list(arts[o.id])
            if o.id in byid_d:
                decorate(o, byid_d[o.id])
        return p
    p = S.Part(d["id"], part_name=d.get("name", d["id"]), quarter_duration=d["divs"])
    for t, b, bt in d.get("ts", []):
        p.add(S.TimeSignature(b, bt), t)
    for t, f, m in d.get("ks", []):
        p.add(S.KeySignature(f, m), t)
    byid = {}
    for n in d.get("notes", []):
        kw = dict(id=n["id"], voice=n.get("voice"), staff=n.get("staff"))
        k = n["kind"]
        if k == "rest":
            o = S.Rest(**kw)
        elif k == "grace":
            o = S.GraceNote(n.get("grace_type", "grace"), step=n["step"], octave=n["oct"], alter=n.get("alter"), **kw)
            if n.get("art"):
                o.articulations = list(n["art"])
            decorate(o, n)
        else:
            o = S.Note(step=n["step"], octave=n["oct"], alter=n.get("alter"), **kw)
            if n.get("art"):
                o.articulations = list(n["art"])
            decorate(o, n)
        p.add(o, n["t"], n["t"] + n["dur"])
        byid[n["id"]] = o
    for n in d.get("notes", []):
        if n.get("tie"):
            a, b = byid[n["id"]], byid[n["tie"]]
            a.tie_next = b
            b.tie_prev = a
    for n in d.get("notes", []):
        if n["kind"] == "grace":
            g = byid[n["id"]]
            for m in d["notes"]:
                if m["kind"] == "note" and m["t"] == n["t"] and m.get("voice") == n.get("voice"):
                    g.grace_next = byid[m["id"]]
                    break
    for st, en, num in d.get("measures", []):
        p.add(S.Measure(number=num), st, en)
    return p


def sounding_ids(pd):
    """ids the note array lists: notes and grace notes that are not tie continuations"""
    return [n["id"] for n in pd["notes"] if n["kind"] in ("note", "grace") and not n.get("tied")]


def gen_case(rng, tier="quick"):
    pd = gen_part(rng, tier)
    ppq = rng.choice([480, 480, 96, 1000, 384, rng.randint(1, 2000)])
    mpq = rng.choice([500000, 500000, 600000, 1000000, 352941, rng.randint(100000, 1500000)])
    divs = pd["divs"]
    spq = rng.uniform(0.25, 1.2)  # seconds per quarter of the "performance"
    t0 = rng.choice([0.0, 0.5, 1.0, rng.uniform(0, 3)])
    on_grid = rng.random() < 0.7
    # round 4: LATE passages and FINE clocks.  Every written tick must be round(1e6*ppq*seconds/mpq) of the binary64
    # seconds the performed part holds; a detour of the seconds through a narrower type (the float32 columns of
    # the note array: 24 bits) is off by more than half a tick only minutes to hours into a recording or with a fine
    # clock (4000 ticks per quarter of the Vienna 4x22 / Zeilinger files, up to 10000, small mpq)
    late = rng.random()
    if late < 0.3:
        t0 = rng.choice([rng.uniform(60, 1200), rng.uniform(1200, 7200), rng.uniform(7200, 30000)])
        if rng.random() < 0.75:
            ppq = rng.choice([4000, 4000, 10000, 960, 1920, rng.randint(2000, 10000)])
        if rng.random() < 0.5:
            mpq = rng.choice([500000, 250000, 100000, rng.randint(60000, 500000)])
    # PerformedPart.note_array holds ticks as int32: a performed part whose last tick does not fit has no note array
    # at all (not this property's concern); keep every tick below 5e8 (a factor 4 of room for the 'resave' clocks)
    span = (pd["measures"][-1][1] / divs + 2) * spq + 4
    t0 = max(0.0, min(t0, 5e8 * mpq / (1e6 * ppq) - span))
    if rng.random() < 0.3:
        # a construction history with read-only views in between (stale memoisation), see gen_score.build_part
        pd["warm"] = (rng.randint(1, 255) & ~32) or 1      # not bit 5: its "full" readers take seconds per part

    def q(t):
        if not on_grid:
            return float(t)
        tick = round(t * 1e6 * ppq / mpq)
        return tick * mpq / (1e6 * ppq)

    byid = {n["id"]: n for n in pd["notes"]}
    sids = sounding_ids(pd)
    notes, align = [], []
    pc = [0]
    pfx = rng.choice(["n", "n", "n", "nP", "n0-"])

    def new_pid():
        pc[0] += 1
        return "%s%d" % (pfx, pc[0])

    def midi(n):
        return (n["oct"] + 1) * 12 + BASE[n["step"]] + (n.get("alter") or 0)

    def tied_dur(n):
        du = n["dur"]
        while n.get("tie"):
            n = byid[n["tie"]]
            du += n["dur"]
        return du

    def perf_note(pid, pitch, on, dur):
        on = max(0.0, on)
        a = q(on)
        b = q(on + max(dur, 0.02))
        if b <= a:
            b = a + mpq / (1e6 * ppq) * (1 if on_grid else 1.0)
        n = {"id": pid, "pitch": int(min(127, max(0, pitch))), "on": a, "off": b, "vel": rng.randint(1, 127)}
        if rng.random() < 0.3:
            n["track"] = rng.randint(0, 3)
            n["channel"] = rng.randint(0, 15)
        return n

    p_match = rng.choice([0.5, 0.7, 0.9, 1.0])
    p_del = rng.choice([0.0, 0.5, 1.0])
    few = rng.random()
    if few < 0.05:
        p_match, p_del = 0.0, rng.choice([0.5, 1.0])      # no match at all: deletions and insertions only
    one_match = 0.05 <= few < 0.08                         # a single match: the time map has one point (NaN keys)
    for sid in sids:
        n = byid[sid]
        r = rng.random()
        tq = n["t"] / divs
        if r < p_match and not (one_match and any(a["label"] == "match" for a in align)):
            pid = new_pid()
            notes.append(perf_note(pid, midi(n), t0 + tq * spq + rng.uniform(-0.03, 0.03), tied_dur(n) / divs * spq * rng.uniform(0.3, 1.1)))
            align.append({"label": "match", "score_id": sid, "performance_id": pid})
        elif rng.random() < p_del:
            align.append({"label": "deletion", "score_id": sid})
    if rng.random() < 0.85:
        # make the alignment touch every bar between its first and last stored note (where a note starts there)
        stored = set(a["score_id"] for a in align if a["label"] in ("match", "deletion"))
        for (ms, me, _) in pd["measures"]:
            inbar = [s for s in sids if ms <= byid[s]["t"] < me]
            if inbar and not any(s in stored for s in inbar):
                sid = rng.choice(inbar)
                if rng.random() < 0.5 or p_match == 0.0 or one_match:
                    align.append({"label": "deletion", "score_id": sid})
                else:
                    n = byid[sid]
                    pid = new_pid()
                    notes.append(perf_note(pid, midi(n), t0 + n["t"] / divs * spq + rng.uniform(-0.03, 0.03), tied_dur(n) / divs * spq * rng.uniform(0.3, 1.1)))
                    align.append({"label": "match", "score_id": sid, "performance_id": pid})
    end_q = pd["measures"][-1][1] / divs
    for _ in range(rng.choice([0, 0, 1, 2, 4])):
        pid = new_pid()
        notes.append(perf_note(pid, rng.randint(21, 108), t0 + rng.uniform(-0.5, end_q + 0.5) * spq, rng.uniform(0.05, 1.0)))
        align.append({"label": "insertion", "performance_id": pid})
    if sids:
        for _ in range(rng.choice([0, 0, 1, 3])):
            pid = new_pid()
            sid = rng.choice(sids)
            tq = byid[sid]["t"] / divs
            notes.append(perf_note(pid, midi(byid[sid]) + rng.choice([-2, -1, 1, 2]), t0 + tq * spq + rng.uniform(-0.1, 0.2), rng.uniform(0.03, 0.3)))
            align.append({"label": "ornament", "score_id": sid, "performance_id": pid,
                          "type": rng.choice(["trill", "mordent", "generic_ornament"])})
    rng.shuffle(align)
    if rng.random() < 0.5:
        rng.shuffle(notes)
    controls = []
    for _ in range(rng.choice([0, 0, 1, 3, 8, 20])):
        controls.append({"number": rng.choice([64, 64, 64, 67, 67, 66, 1]), "time": q(rng.uniform(0, t0 + end_q * spq + 1)),
                         "value": rng.randint(0, 127)})
    desc = {"k": "rt", "part": pd, "perf": {"notes": notes, "controls": controls}, "align": align, "ppq": ppq, "mpq": mpq}
    if rng.random() < 0.3:
        desc["pwarm"] = True       # the performed part's views are read before it is written
    return desc


def domain_ok(desc):
    """at least one stored score note; the score onsets that carry a matched non-grace note have distinct mean
    performed onsets (fewer than two such onsets: no time map, the keys of the performed-only lines are NaN)"""
    pd = desc["part"]
    byid = {n["id"]: n for n in pd["notes"]}
    pn = {n["id"]: n for n in desc["perf"]["notes"]}
    import numpy as np

    groups = {}
    for a in desc["align"]:
        if a["label"] == "match":
            n = byid[a["score_id"]]
            if n["kind"] == "note":
                groups.setdefault(n["t"], []).append(float(np.float32(pn[a["performance_id"]]["on"])))
    if not any(a["label"] in ("match", "deletion") for a in desc["align"]):
        return False
    if not fractions_in_format(desc):
        return False
    means = sorted(sum(v) / len(v) for v in groups.values())
    # the implementation takes these means in float32: late in a recording two float32 numbers are up to a
    # millisecond apart, the means must stay distinct after that rounding
    gap = max(1e-4, 4 * float(np.spacing(np.float32(means[-1])))) if means else 1e-4
    return all(b - a > gap for a, b in zip(means, means[1:]))


def fractions_in_format(desc):
    """every offset / duration fraction the exporter writes for a stored note has numerator and denominator <= 1024
    (FractionalSymbolicDuration.bound_integers approximates beyond: outside the domain)"""
    pd = desc["part"]
    divs = pd["divs"]
    byid = {n["id"]: n for n in pd["notes"]}
    ts = sorted(pd["ts"])
    meas = sorted(pd["measures"], key=lambda m: (m[0], m[1]))
    for a in desc["align"]:
        if a["label"] not in ("match", "deletion"):
            continue
        n = byid[a["score_id"]]
        du, m = n["dur"], n
        while m.get("tie"):
            m = byid[m["tie"]]
            du += m["dur"]
        den = [x for x in ts if x[0] <= n["t"]][-1][2] if any(x[0] <= n["t"] for x in ts) else ts[0][2]
        ms = max(m_[0] for m_ in meas if m_[0] <= n["t"])
        rel = n["t"] - ms
        off = Fraction((rel * den) % (4 * divs), 4 * divs * den)
        for f in (off, Fraction(du, 4 * divs)):
            if f.numerator > 1024 or f.denominator > 1024:
                return False
    return True


def midbar_variant(desc, r):
    """round 6: the same case with a time signature INSIDE a measure: at the onset of a stored note that has another
    stored onset before it in the same bar (so that the two are written with beat numbers counted in different beat
    types - where the order of the lines by measure / beat / offset is not the order in time); the signature in force
    before comes back at the next bar line unless another one starts there; never in the first measure.  None if no bar
    offers such a point."""
    import copy

    d = copy.deepcopy(desc)
    pd = d["part"]
    ts = sorted(pd["ts"])
    meas = sorted(pd["measures"])
    byid = {n["id"]: n for n in pd["notes"]}
    stored_t = sorted(set(byid[a["score_id"]]["t"] for a in d["align"] if a["label"] in ("match", "deletion")))
    cands = []
    for i, (ms, me, _) in enumerate(meas):
        if i == 0 or any(ms < x[0] < me for x in ts):
            # not the first measure: a change of metre inside it decides whether Part.beat_map counts it as a pickup,
            # and a change before beat 0 moves the reader's zero of the quarter axis away from beat 0 (Score.quarters
            # of the model counts the stretch before beat 0 in the first beat type, as the reader does)
            continue
        cands += [(i, c) for c in stored_t if ms < c < me and any(ms <= t < c for t in stored_t)]
    if not cands:
        return None
    def sig_at(t):
        return [x for x in ts if x[0] <= t][-1] if any(x[0] <= t for x in ts) else ts[0]

    # REVERSING points: the earliest stored note of the bar stands after the bar line and a coarser beat type from the
    # cut on gives the note at the cut a SMALLER beat number than that earlier note has
    divs = pd["divs"]
    rev = []
    for (i, c) in cands:
        ms = meas[i][0]
        a = min(t for t in stored_t if ms <= t)
        if ms < a < c:
            for x in TS_POOL:
                if ((c - ms) * x[1]) // (4 * divs) < ((a - ms) * sig_at(ms)[2]) // (4 * divs):
                    rev.append((i, c, x))
    reversing = bool(rev) and r.random() < 0.7
    if reversing:
        i, cut, (b2, bt2) = r.choice(rev)
    else:
        i, cut = r.choice(cands)
    ms, me, _ = meas[i]
    cur = sig_at(ms)
    if not reversing:
        coarser = [x for x in TS_POOL if x[1] < cur[2]]
        # a COARSER beat after the change (eighths, then quarters) gives the later note the smaller beat number
        b2, bt2 = r.choice(coarser if coarser and r.random() < 0.7 else [x for x in TS_POOL if x[1] != cur[2]])
    if reversing or r.random() < 0.6:
        # nothing stored before this bar: its lines open the file (matches before it become insertions, deletions go)
        early = set(n["id"] for n in pd["notes"] if n["t"] < ms)
        d["align"] = [({"label": "insertion", "performance_id": a["performance_id"]}
                       if a["label"] == "match" and a["score_id"] in early else a)
                      for a in d["align"] if not (a["label"] == "deletion" and a["score_id"] in early)]
    pd["ts"].append([cut, b2, bt2])
    if i + 1 < len(meas) and not any(x[0] == me for x in ts):
        pd["ts"].append([me, cur[1], cur[2]])
    pd["ts"].sort()
    pd["shape"] = dict(pd.get("shape") or {}, midbar=True)
    d["variant"] = "midbar"
    return d


def cases(rng, tier):
    for fn in sorted(os.listdir(FIXDIR)) if os.path.isdir(FIXDIR) else []:
        if fn.endswith(".match"):
            yield {"k": "fixture", "file": fn}
    # the id of a performed note as written / read back (format_pnote_id), on arbitrary texts
    for _ in range({"quick": 2, "thorough": 20}.get(tier, 2)):
        r3 = random.Random(rng.randint(0, 2**31))
        alphabet = "n0123456789abN-_xP"
        yield {"k": "pid", "ids": ["".join(r3.choice(alphabet) for _ in range(r3.randint(0, 5))) for _ in range(40)]}
    n = {"quick": 400, "thorough": 15000, "search": 3000}.get(tier, 400)
    made = 0
    prev = []
    while made < n:
        sub = rng.randint(0, 2**31)
        r2 = random.Random(sub)
        desc = gen_case(r2, tier)
        if not domain_ok(desc):
            continue
        desc["sub"] = sub
        made += 1
        yield desc
        prev.append(desc)
        del prev[:-4]
        if made % 8 == 0:
            # round 6: a time signature inside a measure (its own random stream: the other cases stay what they were)
            mb = midbar_variant(desc, random.Random(sub ^ 0x19C08))
            if mb is not None and domain_ok(mb):
                yield mb
        if made % 4 == 0:
            yield {"k": "dedup", "base": desc, "seed": rng.randint(0, 2**31)}
        if made % 3 == 0:
            # the loading half on the older formats: the same content written with the line classes of matchlines_v0
            yield {"k": "v0", "base": desc, "version": list(rng.choice(V0_VERSIONS)), "seed": rng.randint(0, 2**31),
                   "dedup": rng.randint(0, 2**31) if rng.random() < 0.25 else None}
        if made % 5 == 0:
            # a LOADED performance (its notes carry tick fields of the file's clock) saved again under another clock
            yield {"k": "resave", "base": desc, "ppq2": rng.choice([desc["ppq"], desc["ppq"], 2 * desc["ppq"]]),
                   "mpq2": rng.choice([desc["mpq"], 600000, 250000, 2 * desc["mpq"]])}
        if made % 6 == 0:
            # round 5: the same durations / offsets spelled with tuple divisors (1/4/3) and additive components
            # (1/4+1/8): the reader's other duration paths; must load to the same score
            yield {"k": "respell", "base": desc, "seed": rng.randint(0, 2**31)}
        if made % 5 == 2:
            # round 6: a HISTORY over one file name: this case and the previous ones written one after the other to the
            # same file through differently spelled paths, loaded after every write (own random stream)
            rh = random.Random(sub ^ 0x6C08)
            bases = [rh.choice(prev) for _ in range(rh.randint(1, 2))] + [desc]
            rh.shuffle(bases)
            yield {"k": "history", "steps": [{"base": b, "save": rh.choice(SAVE_FORMS), "load": rh.choice(LOAD_FORMS)}
                                             for b in bases]}
        if made % 7 == 0:
            # empty lines anywhere (also before the version line) change nothing: the reader skips them
            yield {"k": "blank", "base": desc, "at": ([0] if rng.random() < 0.6 else []) + [rng.randint(0, 40) for _ in range(rng.randint(0, 3))]}


# ====================================================================== running the implementation
def quiet(f, *a, **kw):
    buf = io.StringIO()
    with contextlib.redirect_stdout(buf):
        return f(*a, **kw)


def build_perf(desc):
    from partitura.performance import PerformedPart

    notes = []
    for n in desc["perf"]["notes"]:
        dn = dict(id=n["id"], midi_pitch=n["pitch"], note_on=n["on"], note_off=n["off"], velocity=n["vel"])
        if "track" in n:
            dn["track"] = n["track"]
            dn["channel"] = n["channel"]
        notes.append(dn)
    controls = [dict(number=c["number"], time=c["time"], value=c["value"]) for c in desc["perf"]["controls"]]
    pp = PerformedPart(notes, id="PP", controls=controls, ppq=desc["ppq"], mpq=desc["mpq"])
    if desc.get("pwarm"):
        try:
            pp.note_array()
            [dict(n) for n in pp.notes]
            pp.num_tracks
        except Exception:
            pass
    return pp


def exact_tick(t, ppq, mpq):
    return Fraction(*float(t).as_integer_ratio()) * 1000000 * ppq / mpq


def tick_ok(tick, t, ppq, mpq):
    x = exact_tick(t, ppq, mpq)
    return abs(Fraction(int(tick)) - x) <= Fraction(1, 2) + Fraction(1, 10**6)


def load_all(fn, res):
    """load_matchfile + load_match(create_score=True) on a file; fills res"""
    import warnings
    from partitura.io.importmatch import load_match, load_matchfile

    try:
        mf = quiet(load_matchfile, fn)
        res["mf"] = mf
        res["mf_lines"] = list(mf.lines)
    except Exception as e:
        res["load_error"] = "%s: %s" % (type(e).__name__, e)
        return
    try:
        with warnings.catch_warnings(record=True) as wl:
            warnings.simplefilter("always")
            perf, al, sc = quiet(load_match, fn, create_score=True)
        res["n_fallback"] = sum(1 for w in wl if "does not match `OnsetInBeats`" in str(w.message))
        res["perf"], res["align"], res["score"] = perf, al, sc
    except Exception as e:
        res["load_error"] = "%s: %s" % (type(e).__name__, e)
        try:
            perf, al = quiet(load_match, fn, create_score=False)
            res["perf"], res["align"] = perf, al
        except Exception as e2:
            res["load_error2"] = "%s: %s" % (type(e2).__name__, e2)


def save_and_load(desc, edit_text=None):
    """returns dict(text=[lines], perf, align, score, mf, ...) or dict(save_error=...)"""
    from partitura.io.exportmatch import save_match

    part = build_part(desc["part"])
    ppart = build_perf(desc)
    res = {"spart": part, "ppart": ppart}
    with tempfile.TemporaryDirectory(prefix="c08-") as td:
        fn = os.path.join(td, "x.match")
        try:
            quiet(save_match, [dict(a) for a in desc["align"]], ppart, part, out=fn, mpq=desc["mpq"], ppq=desc["ppq"],
                  assume_unfolded=True)
        except Exception as e:
            res["save_error"] = "%s: %s" % (type(e).__name__, e)
            return res
        res["text"] = open(fn).read().split("\n")
        if res["text"] and res["text"][-1] == "":
            res["text"].pop()
        if edit_text is not None:
            res["text"] = edit_text(res["text"])
            with open(fn, "w") as f:
                f.write("\n".join(res["text"]) + "\n")
        load_all(fn, res)
    return res


# ---------------------------------------------------------------------- round 6: histories over ONE file name
# "writing ... to a match file and loading that file returns the same ..." holds for every file at every time: what a
# load returns depends on the CONTENTS of the file now, not on what an earlier load of the same file (under this or
# another spelling of its name) returned.  A history writes several cases to the same file one after the other, each
# through a randomly chosen spelling of the path (str, pathlib.Path, a "/./" spelling, a path relative to the working
# directory, a symbolic link, or a copy of a file written elsewhere) and loads it after every write through another
# spelling; EVERY load is judged by the full round-trip oracle against the case that was written LAST.
SAVE_FORMS = ["str", "path", "dot", "rel", "link", "copy", "text"]
LOAD_FORMS = ["str", "path", "dot", "rel", "link"]


def spell(form, td, name="x.match"):
    import pathlib

    fn = os.path.join(td, name)
    if form == "path":
        return pathlib.Path(fn)
    if form == "dot":
        return os.path.join(td, ".", name)
    if form == "rel":
        return os.path.relpath(fn)
    if form == "link":
        ln = os.path.join(td, "link.match")
        if not os.path.islink(ln):
            os.symlink(fn, ln)
        return ln
    return fn


def history_run(steps):
    """steps: [{"base": rt-desc, "save": form, "load": form}]; returns one res (as save_and_load) per step"""
    import shutil
    from partitura.io.exportmatch import save_match

    out = []
    with tempfile.TemporaryDirectory(prefix="c08h-") as td:
        fn = os.path.join(td, "x.match")
        for st in steps:
            desc = st["base"]
            part = build_part(desc["part"])
            ppart = build_perf(desc)
            res = {"spart": part, "ppart": ppart}
            out.append(res)
            sf = st["save"]
            target = os.path.join(td, "other.match") if sf in ("copy", "text") else spell(sf, td)
            try:
                quiet(save_match, [dict(a) for a in desc["align"]], ppart, part, out=target, mpq=desc["mpq"],
                      ppq=desc["ppq"], assume_unfolded=True)
            except Exception as e:
                res["save_error"] = "%s: %s" % (type(e).__name__, e)
                continue
            if sf == "copy":
                shutil.copy(target, fn)
            elif sf == "text":
                txt = open(target).read()
                with open(fn, "w") as f:
                    f.write(txt)
            res["text"] = open(fn).read().split("\n")
            if res["text"] and res["text"][-1] == "":
                res["text"].pop()
            load_all(spell(st["load"], td), res)
    return out


def eval_history(desc, ev):
    steps = desc["steps"]
    ress = history_run(steps)
    for i, (st, res) in enumerate(zip(steps, ress)):
        for f in oracle_rt(st["base"], res):
            # the first load of a history is the plain round trip: its failures keep their own clause name; a later
            # load that fails where the plain round trip of the same case does not is a failure of the history
            if i > 0 and not oracle_rt(st["base"], save_and_load(st["base"])):
                f = ("history-stale: step %d (file written as %s, loaded as %s, after %d earlier write(s)/load(s) of the "
                     "same file) does not return what was written last although the same case round-trips through a "
                     "fresh file: %s" % (i, st["save"], st["load"], i, f))
            ev.oracle.append(f)
        if ev.oracle:
            break
    if ress and "text" in ress[-1] and not ev.oracle:
        corr_rt(steps[-1]["base"], ress[-1], ev)
    ev.info["feats"] = ["history:%s>%s" % (st["save"], st["load"]) for st in steps[1:]] + ["history-steps:%d" % len(steps)]
    ev.key = "history:%s" % ",".join("%s:%s>%s" % (st["base"].get("sub"), st["save"], st["load"]) for st in steps) \
        if all("text" in r for r in ress) else None
    return ev


V0_VERSIONS = [(0, 1, 0), (0, 2, 0), (0, 3, 0), (0, 4, 0), (0, 5, 0)]


def v0_version(desc):
    """the version a v0 case is written in: versions before 0.3.0 have no meta lines, hence hold one global time
    and key signature only; cases with more go to 0.3.0 - 0.5.0"""
    base = desc["base"]
    v = tuple(desc["version"])
    pd = base["part"]
    first_t = min(m[0] for m in pd["measures"])
    later = 0
    for src, val in ((sorted(pd["ts"]), lambda x: (x[1], x[2])), (sorted(pd["ks"]), lambda x: (x[1], x[2] or "major"))):
        src = [x for x in src if any(ms <= x[0] < me for ms, me, _ in pd["measures"])]
        prev = None
        for x in src:
            if val(x) != prev and x[0] > first_t:
                later += 1        # a change after the start of the score: a meta line
            prev = val(x)
    if later and v < (0, 3, 0):
        v = (0, 3 + desc["seed"] % 3, 0)
    return v


def synth_v0(desc):
    """Text lines of a version-0.x match file with the content of the 1.0.0 export of the base case: the line
    objects the exporter builds are re-expressed with the line classes of matchlines_v0 (same field values);
    the signature at the start of the score becomes the global info line, every later change a meta line (0.3.0
    and later); ornaments become trill lines; deletions / insertions use the old sub-kinds at random."""
    from partitura.io import matchlines_v0 as V0, matchlines_v1 as V1
    from partitura.io.matchfile_utils import Version, MatchKeySignature, MatchTimeSignature
    from partitura.io.exportmatch import matchfile_from_alignment
    import partitura.utils.music as MU

    base = desc["base"]
    vt = v0_version(desc)
    version = Version(*vt)
    rng = random.Random(desc["seed"])
    part = build_part(base["part"])
    ppart = build_perf(base)
    mf = quiet(matchfile_from_alignment, [dict(a) for a in base["align"]], ppart, part, mpq=base["mpq"], ppq=base["ppq"],
               assume_part_unfolded=True)
    score_start = float(part.beat_map(min(m[0] for m in base["part"]["measures"])))

    def info(attr, value):
        _, fmt, typ = V0.INFO_LINE[version][attr]
        return V0.MatchInfo(version=version, attribute=attr, value=value, value_type=typ, format_fun=fmt)

    def sigval(l):
        if l.Attribute == "timeSignature":
            return MatchTimeSignature(int(l.Value.numerator), int(l.Value.denominator), other_components=[], is_list=False)
        return MatchKeySignature(fifths=l.Value.fifths, mode=l.Value.mode, is_list=False, fmt="v0.3.0")

    def snote(s_):
        return V0.MatchSnote(version=version, anchor=s_.Anchor, note_name=s_.NoteName, modifier=s_.Modifier, octave=s_.Octave,
                             measure=s_.Measure, beat=s_.Beat, offset=s_.Offset, duration=s_.Duration,
                             onset_in_beats=s_.OnsetInBeats, offset_in_beats=s_.OffsetInBeats,
                             score_attributes_list=list(s_.ScoreAttributesList))

    def note(n):
        step, alter, octv = MU.midi_pitch_to_pitch_spelling(n.MidiPitch)
        return V0.MatchNote(version=version, id=n.Id, note_name=step, modifier=alter, octave=octv, onset=n.Onset,
                            offset=n.Offset, velocity=n.Velocity)

    out = []
    for attr in ("keySignature", "timeSignature"):
        sig = [l for l in mf.lines if isinstance(l, V1.MatchScoreProp) and l.Attribute == attr]
        sig.sort(key=lambda l: l.TimeInBeats)
        # collapse equal neighbours (as MatchFile.time_signatures does), find the one in force at the first stored note
        def same(a, b):
            if attr == "timeSignature":
                return (a.numerator, a.denominator) == (b.numerator, b.denominator)
            return (a.fifths, a.mode or "major") == (b.fifths, b.mode or "major")     # mode None is written as major

        coll = []
        for l in sig:
            if not coll or not same(coll[-1].Value, l.Value):
                coll.append(l)
        sig_out = []
        for i, l in enumerate(coll):
            if i == 0 and l.TimeInBeats <= score_start:
                sig_out.append(info(attr, sigval(l)))
            else:
                _, fmt, typ = V0.META_LINE[version][attr]
                sig_out.append(V0.MatchMeta(version=version, attribute=attr, value=sigval(l), value_type=typ, format_fun=fmt,
                                            measure=l.Measure, time_in_beats=l.TimeInBeats))
        out.append((attr, sig_out))
    lines = []
    for l in mf.lines:
        if isinstance(l, V1.MatchInfo):
            lines.append(info("matchFileVersion", version) if l.Attribute == "matchFileVersion" else info(l.Attribute, l.Value))
        elif isinstance(l, V1.MatchScoreProp):
            for attr, so in out:
                if so is not None and attr == l.Attribute:
                    lines += so
            out = [(a, None if a == l.Attribute else so) for a, so in out]
        elif isinstance(l, V1.MatchSnoteNote):
            lines.append(V0.MatchSnoteNote(version=version, snote=snote(l.snote), note=note(l.note)))
        elif isinstance(l, V1.MatchSnoteDeletion):
            cls = rng.choice([V0.MatchSnoteDeletion, V0.MatchSnoteDeletion, V0.MatchSnoteTrailingScore, V0.MatchSnoteNoPlayedNote])
            lines.append(cls(version=version, snote=snote(l.snote)))
        elif isinstance(l, V1.MatchInsertionNote):
            cls = rng.choice([V0.MatchInsertionNote, V0.MatchInsertionNote, V0.MatchHammerBounceNote, V0.MatchTrailingPlayedNote])
            lines.append(cls(version=version, note=note(l.note)))
        elif isinstance(l, V1.MatchOrnamentNote):
            lines.append(V0.MatchTrillNote(version=version, anchor=l.Anchor, note=note(l.note)))
        elif isinstance(l, V1.MatchSustainPedal):
            lines.append(V0.MatchSustainPedal(version=version, time=l.Time, value=l.Value))
        elif isinstance(l, V1.MatchSoftPedal):
            lines.append(V0.MatchSoftPedal(version=version, time=l.Time, value=l.Value))
        else:
            raise ValueError("unexpected line %r" % type(l).__name__)
    return [x.matchline for x in lines], part, ppart


def eval_v0(desc, ev):
    """loading half on a synthesised old-format file: alignment, performance, score as the property states"""
    base = desc["base"]
    res = {}
    try:
        text, part, ppart = synth_v0(desc)
    except Exception as e:
        # the file could not be synthesised (the writer classes of the old format failed): nothing to load
        ev.info["synth_error"] = "%s: %s" % (type(e).__name__, e)
        ev.key = None
        return ev
    res["spart"], res["ppart"] = part, ppart
    if desc.get("dedup") is not None:
        text = dedup_edit(desc["dedup"], generic=True)(text)
    res["text"] = text
    with tempfile.TemporaryDirectory(prefix="c08-") as td:
        fn = os.path.join(td, "x.match")
        with open(fn, "w") as f:
            f.write("\n".join(text) + "\n")
        load_all(fn, res)
    vt = v0_version(desc)
    if desc.get("dedup") is not None:
        ev.oracle = oracle_load(text, res, "v0-dedup")
        corr_load(text, res.get("mf_lines"), ev)
        ev.key = "v0dedup:%s:%s:%s" % (base.get("sub"), desc["seed"], ".".join(map(str, vt)))
    else:
        ev.oracle = ["v0 %s: %s" % (".".join(map(str, vt)), f) for f in oracle_load(text, res, "lines")]
        ev.oracle += oracle_rt(base, res, v0=True)
        corr_load(text, res.get("mf_lines"), ev)
        if "score" in res:
            corr_dec(text, res, ev)
        ev.key = "v0:%s:%s" % (base.get("sub"), ".".join(map(str, vt)))
    ev.info["v0"] = ".".join(map(str, vt))
    return ev


# ====================================================================== oracle
def canon_align(al):
    out = []
    for a in al:
        ty = a.get("type")
        if isinstance(ty, (list, tuple)) and len(ty) == 1:
            ty = ty[0]
        out.append((a["label"], a.get("score_id"), a.get("performance_id"), ty if a["label"] == "ornament" else None))
    return sorted(out, key=repr)


def oracle_rt(desc, res, v0=False, text=True):
    """v0: the file is a synthesised version-0.x file (no text clauses; every ornament is a trill);
    text=False: the text of the file was edited after writing (kind "respell"): only what is loaded is judged"""
    import numpy as np
    import partitura.score as S

    F = []
    if "save_error" in res:
        return ["save: writing the match file raised %s" % res["save_error"]]
    if ("load_error2" in res or "perf" not in res) and not v0 and text:
        F += oracle_text(desc, res)
    if "load_error" in res:
        if "perf" in res and any(a["label"] in ("match", "deletion") for a in desc["align"]) and not grid_ok(desc):
            # a bar line of a stored note lies off the reader's division grid (theorem barline_off_grid): two bar
            # lines less than half a division apart are rounded onto each other and add_measures asserts
            F.append("load-offgrid: load_match(create_score=True) raised %s for a score whose stored bar lines are off "
                     "the reader's division grid" % res["load_error"])
        else:
            F.append("load: load_match(create_score=True) raised %s" % res["load_error"])
    if "load_error2" in res:
        F.append("load: load_match(create_score=False) raised %s" % res["load_error2"])
        return F
    ppq, mpq = desc["ppq"], desc["mpq"]
    if not v0 and text:
        F += oracle_text(desc, res)
    # ---- alignment
    want = canon_align([dict(a, type="trill") if v0 and a["label"] == "ornament" else a for a in desc["align"]])
    got = canon_align(res["align"])
    if want != got:
        miss = [x for x in want if x not in got]
        extra = [x for x in got if x not in want]
        F.append("alignment: loaded alignment differs: missing %r, unexpected %r" % (miss[:3], extra[:3]))
    # ---- performance
    lp = res["perf"][0]
    if lp.ppq != ppq or lp.mpq != mpq:
        F.append("clock: loaded performed part has ppq=%r mpq=%r, file was written with ppq=%d mpq=%d" % (lp.ppq, lp.mpq, ppq, mpq))
    lnotes = {}
    for n in lp.notes:
        if n["id"] in lnotes:
            F.append("perf: performed note id %r loaded twice" % n["id"])
        lnotes[n["id"]] = n
    for n in desc["perf"]["notes"]:
        ln = lnotes.get(n["id"])
        if ln is None:
            F.append("perf: performed note %r lost" % n["id"])
            continue
        if ln["midi_pitch"] != n["pitch"] or ln["velocity"] != n["vel"]:
            F.append("perf: note %r pitch/velocity %r/%r, saved %r/%r" % (n["id"], ln["midi_pitch"], ln["velocity"], n["pitch"], n["vel"]))
        for key, sk, tk in (("on", "note_on", "note_on_tick"), ("off", "note_off", "note_off_tick")):
            if not tick_ok(ln[tk], n[key], ppq, mpq):
                F.append("perf: note %r %s=%r is not the nearest tick of %r s (ppq=%d mpq=%d)" % (n["id"], tk, ln[tk], n[key], ppq, mpq))
            sec = float(Fraction(int(ln[tk])) * mpq / (1000000 * ppq))
            if abs(ln[sk] - sec) > 1e-9 * max(1.0, abs(sec)):
                F.append("perf: note %r %s=%r s is not its tick %r converted back (%r)" % (n["id"], sk, ln[sk], ln[tk], sec))
    if len(lp.notes) != len(desc["perf"]["notes"]):
        F.append("perf: %d notes loaded, %d saved" % (len(lp.notes), len(desc["perf"]["notes"])))
    for num, nm in ((64, "sustain"), (67, "soft")):
        saved = []
        for c in desc["perf"]["controls"]:
            if c["number"] == num and not any(c["value"] == o["value"] and round(exact_tick(c["time"], ppq, mpq)) == round(exact_tick(o["time"], ppq, mpq)) for o in saved):
                saved.append(c)
        loaded = [c for c in lp.controls if c["number"] == num]
        if len(saved) != len(loaded):
            F.append("pedal: %d %s events loaded, %d saved" % (len(loaded), nm, len(saved)))
            continue
        # time-ordered (by exact time; equal-tick events may legitimately swap only if their ticks tie)
        ls = [(c["time"], c["value"]) for c in loaded]
        ticks = [Fraction(*float(t).as_integer_ratio()) * 1000000 * ppq / mpq for t, _ in ls]
        if any(abs(x - round(x)) > Fraction(1, 10**6) for x in ticks):
            F.append("pedal: loaded %s times are not whole ticks" % nm)
            continue
        lt = sorted((int(round(x)), v) for x, (_, v) in zip(ticks, ls))
        ok = True
        sv = sorted(saved, key=lambda c: c["time"])
        # multiset match with tick tolerance: sort both by (value) within equal ticks is not possible without
        # knowing ticks; use greedy: each saved event must find a loaded event with the same value at a tick_ok tick
        pool = list(lt)
        for c in sv:
            hit = next((x for x in pool if x[1] == c["value"] and tick_ok(x[0], c["time"], ppq, mpq)), None)
            if hit is None:
                ok = False
                break
            pool.remove(hit)
        if not ok:
            F.append("pedal: loaded %s events %r do not reproduce the saved ones %r" % (nm, lt[:6], [(c["time"], c["value"]) for c in sv[:6]]))
        if [x[0] for x in ls] != sorted(x[0] for x in ls):
            F.append("pedal: loaded %s events are not in time order" % nm)
    others = [c for c in lp.controls if c["number"] not in (64, 67)]
    if others:
        F.append("pedal: loaded controls contain events that were never written: %r" % others[:3])
    if "score" not in res:
        return F
    # ---- score
    sp = res["spart"]
    lpart = res["score"][0]
    pd = desc["part"]
    byid = {n["id"]: n for n in pd["notes"]}
    stored = [a["score_id"] for a in desc["align"] if a["label"] in ("match", "deletion")]
    if not stored:
        return F
    if not grid_ok(desc):
        return F
    F += oracle_quarters(desc, res, stored, v0)
    if midbar_ts(pd):
        # the loaded time signatures stand at bar starts (see the reading, round 6): measures and beat positions are
        # not comparable; the quarter positions above are
        return F
    F += oracle_measures(desc, res, stored, v0)
    if not bars_covered(desc):
        return F
    sbm, lbm = sp.beat_map, lpart.beat_map
    lna = {}
    for n in lpart.notes_tied:
        if n.id in lna:
            F.append("score: note id %r loaded twice" % n.id)
        lna[n.id] = n
    first_stored_t = min(byid[s]["t"] for s in stored)
    divs = pd["divs"]

    def tied_dur(n):
        du = n["dur"]
        while n.get("tie"):
            n = byid[n["tie"]]
            du += n["dur"]
        return du

    saved_voices = set(byid[x].get("voice") for x in stored) - {None}
    for sid in stored:
        n = byid[sid]
        ln = lna.get(sid)
        if ln is None:
            F.append("score: stored score note %r lost" % sid)
            continue
        ob = float(sbm(n["t"]))
        lob = float(lbm(ln.start.t))
        if abs(ob - lob) > 1e-6:
            F.append("score-onset: note %r loaded at beat %r, saved at beat %r" % (sid, lob, ob))
        db = float(sbm(n["t"] + tied_dur(n))) - ob
        ldb = float(lbm(ln.start.t + ln.duration_tied)) - lob
        if abs(db - ldb) > 1e-6:
            F.append("score-duration: note %r loaded with %r beats, saved %r" % (sid, ldb, db))
        if (ln.step, ln.alter or 0, ln.octave) != (n["step"], n.get("alter") or 0, n["oct"]):
            F.append("score-spelling: note %r loaded as %r, saved %r" % (sid, (ln.step, ln.alter, ln.octave), (n["step"], n.get("alter"), n["oct"])))
        # a note without a voice / staff: the format stores nothing, the reader assigns one (not demanded)
        if n.get("voice") is not None and ln.voice != n["voice"]:
            F.append("score-voice: note %r voice %r, saved %r" % (sid, ln.voice, n["voice"]))
        # "the same voices" as a partition: a note saved without a voice is not put into the voice of notes that have one
        if n.get("voice") is None and ln.voice is not None and ln.voice in saved_voices:
            F.append("score-voice: note %r was saved without a voice and is loaded in voice %r, which stored notes %r have" % (
                sid, ln.voice, [x for x in stored if byid[x].get("voice") == ln.voice][:3]))
        if n.get("staff") is not None and ln.staff != n["staff"]:
            F.append("score-staff: note %r staff %r, saved %r" % (sid, ln.staff, n["staff"]))
        if isinstance(ln, S.GraceNote) != (n["kind"] == "grace"):
            F.append("score-grace: note %r grace-ness changed" % sid)
        sa = set(n.get("art") or []) & {"staccato", "accent"}
        la = set(ln.articulations or []) & {"staccato", "accent"}
        if sa != la:
            F.append("score-articulation: note %r articulations %r, saved %r" % (sid, sorted(la), sorted(sa)))
    # ---- measures and signatures
    stored_t = sorted(byid[s]["t"] for s in stored)
    lmeas = sorted(m.start.t for m in lpart.iter_all(S.Measure))
    lmeas_b = [float(lbm(t)) for t in lmeas]
    prev_ts = None
    prev_ks = None
    l_ts = {}
    for o in lpart.iter_all(S.TimeSignature):
        l_ts.setdefault(o.start.t, []).append((o.beats, o.beat_type))
    l_ks = {}
    for o in lpart.iter_all(S.KeySignature):
        l_ks.setdefault(o.start.t, []).append((o.fifths, o.mode))
    ts_at = {t: (b, bt) for t, b, bt in pd["ts"]}
    ks_at = {t: (f, m) for t, f, m in pd["ks"]}
    for (ms, me, num) in pd["measures"]:
        holds = any(ms <= t < me for t in stored_t)
        cur_ts = ts_at.get(ms)
        if holds and ms >= first_stored_t:
            mb = float(sbm(ms))
            hit = [t for t, b in zip(lmeas, lmeas_b) if abs(b - mb) < 1e-6]
            if not hit:
                F.append("measure: saved measure starting at beat %r (holds stored notes) has no loaded measure there; loaded starts %r" % (mb, lmeas_b[:8]))
            else:
                lt = hit[0]
                if cur_ts is not None and cur_ts != prev_ts:
                    if tuple(cur_ts) not in l_ts.get(lt, []):
                        F.append("timesig: %r written at the bar starting at beat %r, loaded time signatures there: %r (all: %r)" % (
                            cur_ts, mb, l_ts.get(lt), sorted(l_ts.items())[:6]))
                if ms in ks_at and (ks_at[ms][0], ks_at[ms][1] or "major") != prev_ks:
                    f, m = ks_at[ms]
                    m = m or "major"
                    if (f, m) not in l_ks.get(lt, []):
                        F.append("keysig: %r written at the bar starting at beat %r, loaded key signatures there: %r (all: %r)" % (
                            (f, m), mb, l_ks.get(lt), sorted(l_ks.items())[:6]))
        if cur_ts is not None:
            prev_ts = cur_ts
        if ms in ks_at:
            prev_ks = (ks_at[ms][0], ks_at[ms][1] or "major")
    return F


def oracle_text(desc, res):
    """the written file states the positions of the saved score: beat times of snote and signature lines,
    measure numbers counted from 0 (pickup) or 1"""
    F = []
    pd = desc["part"]
    sp = res["spart"]
    sbm = sp.beat_map
    byid = {n["id"]: n for n in pd["notes"]}
    meas = sorted(pd["measures"])
    first_num = 0 if float(sbm(meas[0][0])) < 0 else 1
    divs = pd["divs"]

    def mnum(t):
        return first_num + max(i for i, (ms, me, _) in enumerate(meas) if ms <= t < me)

    def tied_dur(n):
        du = n["dur"]
        while n.get("tie"):
            n = byid[n["tie"]]
            du += n["dur"]
        return du

    for ln in res["text"]:
        if ln.startswith("snote("):
            m = SNOTE_RE.search(ln)
            n = byid[m.group(1)]
            exp = (mnum(n["t"]), int(round(float(sbm(n["t"])) * 10000)), int(round(float(sbm(n["t"] + tied_dur(n))) * 10000)))
            got = (int(m.group(5)), dec4(m.group(9)), dec4(m.group(10)))
            if exp != got or int(m.group(6)) < 1:
                F.append("text-snote: line of %r states measure/onset/offset %r (beat %s), the score has %r" % (m.group(1), got, m.group(6), exp))
    # every written tick is the nearest tick of the binary64 seconds the performed part holds (exact rational
    # arithmetic; a tie of x.5 either way), for every clock and however late in the recording
    pn = {n["id"]: n for n in desc["perf"]["notes"]}
    ppq, mpq = desc["ppq"], desc["mpq"]
    for ln in res["text"]:
        if ln.startswith(("snote(", "insertion-", "ornament(")):
            m = NOTE_RE.search(ln)
            if m is None or m.group(1) not in pn:
                continue
            n = pn[m.group(1)]
            for what, g, key in (("onset", 3, "on"), ("offset", 4, "off")):
                if not tick_ok(int(m.group(g)), n[key], ppq, mpq):
                    F.append("text-tick: note %r is written with %s tick %s, its %s of %r s is tick %s (ppq=%d mpq=%d)" % (
                        m.group(1), what, m.group(g), what, n[key], float(exact_tick(n[key], ppq, mpq)), ppq, mpq))
    for c_re, num in (("sustain", 64), ("soft", 67)):
        written = sorted(int(m.group(2)) for m in (PEDAL_RE.match(ln) for ln in res["text"]) if m and m.group(1) == c_re)
        times = sorted(c["time"] for c in desc["perf"]["controls"] if c["number"] == num)
        # every written pedal tick is the nearest tick of some saved event of that controller and vice versa
        if any(not any(tick_ok(w, t, ppq, mpq) for t in times) for w in written) or \
                any(not any(tick_ok(w, t, ppq, mpq) for w in written) for t in times):
            F.append("text-tick: %s pedal lines at ticks %r are not the nearest ticks of the saved times %r (ppq=%d mpq=%d)" % (
                c_re, written[:6], times[:6], ppq, mpq))
    for attr, src, namef in (("keySignature", sorted(pd["ks"]), lambda x: key_name(x[1], x[2])),
                             ("timeSignature", sorted(pd["ts"]), lambda x: "%d/%d" % (x[1], x[2]))):
        lines = [SIG_RE.match(ln) for ln in res["text"] if ln.startswith("scoreprop(" + attr)]
        want = sorted((namef(x), mnum(x[0]), int(round(float(sbm(x[0])) * 10000))) for x in src if any(ms <= x[0] < me for ms, me, _ in meas))
        got = sorted((m.group(2), int(m.group(3)), dec4(m.group(6))) for m in lines)
        if want != got or any(int(m.group(4)) < 1 for m in lines):
            F.append("text-sig: %s lines state (value, measure, time) %r beats %r, the score has %r" % (attr, got, [m.group(4) for m in lines], want))
            continue
        # round 6: measure:beat + offset of a signature line state its position as they do for a note - beats of the
        # signature's beat type after the bar line plus a non-negative fraction of a whole note (a signature inside a
        # measure; at a bar line: beat 1, offset 0).  Fractions beyond the format's bound of 1024 are approximated by
        # the writer: not judged
        tss = sorted(pd["ts"])
        for m in lines:
            cands = [x for x in src if any(ms <= x[0] < me for ms, me, _ in meas)
                     and (namef(x), mnum(x[0]), int(round(float(sbm(x[0])) * 10000))) == (m.group(2), int(m.group(3)), dec4(m.group(6)))]
            try:
                off = Fraction(m.group(5))
            except (ValueError, ZeroDivisionError):
                F.append("text-sig: %s line %r carries an offset that is no fraction" % (attr, m.group(0)))
                continue
            ok = False
            for x in cands:
                den = [y for y in tss if y[0] <= x[0]][-1][2] if any(y[0] <= x[0] for y in tss) else tss[0][2]
                ms_ = max(q[0] for q in meas if q[0] <= x[0] < q[1])
                rel = x[0] - ms_
                exact = Fraction((rel * den) % (4 * divs), 4 * divs * den)
                if exact.numerator > 1024 or exact.denominator > 1024:
                    ok = True
                    break
                if off >= 0 and Fraction((int(m.group(4)) - 1) * 4 * divs, den) + off * 4 * divs == rel:
                    ok = True
                    break
            if cands and not ok:
                F.append("text-sig: %s line %r does not state the position of its signature (measure start + beats + offset)" % (attr, m.group(0)))
    return F


def oracle_quarters(desc, res, stored, v0=False):
    """positions in quarters from the loaded origin (first stored note if it is not after beat 0, else beat 0):
    independent of the loaded measure structure (the same for the older formats: their global signature line is the
    first signature of the score, which starts at or before the origin)"""
    import partitura.score as S

    F = []
    pd = desc["part"]
    divs = pd["divs"]
    byid = {n["id"]: n for n in pd["notes"]}
    lpart = res["score"][0]
    ldivs = int(lpart._quarter_durations[0])
    o_first = min(byid[s]["t"] for s in stored)
    meas = sorted(pd["measures"])
    beat0 = meas[0][1] if beats_exact(pd, meas[0][0]) < 0 else meas[0][0]
    o_ref = o_first if beats_exact(pd, o_first) <= 0 else beat0

    def tied_dur(n):
        du = n["dur"]
        while n.get("tie"):
            n = byid[n["tie"]]
            du += n["dur"]
        return du

    lna = {}
    for n in lpart.notes_tied:
        lna.setdefault(n.id, n)
    for sid in stored:
        n, ln = byid[sid], lna.get(sid)
        if ln is None:
            continue
        if Fraction(ln.start.t).limit_denominator(10**6) / ldivs != Fraction(n["t"] - o_ref, divs) or int(ln.start.t) != ln.start.t:
            F.append("score-onset-q: note %r loaded %r/%d quarters after the origin, saved %s" % (sid, ln.start.t, ldivs, Fraction(n["t"] - o_ref, divs)))
        if Fraction(ln.duration_tied).limit_denominator(10**6) / ldivs != Fraction(tied_dur(n), divs):
            F.append("score-duration-q: note %r loaded with %r/%d quarters, saved %s" % (sid, ln.duration_tied, ldivs, Fraction(tied_dur(n), divs)))
    for cls, src, val in ((S.TimeSignature, sorted(pd["ts"]), lambda x: (x[1], x[2])),
                          (S.KeySignature, sorted(pd["ks"]), lambda x: (x[1], x[2] or "major"))):
        loaded = {}
        for o in lpart.iter_all(cls):
            v = (int(o.beats), int(o.beat_type)) if cls is S.TimeSignature else (int(o.fifths), o.mode)
            loaded.setdefault(Fraction(o.start.t).limit_denominator(10**6) / ldivs, []).append(v)
        prev = None
        if cls is S.TimeSignature and midbar_ts(pd):
            continue           # a time signature inside a bar is loaded at the start of the bar (reading, round 6)
        src = [x for x in src if any(ms <= x[0] < me for ms, me, _ in meas)]
        changes = []           # signatures that differ from the one before
        for x in src:
            if val(x) != prev:
                changes.append(x)
            prev = val(x)
        if any((Fraction(x[0] - o_ref, divs) * ldivs).denominator != 1 for x in changes if x[0] > o_ref):
            # a signature off the reader's division grid (its position is rounded, possibly onto the origin, where it
            # replaces the signature before it): the same restriction as for the bar lines of stored notes
            continue
        for i, x in enumerate(changes):
            v = val(x)
            if i + 1 < len(changes) and changes[i + 1][0] <= o_ref:
                continue       # replaced before (or at) the loaded origin: not part of the loaded score
            if True:
                q = max(Fraction(0), Fraction(x[0] - o_ref, divs))
                if v not in loaded.get(q, []):
                    F.append("%s: %r written %s quarters after the origin, loaded there: %r (all: %r)" % (
                        "timesig-q" if cls is S.TimeSignature else "keysig-q", v, q, loaded.get(q), sorted(loaded.items())[:6]))
    return F


def oracle_measures(desc, res, stored, v0=False):
    """"measures at the same positions" to the END of the score: the bars from the first to the last stored note
    as a chain of measures, in quarters from the loaded origin (independent of the loaded beat map).

    * measure-end: the measure of the LAST bar that holds a stored note ends where that bar ends in the saved score -
      when that bar is complete (as long as its time signature says: the property's "complete final measure"; the
      format stores no measure lengths, so the reader can only close the last bar with the signature in force there)
      and is not the pickup.  Exact when the end lies on the reader's division grid, else to half a division.
    * measure-extra: no measure that was not written: between the first and the last stored bar line the loaded
      measures start exactly at the bar lines of the bars holding a stored note (every bar, when the alignment
      touches every bar - only then demanded), and after the end of the last stored bar there is no measure unless
      something stored sounds or stands there (a stored note tied / sounding across that bar line, a later
      signature: add_measures then fills the rest of the timeline, legitimately).
    * measure-chain: the loaded measures tile the timeline (each ends where the next begins, none overlap) - when the
      alignment touches every bar (over a bar without a stored note the reader extends the previous measure, and a
      signature standing in such a bar makes add_measures start another measure inside it: not judged).

    The same for the old formats (v0), whose beat times are binary64 reprs (the last bar is closed with the signature
    in force at its first stored note, fix C08-17, so float noise at the bar line does not matter)."""
    import partitura.score as S

    F = []
    pd = desc["part"]
    divs = pd["divs"]
    byid = {n["id"]: n for n in pd["notes"]}
    lpart = res["score"][0]
    ldivs = int(lpart._quarter_durations[0])
    meas = sorted(pd["measures"])
    o_first = min(byid[s]["t"] for s in stored)
    pickup = beats_exact(pd, meas[0][0]) < 0
    beat0 = meas[0][1] if pickup else meas[0][0]
    o_ref = o_first if beats_exact(pd, o_first) <= 0 else beat0

    def tied_dur(n):
        du = n["dur"]
        while n.get("tie"):
            n = byid[n["tie"]]
            du += n["dur"]
        return du

    stored_t = sorted(byid[s]["t"] for s in stored)
    holding = [i for i, (ms, me, _) in enumerate(meas) if any(ms <= t < me for t in stored_t)]
    if not holding:
        return F
    a, b = holding[0], holding[-1]
    if pickup and b == 0:
        return F                      # everything stored lies in the pickup: an incomplete final bar
    ms_b, me_b = meas[b][0], meas[b][1]
    ts = sorted(pd["ts"])
    inforce = [x for x in ts if x[0] <= ms_b]
    if not inforce:
        return F
    _, num, den = inforce[-1]
    complete = (Fraction(me_b - ms_b, divs) == Fraction(4 * num, den)
                and not any(ms_b < x[0] < me_b for x in ts))
    lm = sorted((Fraction(m.start.t).limit_denominator(10**6) / ldivs, Fraction(m.end.t).limit_denominator(10**6) / ldivs)
                for m in lpart.iter_all(S.Measure))
    for (s0, e0), (s1, e1) in zip(lm, lm[1:]):
        # (round 5, split bars) the reader closes the last stored bar with the full length of its time signature; when that
        # bar is the short half of a split bar the measure runs over whatever follows: judged for complete last bars only
        if e0 != s1 and bars_covered(desc) and complete:
            F.append("measure-chain: loaded measures [%s, %s) and [%s, %s) (quarters) do not follow each other" % (s0, e0, s1, e1))
            break
    if not complete:
        return F
    want_s = max(Fraction(0), Fraction(ms_b - o_ref, divs))
    want_e = Fraction(me_b - o_ref, divs)
    on_grid = (want_e * ldivs).denominator == 1
    hit = [x for x in lm if x[0] == want_s]
    if not hit:
        F.append("measure-end: the last bar holding a stored note starts %s quarters after the origin; no loaded measure "
                 "starts there (loaded: %r)" % (want_s, [(str(x), str(y)) for x, y in lm[-4:]]))
        return F
    if abs(hit[-1][1] - want_e) * ldivs > Fraction(1, 2):
        F.append("measure-end: the last bar holding a stored note (%d/%d) spans [%s, %s) quarters from the origin, the loaded "
                 "measure there spans [%s, %s) (loaded measures: %r)" % (num, den, want_s, want_e, hit[-1][0], hit[-1][1],
                                                                         [(str(x), str(y)) for x, y in lm[-4:]]))
    # ---- nothing that was not written
    later = (any(byid[s]["t"] + tied_dur(byid[s]) > me_b for s in stored)
             or any(x[0] > me_b for x in ts) or any(x[0] > me_b for x in pd["ks"]))
    if on_grid and not later:
        extra = [x for x in lm if x[0] >= want_e]
        if extra or (lm and lm[-1][1] != want_e):
            F.append("measure-extra: nothing is stored after the last stored bar (ends %s quarters after the origin), but the "
                     "loaded score has measures %r" % (want_e, [(str(x), str(y)) for x, y in lm[-4:]]))
    if bars_covered(desc):
        first_s = max(Fraction(0), Fraction(meas[a][0] - o_ref, divs))
        want = sorted(set(max(Fraction(0), Fraction(meas[i][0] - o_ref, divs)) for i in range(a, b + 1)))
        got = [x[0] for x in lm if first_s <= x[0] < want_e]
        if got != want and all((w * ldivs).denominator == 1 for w in want):
            F.append("measure-extra: bars holding stored notes start %r quarters after the origin, loaded measures in that "
                     "stretch start %r" % ([str(w) for w in want], [str(g) for g in got]))
    return F


def grid_ok(desc):
    """The reader's divisions are the lcm of the written offset/duration denominators (times beat_type/4);
    the distance of a bar line from the loaded origin is not written as a fraction at all (only the
    four-decimal beat times tell it).  The score clauses are demanded when every bar line of a stored note
    lies on that grid - the hypothesis `hgrid` of the position theorems."""
    pd = desc["part"]
    divs = pd["divs"]
    byid = {n["id"]: n for n in pd["notes"]}
    stored = [byid[a["score_id"]] for a in desc["align"] if a["label"] in ("match", "deletion")]
    if not stored:
        return True
    ts = sorted(pd["ts"])
    meas = sorted(pd["measures"])

    def den_at(t):
        return [x for x in ts if x[0] <= t][-1][2] if any(x[0] <= t for x in ts) else ts[0][2]

    def tied_dur(n):
        du = n["dur"]
        while n.get("tie"):
            n = byid[n["tie"]]
            du += n["dur"]
        return du

    D = 1
    for n in stored:
        ms = max(m[0] for m in meas if m[0] <= n["t"])
        den = den_at(n["t"])
        rel = n["t"] - ms
        off = Fraction((rel * den) % (4 * divs), 4 * divs * den)
        du = Fraction(tied_dur(n), 4 * divs)
        k = max(den // 4, 1)
        for f in (off, du):
            D = D * (k * f.denominator) // math.gcd(D, k * f.denominator)
    o_first = min(n["t"] for n in stored)
    beat0 = meas[0][1] if beats_exact(pd, meas[0][0]) < 0 else meas[0][0]
    o_ref = o_first if beats_exact(pd, o_first) <= 0 else beat0
    for n in stored:
        ms = max(m[0] for m in meas if m[0] <= n["t"])
        if ((ms - o_ref) * D) % divs != 0:
            return False
    return True


def midbar_ts(pd):
    """a time signature strictly inside a measure (round 6): the format puts a signature at the start of its bar"""
    return any(ms < x[0] < me for x in pd["ts"] for ms, me, _ in pd["measures"])


def bars_covered(desc):
    """every bar from the first to the last stored note holds the onset of a stored note"""
    pd = desc["part"]
    byid = {n["id"]: n for n in pd["notes"]}
    ts = sorted(byid[a["score_id"]]["t"] for a in desc["align"] if a["label"] in ("match", "deletion"))
    if not ts:
        return False
    meas = sorted(pd["measures"])
    if beats_exact(pd, meas[0][0]) < 0 and ts[-1] < meas[0][1]:
        # every stored note lies in the pickup: what is stored is one incomplete final bar, which the format
        # cannot tell from a complete one (the property's "complete final measure")
        return False
    for (ms, me, _) in pd["measures"]:
        if me <= ts[0] or ms > ts[-1]:
            continue
        if not any(ms <= t < me for t in ts):
            return False
    # round 5 (split bars): the first bar holding a stored note is the first measure of the loaded score.  When it is
    # shorter than its time signature says and is not the score's pickup (the first half of a bar split by a double
    # bar), Part.beat_map of the LOADED score counts it as an anacrusis: beat positions are then not comparable
    # (the format stores no measure lengths); the quarter-position clauses still apply
    first = next(i for i, (ms, me, _) in enumerate(meas) if any(ms <= t < me for t in ts))
    ms, me, _ = meas[first]
    sig = [x for x in sorted(pd["ts"]) if x[0] <= ms]
    if sig and not (first == 0 and beats_exact(pd, meas[0][0]) < 0):
        if Fraction(me - ms, pd["divs"]) != Fraction(4 * sig[-1][1], sig[-1][2]):
            return False
    return True


def finding_key(desc, failure):
    if failure.startswith("respell: "):
        # "respell: <clause>: ..." -> the clause itself (the re-spelled file of a case shares the case's findings)
        return "C08/" + failure.split(":")[1].strip()
    if failure.startswith("v0 "):
        # "v0 <version>: <clause>: ..." -> the clause, not the version
        return "C08/v0-" + failure.split(":")[1].strip()
    return "C08/" + failure.split(":")[0]


# ====================================================================== correspondence
SNOTE_RE = re.compile(r"snote\(([^,]+),\[([A-Ga-gRr]),([^\]]*)\],(-?\d+|-),(-?\d+):(-?\d+),([^,]+),([^,]+),(-?[\d.]+),(-?[\d.]+),\[([^\]]*)\]\)")
NOTE_RE = re.compile(r"(?<![a-z])note\(([^,]+),(\d+),(-?\d+),(-?\d+),(\d+),(\d+),(\d+)\)")
SIG_RE = re.compile(r"scoreprop\((keySignature|timeSignature),([^,]+),(-?\d+):(-?\d+),([^,]+),(-?[\d.]+)\)\.")
PEDAL_RE = re.compile(r"(sustain|soft)\((-?\d+),(-?\d+)\)\.")
MAJ = ["Cb", "Gb", "Db", "Ab", "Eb", "Bb", "F", "C", "G", "D", "A", "E", "B", "F#", "C#"]
MIN = ["Ab", "Eb", "Bb", "F", "C", "G", "D", "A", "E", "B", "F#", "C#", "G#", "D#", "A#"]


def key_name(f, mode):
    return MAJ[f + 7] if (mode or "major") == "major" else MIN[f + 7] + "m"


def dec4(txt):
    v = Fraction(txt) * 10000
    assert v.denominator == 1
    return int(v)


def frac_fields(txt):
    """'n', 'n/d', 'n/d/t' or a '+'-sum -> (num, den, tup, comps) as FractionalSymbolicDuration holds them"""
    from partitura.io.matchfile_utils import FractionalSymbolicDuration as FSD

    f = FSD.from_string(txt)
    comps = [(int(a), int(b), int(c or 1)) for a, b, c in (f.add_components or [])]
    return int(f.numerator), int(f.denominator), int(f.tuple_div or 1), comps


def score_tokens(pd):
    ts = sorted(pd["ts"])
    return "%d %s %s" % (pd["divs"], W.lst(lambda x: "%d %d %d" % tuple(x), ts),
                         W.lst(lambda m: "%d %d" % (m[0], m[1]), sorted(pd["measures"])))


def beats_exact(pd, t):
    """independent exact beat position (Fractions) used only to decide whether line order is unambiguous"""
    ts = sorted(pd["ts"])
    divs = pd["divs"]

    def raw(t):
        acc = Fraction(0)
        for i, (st, b, bt) in enumerate(ts):
            en = ts[i + 1][0] if i + 1 < len(ts) else None
            if en is None or t < en:
                return acc + Fraction((t - st) * bt, 4 * divs)
            acc += Fraction((en - st) * bt, 4 * divs)
        return acc

    m0 = sorted(pd["measures"])[0]
    shift = Fraction(0)
    if ts and ts[0][0] == m0[0]:
        actual = raw(m0[1]) - raw(m0[0])
        if actual < ts[0][1]:
            shift = actual
    return raw(t) - shift


def corr_rt(desc, res, ev):
    """requests for the model and the implementation's canonical answers"""
    import numpy as np
    import partitura.score as S

    pd = desc["part"]
    byid = {n["id"]: n for n in pd["notes"]}
    pnotes = {n["id"]: n for n in desc["perf"]["notes"]}
    ppq, mpq = desc["ppq"], desc["mpq"]
    text = res.get("text")
    if text is None:
        return
    sct = score_tokens(pd)

    def tied_dur(n):
        du = n["dur"]
        while n.get("tie"):
            n = byid[n["tie"]]
            du += n["dur"]
        return du

    # ---- score-side fields of the snote lines, in file order
    sn = []
    for ln in text:
        m = SNOTE_RE.search(ln)
        if m and ln.startswith("snote("):
            sn.append((m, ln))
    req = "enc %s %s" % (sct, W.lst(lambda x: "%d %d" % (byid[x[0].group(1)]["t"], tied_dur(byid[x[0].group(1)])), sn))
    impl = W.f_list(lambda x: W.f_tuple(x[0].group(5), x[0].group(6), W.f_rat(Fraction(x[0].group(7))), W.f_rat(Fraction(x[0].group(8))),
                                         str(dec4(x[0].group(9))), str(dec4(x[0].group(10)))), sn)
    ev.requests.append(req)
    ev.impl.append(impl)
    # ---- the true positions in quarters the position theorems speak about (Score.quarters): Part.quarter_map of the
    # saved score, counted from the point where its beat map is 0
    sp = res["spart"]
    ots = sorted(set([byid[x[0].group(1)]["t"] for x in sn] + [m[0] for m in pd["measures"]]))
    q0 = float(sp.quarter_map(float(sp.inv_beat_map(0.0))))
    ev.requests.append("quart %s %s" % (sct, W.lst(lambda t: "%d" % t, ots)))
    ev.impl.append(("@approx", [float(sp.quarter_map(t)) - q0 for t in ots], 1e-9))
    # ---- signature lines
    for attr, src, namef in (("keySignature", sorted(pd["ks"]), lambda x: key_name(x[1], x[2])),
                             ("timeSignature", sorted(pd["ts"]), lambda x: "%d/%d" % (x[1], x[2]))):
        lines = [SIG_RE.match(ln) for ln in text if ln.startswith("scoreprop(" + attr)]
        used = set()
        out = []
        for m in lines:
            k = next((i for i, x in enumerate(src) if i not in used and namef(x) == m.group(2)), None)
            if k is not None:
                used.add(k)
            out.append(W.f_tuple(str(k if k is not None else -1), m.group(3), m.group(4), W.f_rat(Fraction(m.group(5))), str(dec4(m.group(6)))))
        ev.requests.append("sig %s %s" % (sct, W.lst(lambda x: "%d" % x[0], src)))
        ev.impl.append("[" + ",".join(out) + "]")
    # ---- order of the note lines
    al = desc["align"]
    pairs = []
    for a in al:
        if a["label"] == "match" and a["score_id"] in byid and a["performance_id"] in pnotes:
            n = byid[a["score_id"]]
            pairs.append("%s %s %s" % (W.q(beats_exact(pd, n["t"])), W.b(n["kind"] == "note" and tied_dur(n) > 0), W.q(float(np.float32(pnotes[a["performance_id"]]["on"])))))
    ents, keys_f = [], []
    knots = {}
    for a in al:
        if a["label"] == "match":
            n = byid[a["score_id"]]
            if n["kind"] == "note":
                knots.setdefault(n["t"], []).append(float(np.float32(pnotes[a["performance_id"]]["on"])))
    kx = sorted((sum(v) / len(v), float(beats_exact(pd, t))) for t, v in knots.items())

    def p2s(x):
        if len(kx) == 0:
            return float("nan")     # no time map (fix C08-13): NaN sorts last
        if len(kx) == 1:
            return kx[0][1]         # partitura.utils.generic.interp1d: one point -> that value everywhere
        xs = [k[0] for k in kx]
        i = min(max(int(np.searchsorted(xs, x)), 1), len(xs) - 1)
        (a, ya), (b, yb) = kx[i - 1], kx[i]
        return (yb - ya) / (b - a) * (x - a) + ya

    for a in al:
        if a["label"] in ("match", "deletion"):
            n = byid[a["score_id"]]
            ents.append("s %s 0" % W.q(beats_exact(pd, n["t"])))
            keys_f.append(("s", float(beats_exact(pd, n["t"]))))
        else:
            pn = pnotes[a["performance_id"]]
            ents.append("p %s %d" % (W.q(pn["on"]), pn["pitch"]))
            keys_f.append(("p", p2s(pn["on"])))
    # the model takes score onsets in beats: they are sent as exact rationals computed by the model itself
    # (request `enc`), here by the independent `beats_exact`; a disagreement of the two shows in `enc`.
    # the knots of the implementation's map are float32 means of float32 onsets (the model: exact means): the keys
    # agree to a tolerance that grows with the spacing of float32 numbers at the performed times (2e-4 up to 4 s)
    tmax = max([abs(n["on"]) for n in desc["perf"]["notes"]] + [0.0])
    scale = max(1.0, tmax / 4.0)
    safe = True
    for i in range(len(keys_f)):
        for j in range(i + 1, len(keys_f)):
            if (keys_f[i][0] == "p" or keys_f[j][0] == "p") and abs(keys_f[i][1] - keys_f[j][1]) < 1e-3 * scale:
                safe = False
    # implementation: note lines in file order -> alignment entry index, and their primary keys
    def entry_index(ln):
        if ln.startswith("snote(") and "-deletion." in ln:
            sid = SNOTE_RE.search(ln).group(1)
            return next(i for i, a in enumerate(al) if a["label"] == "deletion" and a["score_id"] == sid)
        if ln.startswith("snote("):
            sid = SNOTE_RE.search(ln).group(1)
            pid = NOTE_RE.search(ln).group(1)
            return next(i for i, a in enumerate(al) if a["label"] == "match" and a["score_id"] == sid and a["performance_id"] == pid)
        if ln.startswith("insertion-"):
            pid = NOTE_RE.search(ln).group(1)
            return next(i for i, a in enumerate(al) if a["label"] == "insertion" and a["performance_id"] == pid)
        if ln.startswith("ornament("):
            pid = NOTE_RE.search(ln).group(1)
            return next(i for i, a in enumerate(al) if a["label"] == "ornament" and a["performance_id"] == pid)
        return None

    order = []
    for ln in text:
        if ln.startswith(("snote(", "insertion-", "ornament(")):
            order.append(entry_index(ln))
    body = "%s %s" % (W.lst(lambda x: x, pairs), W.lst(lambda x: x, ents))
    if scale <= 8:
        ev.requests.append("ordk " + body)
        ev.impl.append(("@approx", sorted(k for _, k in keys_f if k == k) + [k for _, k in keys_f if k != k], 2e-4 * scale))
    if safe:
        ev.requests.append("ordi " + body)
        ev.impl.append(W.f_list(str, order))
    ev.info["order_safe"] = safe
    # ---- pedal lines and ticks of the note lines
    ev.requests.append("ped %d %d %s" % (mpq, ppq, W.lst(lambda c: "%d %s %d" % (c["number"], W.q(c["time"]), c["value"]), desc["perf"]["controls"])))
    ev.impl.append(W.f_list(lambda m: W.f_tuple("64" if m.group(1) == "sustain" else "67", m.group(2), m.group(3)),
                            [PEDAL_RE.match(ln) for ln in text if PEDAL_RE.match(ln)]))
    nl = [NOTE_RE.search(ln) for ln in text if ln.startswith(("snote(", "insertion-", "ornament(")) and NOTE_RE.search(ln)]
    times = []
    ticks = []
    for m in nl:
        pn = pnotes[m.group(1)]
        times += [pn["on"], pn["off"]]
        ticks += [m.group(3), m.group(4)]
    ev.requests.append("ptick %d %d %s" % (mpq, ppq, W.lst(W.q, times)))
    ev.impl.append(W.f_list(str, ticks))
    if "perf" in res:
        lp = {n["id"]: n for n in res["perf"][0].notes}
        secs = []
        ok = True
        for m in nl:
            ln_ = lp.get(m.group(1))
            if ln_ is None:
                ok = False
                break
            secs += [float(ln_["note_on"]), float(ln_["note_off"])]
        if ok:
            ev.requests.append("psec %d %d %s" % (mpq, ppq, W.lst(W.q, times)))
            ev.impl.append(("@approx", secs, 1e-9))
    corr_load(text, res.get("mf_lines"), ev)
    if "score" in res:
        corr_dec(text, res, ev, desc)


def classify(line):
    from partitura.io.matchfile_base import BaseSnoteNoteLine, BaseDeletionLine, BaseInsertionLine, BaseOrnamentLine

    if isinstance(line, BaseSnoteNoteLine):
        return "m", str(line.snote.Anchor), str(line.note.Id)
    if isinstance(line, BaseDeletionLine):
        return "d", str(line.snote.Anchor), None
    if isinstance(line, BaseInsertionLine):
        return "i", None, str(line.note.Id)
    if isinstance(line, BaseOrnamentLine):
        return "o", str(line.Anchor), str(line.note.Id)
    return "x", None, None


def corr_load(text, mf_lines, ev):
    """the reader's de-duplication: raw text lines (parsed one by one with the real line parsers) -> model;
    the lines load_matchfile keeps -> implementation"""
    from partitura.io import importmatch as IM
    from partitura.io.matchfile_utils import Version

    if mf_lines is None:
        return
    raw = [ln for ln in text if ln != ""]
    version = IM.get_version(raw[0])
    methods = IM.FROM_MATCHLINE_METHODSV1 if not version < Version(1, 0, 0) else IM.FROM_MATCHLINE_METHODSV0
    tid, sidn, pidn = {}, {}, {}
    toks = []
    cache = {}
    for ln in raw:
        t = tid.setdefault(ln, len(tid))
        if ln not in cache:
            cache[ln] = quiet(IM.parse_matchline, ln, methods, version)
        pl = cache[ln]
        if pl is None:
            toks.append("%d n" % t)
            continue
        k, s_, p_ = classify(pl)
        toks.append("%d %s %s %s" % (t, k, W.opt(str, None if s_ is None else sidn.setdefault(s_, len(sidn))),
                                     W.opt(str, None if p_ is None else pidn.setdefault(p_, len(pidn)))))
    kept = []
    for l in mf_lines:
        k, s_, p_ = classify(l)
        kept.append(W.f_tuple(k, W.f_opt(str, None if s_ is None else sidn.get(s_, -1)), W.f_opt(str, None if p_ is None else pidn.get(p_, -1))))
    ev.requests.append("load %s" % W.lst(lambda x: x, toks))
    ev.impl.append("[" + ",".join(kept) + "]")
    ev.info["n_raw"] = len(raw)
    ev.info["n_kept"] = len(mf_lines)
    return sidn, pidn


def corr_dec(text, res, ev, desc=None, last_bar_end=True):
    """score reconstruction: snote / signature lines of the text -> model; loaded part -> implementation.
    With the case description also END TO END: saved score + stored notes -> model's write-then-read
    (`Score.roundTrip`) against the same loaded part"""
    import partitura.score as S

    lpart = res["score"][0]
    kept = res["mf_lines"]
    sn = []
    for l in kept:
        k, _, _ = classify(l)
        if k in ("m", "d"):
            sn.append(l.snote)
    sn = [x for x in sn if str(x.NoteName).lower() != "r"]
    if not sn:
        return

    def fr(f):
        return "%d %d %d" % (int(f.numerator), int(f.denominator), int(f.tuple_div or 1))

    def sn_tok(x):
        comps = x.Duration.add_components or []
        return "%d %d %s %s %s %s %s" % (x.Measure, x.Beat, fr(x.Offset), fr(x.Duration),
                                          W.lst(lambda c: "%d %d %d" % (int(c[0]), int(c[1]), int(c[2] or 1)), comps),
                                          W.q(Fraction(repr(float(x.OnsetInBeats)))), W.q(Fraction(repr(float(x.OffsetInBeats)))))

    mf = res["mf"]
    tsl = mf.time_signatures
    ksl = mf.key_signatures
    if not tsl:
        return
    # a global signature line of the older formats lies in no bar (fix C08-14): a bar number no note carries
    nobar = min(int(x.Measure) for x in sn) - 1
    body = "%s %s %s" % (
        W.lst(sn_tok, sn),
        W.lst(lambda t: "%s %d %d %d" % (W.q(Fraction(repr(float(t[0])))), nobar if t[1] is None else t[1], t[2].numerator, t[2].denominator), tsl),
        W.lst(lambda t: "%s %d" % (W.q(Fraction(repr(float(t[0])))), nobar if t[1] is None else t[1]), ksl))
    # implementation side
    divs = int(lpart._quarter_durations[0])
    meas = sorted(lpart.iter_all(S.Measure), key=lambda m: m.start.t)
    names = sorted(set(int(x.Measure) for x in sn))
    # the reader's own measures are named after the bars of the file and form a chain (each ends where the
    # next begins); measures filled in by add_measures are named by a counter and may carry the same names
    def chain(i, prev_end):
        if i == len(names):
            return []
        for m in sorted((m for m in meas if m.name == str(names[i])), key=lambda m: -m.start.t):
            if prev_end is None or m.start.t == prev_end:
                rest = chain(i + 1, m.end.t)
                if rest is not None:
                    return [m] + rest
        return None

    ch = chain(0, None)
    bl = []
    last_end = None
    for i, b in enumerate(names):
        if ch is not None:
            bl.append(W.f_tuple(str(b), W.f_rat(W.as_fraction(ch[i].start.t))))
            last_end = ch[i].end.t
        else:
            bl.append(W.f_tuple(str(b), "-"))
    tsp = sorted((W.as_fraction(o.start.t), int(o.beats), int(o.beat_type)) for o in lpart.iter_all(S.TimeSignature))
    ksp = sorted(W.as_fraction(o.start.t) for o in lpart.iter_all(S.KeySignature))
    dec_impl = W.f_tuple(str(divs), "[" + ",".join(bl) + "]", W.f_rat(W.as_fraction(last_end)) if last_end is not None else "-",
                         W.f_list(lambda x: W.f_tuple(W.f_rat(x[0]), str(x[1]), str(x[2])), tsp),
                         W.f_list(W.f_rat, ksp), str(res.get("n_fallback", 0)))
    if last_bar_end:
        ev.requests.append("dec " + body)
        ev.impl.append(dec_impl)
    else:
        # synthesised old-format files hold binary64 reprs of the beat times: whether the last bar line lies at or
        # just before a time-signature change is decided by float noise, so its END is not compared
        ev.requests.append("decx " + body)
        ev.impl.append(W.f_tuple(str(divs), "[" + ",".join(bl) + "]",
                                 W.f_list(lambda x: W.f_tuple(W.f_rat(x[0]), str(x[1]), str(x[2])), tsp),
                                 W.f_list(W.f_rat, ksp), str(res.get("n_fallback", 0))))
    rt_body = None
    if desc is not None:
        pd = desc["part"]
        byid = {n["id"]: n for n in pd["notes"]}

        def tied_dur(n):
            du = n["dur"]
            while n.get("tie"):
                n = byid[n["tie"]]
                du += n["dur"]
            return du

        if all(str(x.Anchor) in byid for x in sn):
            vals_ks = []
            kst = []
            for t, f, m in sorted(pd["ks"]):
                v = (f, m or "major")
                if v not in vals_ks:
                    vals_ks.append(v)
                kst.append("%d %d" % (t, vals_ks.index(v)))
            rt_body = "%s %s %s" % (score_tokens(pd),
                                    W.lst(lambda x: "%d %d" % (byid[str(x.Anchor)]["t"], tied_dur(byid[str(x.Anchor)])), sn),
                                    W.lst(lambda x: x, kst))
            ev.requests.append("rtq " + rt_body)
            ev.impl.append(dec_impl)
    lna = {}
    for n in lpart.notes_tied:
        lna.setdefault(n.id, n)
    vals = []
    for x in sn:
        n = lna.get(str(x.Anchor))
        vals.append([float(n.start.t), float(n.duration_tied)] if n is not None else None)
    ev.requests.append("decn " + body)
    ev.impl.append(("@approx", vals, 1e-9))
    if rt_body is not None:
        ev.requests.append("rtn " + rt_body)
        ev.impl.append(("@approx", vals, 1e-9))
    # the score attributes (Model/MatchAttr.lean): attribute list of every snote, whether its duration is 0, the MIDI pitch
    # of the loaded note -> staff (after add_staffs), voice (after the final assignment), staccato, accent, grace-ness
    an = [(x, lna.get(str(x.Anchor))) for x in sn]
    if all(n is not None for _, n in an) and len(set(str(x.Anchor) for x in sn)) == len(sn):
        ev.requests.append("attrs %d %s" % (STAFF_SPLIT, W.lst(lambda p_: "%s %s %d" % (
            W.lst(W.s, [str(a) for a in p_[0].ScoreAttributesList]), W.b(int(p_[0].Duration.numerator) == 0), int(p_[1].midi_pitch)), an)))
        ev.impl.append(W.f_list(lambda p_: W.f_tuple(str(int(p_[1].staff)), W.f_opt(lambda v_: str(int(v_)), p_[1].voice),
                                                       W.f_bool("staccato" in (p_[1].articulations or ())),
                                                       W.f_bool("accent" in (p_[1].articulations or ())),
                                                       W.f_bool(isinstance(p_[1], S.GraceNote))), an))
    # the loaded durations in BINARY64 (Model/MatchFloat.lean: exact integer products, one rounded division, int()):
    # the reader's divisions, per note the duration fraction and its additive components -> (tied) duration in divisions
    dn = [(x, lna.get(str(x.Anchor))) for x in sn]
    dn = [(x, n) for x, n in dn if n is not None]
    if dn:
        ev.requests.append("durf %d %s" % (divs, W.lst(lambda p: "%s %s" % (
            fr(p[0].Duration), W.lst(lambda c: "%d %d %d" % (int(c[0]), int(c[1]), int(c[2] or 1)), p[0].Duration.add_components or [])), dn)))
        ev.impl.append(W.f_list(lambda p: W.f_rat(W.as_fraction(p[1].duration_tied)), dn))
    rests = [r for r in lpart.iter_all(S.Rest) if r.start.t == 0 and r.id is None]
    ev.requests.append("decr " + body)
    ev.impl.append(("@approx", float(rests[0].end.t), 1e-9) if rests else "-")


def oracle_load(text, res, label):
    """the reader neither loses nor duplicates note lines; duplicates are resolved as documented"""
    from partitura.io import importmatch as IM
    from partitura.io.matchfile_utils import Version

    F = []
    if "mf_lines" not in res:
        return ["%s: load_matchfile raised %s" % (label, res.get("load_error"))]
    raw = []
    seen = set()
    for ln in text:
        if ln != "" and ln not in seen:
            seen.add(ln)
            raw.append(ln)
    version = IM.get_version(raw[0])
    methods = IM.FROM_MATCHLINE_METHODSV1 if not version < Version(1, 0, 0) else IM.FROM_MATCHLINE_METHODSV0
    parsed = [quiet(IM.parse_matchline, ln, methods, version) for ln in raw]
    cl = [classify(pl) for pl in parsed if pl is not None]
    from collections import Counter

    sc = Counter(s_ for k, s_, p_ in cl if k in ("m", "d"))
    pc = Counter(p_ for k, s_, p_ in cl if k in ("m", "i", "o"))
    want = []
    for k, s_, p_ in cl:
        if k == "d" and sc[s_] > 1:
            continue
        want.append((k, s_, p_))
    pc2 = Counter(p_ for k, s_, p_ in want if k in ("m", "i", "o"))
    want = [(k, s_, p_) for k, s_, p_ in want if not (k == "i" and pc2[p_] > 1)]
    got = [classify(l) for l in res["mf_lines"]]
    wn = [x for x in want if x[0] != "x"]
    gn = [x for x in got if x[0] != "x"]
    if wn != gn:
        miss = [x for x in wn if x not in gn]
        extra = [x for x in gn if x not in wn]
        F.append("%s: note lines kept by the reader differ from the documented rule: missing %r unexpected %r (kept %d, expected %d)" % (
            label, miss[:3], extra[:3], len(gn), len(wn)))
    if len(want) != len(got):
        F.append("%s: %d lines kept, %d expected" % (label, len(got), len(want)))
    for k, s_, p_ in cl:
        if k == "m" and (k, s_, p_) not in got:
            F.append("%s: a match line was dropped: %r" % (label, (s_, p_)))
    def npid(x):
        return x if x is None or x.startswith("n") else "n" + x

    gn = [(k, s_, npid(p_)) for k, s_, p_ in gn]
    if "align" in res:
        al = [(a["label"][0] if a["label"] != "ornament" else "o", a.get("score_id"), a.get("performance_id")) for a in res["align"]]
        if sorted(al, key=repr) != sorted(gn, key=repr):
            F.append("%s: alignment entries are not the kept note lines" % label)
    if "perf" in res:
        ids = [n["id"] for n in res["perf"][0].notes]
        wid = [p_ for k, s_, p_ in gn if p_ is not None]
        if sorted(ids) != sorted(wid):
            F.append("%s: performed notes %d, note-carrying lines kept %d (lost %r, duplicated/extra %r)" % (
                label, len(ids), len(wid), [x for x in wid if x not in ids][:3], [x for x in ids if x not in wid][:3]))
    return F


def eval_fixture(desc, ev):
    fn = os.path.join(FIXDIR, desc["file"])
    text = open(fn).read().splitlines()
    res = {}
    load_all(fn, res)
    ev.oracle = oracle_load(text, res, "fixture")
    if "load_error" in res:
        ev.oracle.append("fixture: loading %s raised %s" % (desc["file"], res["load_error"]))
    corr_load(text, res.get("mf_lines"), ev)
    if "score" in res:
        corr_dec(text, res, ev)
    ev.key = "fixture:" + desc["file"]
    return ev


def dedup_edit(seed, generic=False):
    """inject duplicate / conflicting note lines into a written file (generic: only the edits that do not depend on
    the 1.0.0 layout of the note( ) part)"""
    def edit(text):
        rng = random.Random(seed)
        notes = [i for i, ln in enumerate(text) if ln.startswith(("snote(", "insertion-"))]
        out = list(text)
        matches = [ln for ln in text if ln.startswith("snote(") and ")-note(" in ln]
        dels = [ln for ln in text if ln.endswith("-deletion.")]
        ins = [ln for ln in text if ln.startswith("insertion-")]
        extra = []
        for _ in range(rng.randint(1, 6)):
            r = rng.random()
            if r < 0.2 and notes:
                extra.append(text[rng.choice(notes)])                       # exact duplicate line
            elif r < 0.45 and matches:
                m = rng.choice(matches)
                extra.append(m[:m.index(")-note(") + 1] + "-deletion.")      # deletion conflicting with a match
            elif r < 0.7 and matches:
                m = rng.choice(matches)
                extra.append("insertion-" + m[m.index(")-note(") + 2:])       # insertion conflicting with a match
            elif r < 0.8 and dels and not generic:
                dl = rng.choice(dels)
                extra.append(dl.replace(",[", ",[dup,", 1) if ",[]" not in dl else dl.replace(",[]", ",[dup]"))  # second deletion, other text
            elif generic:
                if notes:
                    extra.append(text[rng.choice(notes)])
            elif r < 0.9 and ins:
                il = rng.choice(ins)
                mm = NOTE_RE.search(il)
                extra.append(il.replace(",%s,%s)." % (mm.group(6), mm.group(7)), ",%d,%s)." % (int(mm.group(6)) + 1, mm.group(7))))  # second insertion
            elif matches:
                m = rng.choice(matches)
                mm = NOTE_RE.search(m)
                extra.append(m.replace("note(%s," % mm.group(1), "note(%sx," % mm.group(1)))   # second match of the same snote
        for ln in extra:
            out.insert(rng.randint(min(notes) if notes else 0, len(out)), ln)
        if rng.random() < 0.3:
            out.insert(rng.randint(0, len(out)), "")   # also before the version line (fix C08-12)
        return out
    return edit


def respell_fraction(rng, txt, allow_sum=True):
    """an equivalent spelling of the fraction `txt` ('n', 'n/d') as FractionalSymbolicDuration.from_string reads it:
    a tuple divisor ('n/d1/t' with d = d1 * t) or a sum of components ('a/d+b/d', components possibly with tuple
    divisors); every number stays <= 1024"""
    f = Fraction(txt)
    n, d = f.numerator, f.denominator
    if n == 0:
        return txt

    def tup(n_, d_):
        ts = [t for t in (3, 5, 7, 9, 2, 6, 10, 4) if d_ % t == 0]
        if ts and rng.random() < 0.7:
            t = rng.choice(ts)
            return "%d/%d/%d" % (n_, d_ // t, t)
        return "%d/%d" % (n_, d_)

    r = rng.random()
    if r < 0.4:
        return tup(n, d)
    if allow_sum and r < 0.9:
        # split the value into 2-3 components over a common denominator (a multiple of d up to 1024)
        m = rng.choice([k for k in (1, 1, 2, 3, 4) if d * k <= 1024 and n * k <= 1024])
        N, D = n * m, d * m
        if N < 2:
            return tup(n, d)
        parts = []
        left = N
        for _ in range(rng.choice([1, 1, 2])):
            if left < 2:
                break
            a = rng.randint(1, left - 1)
            parts.append(a)
            left -= a
        parts.append(left)
        out = []
        for a in parts:
            g = Fraction(a, D)
            out.append(tup(g.numerator, g.denominator) if rng.random() < 0.5 else "%d/%d" % (a, D))
        return "+".join(out)
    return txt


def respell_edit(seed):
    def edit(text):
        rng = random.Random(seed)
        out = []
        for ln in text:
            m = SNOTE_RE.search(ln) if ln.startswith("snote(") else None
            if m is None or rng.random() < 0.3:
                out.append(ln)
                continue
            off, dur = m.group(7), m.group(8)
            # offsets: tuple divisors only (an offset is one fraction of a whole note)
            off2 = respell_fraction(rng, off, allow_sum=False) if rng.random() < 0.5 else off
            dur2 = respell_fraction(rng, dur) if rng.random() < 0.8 else dur
            a, b = m.span(7)[0], m.span(8)[1]
            out.append(ln[:a] + off2 + "," + dur2 + ln[b:])
        return out
    return edit


def eval_respell(desc, ev):
    """the loading half on the other spellings of a duration: tuple divisors and additive components"""
    base = desc["base"]
    res = save_and_load(base, edit_text=respell_edit(desc["seed"]))
    if "text" not in res:
        ev.key = None
        return ev
    ev.oracle = ["respell: " + f for f in oracle_rt(base, res, text=False)]
    corr_load(res["text"], res.get("mf_lines"), ev)
    if "score" in res:
        corr_dec(res["text"], res, ev)
    fields = [(m.group(7), m.group(8)) for m in (SNOTE_RE.search(ln) for ln in res["text"] if ln.startswith("snote(")) if m]
    n_t = sum(1 for o, d in fields if any(c.count("/") == 2 for c in (o + "+" + d).split("+")))
    n_s = sum(1 for o, d in fields if "+" in d)
    ev.info["respell"] = [n_t, n_s]
    ev.key = "respell:%s:%s" % (base.get("sub"), desc["seed"])
    return ev


def eval_dedup(desc, ev):
    base = desc["base"]
    res = save_and_load(base, edit_text=dedup_edit(desc["seed"]))
    if "text" not in res:
        return ev
    ev.oracle = oracle_load(res["text"], res, "dedup")
    corr_load(res["text"], res.get("mf_lines"), ev)
    ev.key = "dedup:%s:%s" % (base.get("sub"), desc["seed"])
    ev.info["n_dropped"] = ev.info.get("n_raw", 0) - ev.info.get("n_kept", 0)
    return ev


# ====================================================================== evaluate
CASE_CPU_LIMIT = 60


def _preload():
    """everything heavy is imported BEFORE a limit is armed: a limit that fires inside a first (lazy) import leaves
    half-initialised modules behind and would be reported as a failure of code that is fine"""
    import numpy  # noqa: F401
    import scipy.interpolate  # noqa: F401
    import scipy.sparse  # noqa: F401
    import partitura  # noqa: F401
    import partitura.score  # noqa: F401
    import partitura.performance  # noqa: F401
    import partitura.utils.music  # noqa: F401
    import partitura.musicanalysis.performance_codec  # noqa: F401
    import partitura.io.importmatch  # noqa: F401
    import partitura.io.exportmatch  # noqa: F401
    import partitura.io.matchlines_v0  # noqa: F401
    import partitura.io.matchlines_v1  # noqa: F401
    import partitura.io.matchfile_utils  # noqa: F401
    import partitura.io.matchfile_base  # noqa: F401
    import gen_score  # noqa: F401


def evaluate(desc):
    """every case runs under a limit of CPU time (user + system of this process, shared helper cpulimit: waiting for a
    core on a loaded machine costs nothing): a writer / reader that does not terminate is a failure, not a hang"""
    from cpulimit import run_limited, CpuTimeout

    _preload()
    try:
        return run_limited(CASE_CPU_LIMIT, evaluate_, desc)
    except CpuTimeout:
        ev = Eval()
        ev.oracle = ["timeout: writing/loading the match file used more than %d s of CPU time" % CASE_CPU_LIMIT]
        ev.key = None
        return ev


def evaluate_(desc):
    k = desc["k"]
    ev = Eval()
    if k == "rt":
        res = save_and_load(desc)
        ev.oracle = oracle_rt(desc, res)
        corr_rt(desc, res, ev)
        feats = []
        pd = desc["part"]
        if len(set(x[2] for x in pd["ts"])) > 1:
            feats.append("mixed-den")
        if len(pd["ts"]) > 1:
            feats.append("ts-change")
        if pd["measures"][0][1] - pd["measures"][0][0] < Fraction(4 * pd["divs"] * pd["ts"][0][1], pd["ts"][0][2]):
            feats.append("pickup")
        if max([n["on"] for n in desc["perf"]["notes"]] + [0.0]) > 60:
            feats.append("late")
        if desc["ppq"] >= 2000:
            feats.append("fine-clock")
        if pd.get("warm"):
            feats.append("warm-build")
        dens = [x[2] for x in sorted(pd["ts"])]
        if any(a >= 8 and b <= 4 for a, b in zip(dens, dens[1:])):
            feats.append("eighths-then-quarters")
        shape = pd.get("shape") or {}
        feats.append("numbering:%s" % shape.get("numbering", "?"))
        if shape.get("rich"):
            feats.append("rich-rhythm")
        if shape.get("split"):
            feats.append("split-bar")
        if midbar_ts(pd):
            feats.append("timesig-inside-a-bar")
            sl = [byid_t for byid_t in sorted(set(n["t"] for n in pd["notes"] if n["id"] in set(
                a["score_id"] for a in desc["align"] if a["label"] in ("match", "deletion"))))]
            if "mf" in res and sl:
                # is the first line in the reader's order (measure, beat, offset) the earliest stored note?
                try:
                    from partitura.io.importmatch import sort_snotes
                    sn = sort_snotes(res["mf"].snotes)
                    if sn and sn[0].OnsetInBeats > min(x.OnsetInBeats for x in sn):
                        feats.append("first-line-not-earliest")
                except Exception:
                    pass
        nn = [n for n in pd["notes"] if n["kind"] != "rest"]
        if any(n.get("voice") is None for n in nn):
            feats.append("note-without-voice")
        if any(n.get("staff") is None for n in nn):
            feats.append("note-without-staff")
        if any((n.get("staff") or 0) >= 10 for n in nn):
            feats.append("two-digit-staff")
        if any((n.get("voice") or 0) >= 10 for n in nn):
            feats.append("two-digit-voice")
        if any(n.get("orn") or n.get("fermata") or n.get("fing") for n in nn):
            feats.append("ornaments-fermata-fingering")
        if "score" in res:
            ld = int(res["score"][0]._quarter_durations[0])
            feats.append("reader-divs:%s" % ("<=16" if ld <= 16 else "<=96" if ld <= 96 else "<=480" if ld <= 480 else "<=1250" if ld <= 1250 else ">1250"))
        ev.info["feats"] = feats
        ev.info["covered"] = bars_covered(desc)
        ev.info["grid"] = grid_ok(desc)
        ev.key = "rt%s:%s:%d" % ("-" + desc["variant"] if desc.get("variant") else "", desc.get("sub"), len(desc["align"])) if "text" in res else None
        return ev
    if k == "blank":
        base = desc["base"]

        def edit(text):
            out = list(text)
            for pos in sorted(desc["at"], reverse=True):
                out.insert(min(pos, len(out)), "")
            return out

        res = save_and_load(base, edit_text=edit)
        ev.oracle = oracle_rt(base, res)
        corr_rt(base, res, ev)
        ev.key = "blank:%s:%s" % (base.get("sub"), ",".join(map(str, desc["at"]))) if "text" in res else None
        return ev
    if k == "resave":
        return eval_resave(desc, ev)
    if k == "history":
        return eval_history(desc, ev)
    if k == "respell":
        return eval_respell(desc, ev)
    if k == "pid":
        from partitura.io.matchfile_utils import format_pnote_id

        ev.requests.append("pid " + W.lst(W.s, desc["ids"]))
        ev.impl.append(W.f_list(lambda x: W.f_list(lambda c: str(ord(c)), format_pnote_id(x)), desc["ids"]))
        # writing and reading the id again changes nothing more, ids that follow the convention are kept
        for x in desc["ids"]:
            y = format_pnote_id(x)
            if format_pnote_id(y) != y or (x.startswith("n") and y != x):
                ev.oracle.append("pid: performed note id %r is written as %r and read back as %r" % (x, y, format_pnote_id(y)))
        ev.key = "pid:%s" % ",".join(desc["ids"][:6])
        return ev
    if k == "v0":
        return eval_v0(desc, ev)
    if k == "fixture":
        return eval_fixture(desc, ev)
    if k == "dedup":
        return eval_dedup(desc, ev)
    return ev


def eval_resave(desc, ev):
    """save -> load -> save under another clock -> load: every performed time must still be the first loaded time
    rounded to the nearest tick of the clock of the second file (the file stores ticks of ITS header clock)"""
    from partitura.io.exportmatch import save_match
    from partitura.io.importmatch import load_match

    base = desc["base"]
    res = save_and_load(base)
    if "perf" not in res or "save_error" in res:
        ev.key = None
        return ev
    pp1 = res["perf"][0]
    first = {n["id"]: (float(n["note_on"]), float(n["note_off"])) for n in pp1.notes}
    ppq2, mpq2 = desc["ppq2"], desc["mpq2"]
    part = build_part(base["part"])
    with tempfile.TemporaryDirectory(prefix="c08r-") as td:
        fn = os.path.join(td, "y.match")
        try:
            quiet(save_match, [dict(a) for a in res["align"]], pp1, part, out=fn, mpq=mpq2, ppq=ppq2, assume_unfolded=True)
            perf2, al2 = quiet(load_match, fn, create_score=False)
        except Exception as e:
            ev.oracle.append("resave: saving a loaded performance again (ppq %d->%d, mpq %d->%d) raised %s: %s" % (
                base["ppq"], ppq2, base["mpq"], mpq2, type(e).__name__, str(e)[:100]))
            ev.key = "resave"
            return ev
    half = mpq2 / (2e6 * ppq2) + 1e-9
    for n in perf2[0].notes:
        if n["id"] not in first:
            ev.oracle.append("resave: performed note %r appears after the second save" % n["id"])
            break
        on1, off1 = first[n["id"]]
        if abs(float(n["note_on"]) - on1) > half or abs(float(n["note_off"]) - off1) > half:
            ev.oracle.append("resave: note %r was at (%r, %r) s after the first load and is at (%r, %r) s after saving it again "
                             "with ppq=%d mpq=%d (more than half a tick away; first clock ppq=%d mpq=%d)" % (
                                 n["id"], on1, off1, float(n["note_on"]), float(n["note_off"]), ppq2, mpq2, base["ppq"], base["mpq"]))
            break
    if len(perf2[0].notes) != len(first):
        ev.oracle.append("resave: %d notes after the second load, %d after the first" % (len(perf2[0].notes), len(first)))
    ev.key = "resave:%s:%d:%d" % (base.get("sub"), ppq2, mpq2)
    return ev


def shrink(desc):
    """smaller candidates of a round-trip case: no controls, fewer alignment entries (with their performed
    notes), fewer unaligned score notes"""
    import copy

    if desc.get("k") == "dedup":
        yield desc["base"]
        return
    if desc.get("k") == "history":
        st = desc["steps"]
        for i in range(len(st) - 1):
            if len(st) > 2:
                yield dict(desc, steps=st[:i] + st[i + 1:])
        return
    if desc.get("k") != "rt":
        return
    if desc.get("k") == "v0":
        if desc.get("dedup") is not None:
            yield dict(desc, dedup=None)
        for b in shrink(desc["base"]):
            if any(a["label"] in ("match", "deletion") for a in b["align"]):
                yield dict(desc, base=b)
        return
    if desc.get("k") == "blank":
        for i in range(len(desc["at"])):
            yield dict(desc, at=desc["at"][:i] + desc["at"][i + 1:])
        for b in shrink(desc["base"]):
            yield dict(desc, base=b)
        return
    if desc.get("k") != "rt":
        return
    if desc["perf"]["controls"]:
        d = copy.deepcopy(desc)
        d["perf"]["controls"] = []
        yield d
    al = desc["align"]
    step = max(1, len(al) // 4)
    for i in range(0, len(al), step):
        d = copy.deepcopy(desc)
        gone = d["align"][i:i + step]
        d["align"] = d["align"][:i] + d["align"][i + step:]
        pids = set(a.get("performance_id") for a in gone)
        d["perf"]["notes"] = [n for n in d["perf"]["notes"] if n["id"] not in pids]
        if d["align"] and domain_ok(d):
            yield d
    used = set(a.get("score_id") for a in al)
    tied = set()
    for n in desc["part"]["notes"]:
        if n.get("tie"):
            tied.add(n["id"])
            tied.add(n["tie"])
    loose = [n["id"] for n in desc["part"]["notes"] if n["id"] not in used and n["id"] not in tied and n["kind"] != "rest"]
    if loose:
        d = copy.deepcopy(desc)
        d["part"]["notes"] = [n for n in d["part"]["notes"] if n["id"] not in loose]
        yield d


def distribution(descs, results):
    from collections import Counter

    c = Counter()
    for d, r in zip(descs, results):
        c["kind:" + d["k"]] += 1
        info = r.get("info") or {}
        for f in info.get("feats", []):
            c["feat:" + f] += 1
        if d["k"] == "rt":
            c["covered" if info.get("covered") else "uncovered"] += 1
            c["grid_ok" if info.get("grid") else "grid_off"] += 1
            c["order_safe" if info.get("order_safe") else "order_unsafe"] += 1
            c["divs:%d" % d["part"]["divs"]] += 1
            for a in d["align"]:
                c["label:" + a["label"]] += 1
        if d["k"] == "respell":
            rs = info.get("respell") or [0, 0]
            c["respell:lines-with-tuple-divisor"] += rs[0]
            c["respell:lines-with-additive-components"] += rs[1]
        if d["k"] == "dedup":
            c["dedup_dropped:%s" % min(info.get("n_dropped", 0), 5)] += 1
        if d["k"] == "v0":
            c["v0:%s%s" % (info.get("v0", "synth-error" if info.get("synth_error") else "?"), ":dedup" if d.get("dedup") is not None else "")] += 1
    return dict(sorted(c.items()))


if __name__ == "__main__":
    import sys
    import collections
    import warnings

    warnings.filterwarnings("ignore")
    n = int(sys.argv[1]) if len(sys.argv) > 1 else 50
    rng = random.Random(int(sys.argv[2]) if len(sys.argv) > 2 else 0)
    cnt = collections.Counter()
    ex = {}
    tot = 0
    for desc in cases(rng, "search"):
        if desc["k"] != "rt":
            continue
        tot += 1
        if tot > n:
            break
        ev = evaluate(desc)
        for f in ev.oracle:
            kk = finding_key(desc, f)
            cnt[kk] += 1
            ex.setdefault(kk, (desc.get("sub"), f))
    print(tot - 1, "cases")
    for kk, c in cnt.most_common():
        print(c, kk, ex[kk][0], ex[kk][1][:400])
