"""C08 - saving an alignment as a match file and loading it returns the same data.

Reading of the property (what the oracle demands; chosen so that minimally repaired code is right):

* Equality is up to what the format stores.  Performance times are stored in MIDI ticks of the file's
  clock (units = ppq, rate = mpq): the loaded tick of an event is the nearest tick of the saved time in
  seconds (ties of x.5 either way: the binary64 product is not modelled), the loaded seconds are that
  tick converted back, and the loaded performed part carries the file's ppq and mpq.  Performed notes are
  compared by id (the order of notes in the loaded part is the order of lines in the file), pedal events
  as the time-ordered sequences of sustain (64) and soft (67) events; other controllers are not stored.
* Domain (what a "partial alignment" is): every performed note occurs in exactly one entry of kind
  match / insertion / ornament, every score note in at most one entry of kind match / deletion, ornaments
  refer to any score note; at least two distinct score onsets carry a matched non-grace note with distinct
  mean performed onsets (the exporter orders insertions by a performance-time -> score-time interpolation,
  which does not exist otherwise).  Performed note ids follow the format's convention `n<...>`.
  Score notes that occur in no match/deletion entry are not stored by the format, so they are not demanded
  back; neither are bars that hold no stored note.
* Score times are stored as measure:beat + offset (fraction of a whole note, numerator and denominator
  <= 1024: the format's FractionalSymbolicDuration approximates beyond that, so cases stay inside) and as
  beat times printed with four decimals.  Loaded score notes are demanded at the same onset IN BEATS and
  with the same duration in beats (tied duration of the note the alignment names), the same step / alter
  (None and 0 are the same) / octave, id, voice, staff, grace-ness, and the articulations the importer
  supports (staccato, accent).
* "measures at the same positions": for every saved measure holding a stored note whose start is not
  before the first stored note, the loaded part has a measure starting at the same beat.  "time and key
  signatures at the start of the bar where they were written": for every saved signature sitting on the
  start of such a measure the loaded part has, at the loaded start of that measure, a signature object of
  the same content (time signatures that repeat the previous one are not stored twice by the reader).
  A key signature's mode None is written as major.
* De-duplication as documented in validate_match_ids: exact duplicate text lines are read once; if a
  score id occurs in several snote-carrying lines all DELETION lines with that id are dropped; if a
  performed id occurs in several note-carrying lines all INSERTION lines with that id are dropped;
  matches are always kept; nothing else is dropped, nothing is duplicated.
"""
import io
import contextlib
import json
import math
import os
import random
import re
import tempfile
from fractions import Fraction

import wire as W
from core import Eval

PROPERTY = "C08"
DRIVER = "drv_c08"
PROPS = ["PartituraModel.Props.C08"]
TRUSTED = []
PARTIAL = []
RULE = ""
LEVEL_TEXT = ""

REPO = os.environ.get("VERIF_REPO", "/repo")
FIXDIR = os.path.join(REPO, "tests", "data", "match")
STEPS = "CDEFGAB"
BASE = {"C": 0, "D": 2, "E": 4, "F": 5, "G": 7, "A": 9, "B": 11}
TS_POOL = [(4, 4), (3, 4), (2, 4), (6, 8), (5, 4), (2, 2), (3, 8), (9, 8), (12, 8), (3, 2), (7, 8), (4, 8), (6, 4)]


# ====================================================================== generation
def gen_part(rng, tier="quick"):
    """single-divs part with explicit measures (optional pickup), ts/ks changes at bar starts"""
    divs = rng.choice([1, 2, 3, 4, 4, 6, 8, 12, 16, 24, 48, 96, 480])
    ks_ = [k for k in (1, 2, 3, 4, 6, 8, 12) if divs % k == 0]
    k = rng.choice(ks_)
    unit = divs // k
    n_measures = rng.randint(1, 5)
    voices = rng.choice([1, 1, 2, 3])
    staves = rng.choice([1, 2, 2])

    def barlen(beats, bt):
        f = Fraction(4 * divs * beats, bt)
        return int(f) if f.denominator == 1 and int(f) % unit == 0 else None

    def pick_ts():
        for _ in range(50):
            b, bt = rng.choice(TS_POOL)
            if barlen(b, bt):
                return b, bt
        return 4, 4

    same_den = rng.random() < 0.35
    d = {"id": "P0", "divs": divs, "ts": [], "ks": [], "clefs": [], "notes": [], "measures": [], "extras": []}
    beats, bt = pick_ts()
    d["ts"].append([0, beats, bt])
    t = 0
    bars = []
    pickup = rng.random() < 0.35 and barlen(beats, bt) > unit
    for m in range(n_measures + (1 if pickup else 0)):
        if m > 0 and rng.random() < 0.3:
            for _ in range(20):
                b2, bt2 = pick_ts()
                if not same_den or bt2 == bt:
                    break
            if not same_den or bt2 == bt:
                beats, bt = b2, bt2
                d["ts"].append([t, beats, bt])
        bl = barlen(beats, bt)
        if m == 0 and pickup:
            bl = unit * rng.randint(1, bl // unit - 1)
        bars.append((t, t + bl))
        if rng.random() < (0.85 if m == 0 else 0.2):
            d["ks"].append([t, rng.randint(-7, 7), rng.choice(["major", "minor", "major", "minor", None])])
        t += bl
    d["measures"] = [[s, e, i + 1] for i, (s, e) in enumerate(bars)]
    nid = 0
    for v in range(1, voices + 1):
        staff = rng.randint(1, staves)
        open_tie = None
        for (bs, be) in bars:
            pos = bs
            while pos < be:
                dur = min(rng.choice([1, 1, 2, 2, 3, 4, 6, 8]) * unit, be - pos)
                if rng.random() < 0.12:
                    d["notes"].append({"id": "r%d" % nid, "t": pos, "dur": dur, "kind": "rest", "voice": v, "staff": staff})
                    nid += 1
                    open_tie = None
                    pos += dur
                    continue
                if rng.random() < 0.1:
                    d["notes"].append({"id": "g%d" % nid, "t": pos, "dur": 0, "kind": "grace", "step": rng.choice(STEPS),
                                       "alter": rng.choice([-1, 0, 0, None, 1]), "oct": rng.randint(2, 6), "voice": v,
                                       "staff": staff, "grace_type": rng.choice(["grace", "acciaccatura", "appoggiatura"])})
                    nid += 1
                nchord = 1 + (rng.random() < 0.25) + (rng.random() < 0.12)
                used = set()
                prev, open_tie = open_tie, None
                for c in range(nchord):
                    if prev is not None and c == 0:
                        step, alter, octv = prev["step"], prev["alter"], prev["oct"]
                    else:
                        for _ in range(10):
                            step, alter, octv = rng.choice(STEPS), rng.choice([-2, -1, 0, 0, 0, None, 1, 2]), rng.randint(1, 7)
                            if (step, octv) not in used:
                                break
                    used.add((step, octv))
                    n = {"id": "n%d" % nid, "t": pos, "dur": dur, "kind": "note", "step": step, "alter": alter,
                         "oct": octv, "voice": v, "staff": staff}
                    r = rng.random()
                    if r < 0.2:
                        n["art"] = rng.choice([["staccato"], ["accent"], ["staccato", "accent"], ["tenuto"], ["accent", "tenuto"]])
                    nid += 1
                    if prev is not None and c == 0:
                        prev["tie"] = n["id"]
                        n["tied"] = True
                    d["notes"].append(n)
                    if c == 0 and pos + dur < bars[-1][1] and rng.random() < 0.15:
                        open_tie = n
                pos += dur
    return d


def build_part(d):
    """gen_score.build_part plus articulations (copied: the shared helper has no articulations)"""
    import partitura.score as S

    p = S.Part(d["id"], part_name=d.get("name", d["id"]), quarter_duration=d["divs"])
    for t, b, bt in d.get("ts", []):
        p.add(S.TimeSignature(b, bt), t)
    for t, f, m in d.get("ks", []):
        p.add(S.KeySignature(f, m), t)
    byid = {}
    for n in d.get("notes", []):
        kw = dict(id=n["id"], voice=n.get("voice"), staff=n.get("staff"))
        k = n["kind"]
        if k == "rest":
            o = S.Rest(**kw)
        elif k == "grace":
            o = S.GraceNote(n.get("grace_type", "grace"), step=n["step"], octave=n["oct"], alter=n.get("alter"), **kw)
        else:
            o = S.Note(step=n["step"], octave=n["oct"], alter=n.get("alter"), **kw)
            if n.get("art"):
                o.articulations = list(n["art"])
        p.add(o, n["t"], n["t"] + n["dur"])
        byid[n["id"]] = o
    for n in d.get("notes", []):
        if n.get("tie"):
            a, b = byid[n["id"]], byid[n["tie"]]
            a.tie_next = b
            b.tie_prev = a
    for n in d.get("notes", []):
        if n["kind"] == "grace":
            g = byid[n["id"]]
            for m in d["notes"]:
                if m["kind"] == "note" and m["t"] == n["t"] and m.get("voice") == n.get("voice"):
                    g.grace_next = byid[m["id"]]
                    break
    for st, en, num in d.get("measures", []):
        p.add(S.Measure(number=num), st, en)
    return p


def sounding_ids(pd):
    """ids the note array lists: notes and grace notes that are not tie continuations"""
    return [n["id"] for n in pd["notes"] if n["kind"] in ("note", "grace") and not n.get("tied")]


def gen_case(rng, tier="quick"):
    pd = gen_part(rng, tier)
    ppq = rng.choice([480, 480, 96, 1000, 384, rng.randint(1, 2000)])
    mpq = rng.choice([500000, 500000, 600000, 1000000, 352941, rng.randint(100000, 1500000)])
    divs = pd["divs"]
    spq = rng.uniform(0.25, 1.2)  # seconds per quarter of the "performance"
    t0 = rng.choice([0.0, 0.5, 1.0, rng.uniform(0, 3)])
    on_grid = rng.random() < 0.7

    def q(t):
        if not on_grid:
            return float(t)
        tick = round(t * 1e6 * ppq / mpq)
        return tick * mpq / (1e6 * ppq)

    byid = {n["id"]: n for n in pd["notes"]}
    sids = sounding_ids(pd)
    notes, align = [], []
    pc = [0]
    pfx = rng.choice(["n", "n", "n", "nP", "n0-"])

    def new_pid():
        pc[0] += 1
        return "%s%d" % (pfx, pc[0])

    def midi(n):
        return (n["oct"] + 1) * 12 + BASE[n["step"]] + (n.get("alter") or 0)

    def tied_dur(n):
        du = n["dur"]
        while n.get("tie"):
            n = byid[n["tie"]]
            du += n["dur"]
        return du

    def perf_note(pid, pitch, on, dur):
        on = max(0.0, on)
        a = q(on)
        b = q(on + max(dur, 0.02))
        if b <= a:
            b = a + mpq / (1e6 * ppq) * (1 if on_grid else 1.0)
        n = {"id": pid, "pitch": int(min(127, max(0, pitch))), "on": a, "off": b, "vel": rng.randint(1, 127)}
        if rng.random() < 0.3:
            n["track"] = rng.randint(0, 3)
            n["channel"] = rng.randint(0, 15)
        return n

    p_match = rng.choice([0.5, 0.7, 0.9, 1.0])
    p_del = rng.choice([0.0, 0.5, 1.0])
    for sid in sids:
        n = byid[sid]
        r = rng.random()
        tq = n["t"] / divs
        if r < p_match:
            pid = new_pid()
            notes.append(perf_note(pid, midi(n), t0 + tq * spq + rng.uniform(-0.03, 0.03), tied_dur(n) / divs * spq * rng.uniform(0.3, 1.1)))
            align.append({"label": "match", "score_id": sid, "performance_id": pid})
        elif rng.random() < p_del:
            align.append({"label": "deletion", "score_id": sid})
    end_q = pd["measures"][-1][1] / divs
    for _ in range(rng.choice([0, 0, 1, 2, 4])):
        pid = new_pid()
        notes.append(perf_note(pid, rng.randint(21, 108), t0 + rng.uniform(-0.5, end_q + 0.5) * spq, rng.uniform(0.05, 1.0)))
        align.append({"label": "insertion", "performance_id": pid})
    if sids:
        for _ in range(rng.choice([0, 0, 1, 3])):
            pid = new_pid()
            sid = rng.choice(sids)
            tq = byid[sid]["t"] / divs
            notes.append(perf_note(pid, midi(byid[sid]) + rng.choice([-2, -1, 1, 2]), t0 + tq * spq + rng.uniform(-0.1, 0.2), rng.uniform(0.03, 0.3)))
            align.append({"label": "ornament", "score_id": sid, "performance_id": pid,
                          "type": rng.choice(["trill", "mordent", "generic_ornament"])})
    rng.shuffle(align)
    if rng.random() < 0.5:
        rng.shuffle(notes)
    controls = []
    for _ in range(rng.choice([0, 0, 1, 3, 8, 20])):
        controls.append({"number": rng.choice([64, 64, 64, 67, 67, 66, 1]), "time": q(rng.uniform(0, t0 + end_q * spq + 1)),
                         "value": rng.randint(0, 127)})
    return {"k": "rt", "part": pd, "perf": {"notes": notes, "controls": controls}, "align": align, "ppq": ppq, "mpq": mpq}


def domain_ok(desc):
    """at least two distinct score onsets with a matched non-grace note and distinct mean performed onsets"""
    pd = desc["part"]
    byid = {n["id"]: n for n in pd["notes"]}
    pn = {n["id"]: n for n in desc["perf"]["notes"]}
    import numpy as np

    groups = {}
    anym = False
    for a in desc["align"]:
        if a["label"] == "match":
            anym = True
            n = byid[a["score_id"]]
            if n["kind"] == "note":
                groups.setdefault(n["t"], []).append(float(np.float32(pn[a["performance_id"]]["on"])))
            else:
                groups.setdefault(n["t"], [])
    if not anym:
        return False
    if any(len(v) == 0 for v in groups.values()):
        return False  # an onset whose only matched notes are grace notes: mean of nothing (NaN knot)
    means = sorted(sum(v) / len(v) for v in groups.values())
    if len(means) < 2:
        return False
    return all(b - a > 1e-4 for a, b in zip(means, means[1:]))


def cases(rng, tier):
    for fn in sorted(os.listdir(FIXDIR)) if os.path.isdir(FIXDIR) else []:
        if fn.endswith(".match"):
            yield {"k": "fixture", "file": fn}
    n = {"quick": 60, "thorough": 2000, "search": 3000}.get(tier, 60)
    made = 0
    while made < n:
        sub = rng.randint(0, 2**31)
        r2 = random.Random(sub)
        desc = gen_case(r2, tier)
        if not domain_ok(desc):
            continue
        desc["sub"] = sub
        made += 1
        yield desc
        if made % 4 == 0:
            yield {"k": "dedup", "base": desc, "seed": rng.randint(0, 2**31)}


# ====================================================================== running the implementation
def quiet(f, *a, **kw):
    buf = io.StringIO()
    with contextlib.redirect_stdout(buf):
        return f(*a, **kw)


def build_perf(desc):
    from partitura.performance import PerformedPart

    notes = []
    for n in desc["perf"]["notes"]:
        dn = dict(id=n["id"], midi_pitch=n["pitch"], note_on=n["on"], note_off=n["off"], velocity=n["vel"])
        if "track" in n:
            dn["track"] = n["track"]
            dn["channel"] = n["channel"]
        notes.append(dn)
    controls = [dict(number=c["number"], time=c["time"], value=c["value"]) for c in desc["perf"]["controls"]]
    return PerformedPart(notes, id="PP", controls=controls, ppq=desc["ppq"], mpq=desc["mpq"])


def exact_tick(t, ppq, mpq):
    return Fraction(*float(t).as_integer_ratio()) * 1000000 * ppq / mpq


def tick_ok(tick, t, ppq, mpq):
    x = exact_tick(t, ppq, mpq)
    return abs(Fraction(int(tick)) - x) <= Fraction(1, 2) + Fraction(1, 10**6)


def save_and_load(desc, keep_text=True):
    """returns dict(text=[lines], perf, align, score) or dict(error=...)"""
    from partitura.io.exportmatch import save_match
    from partitura.io.importmatch import load_match

    part = build_part(desc["part"])
    ppart = build_perf(desc)
    res = {"spart": part, "ppart": ppart}
    with tempfile.TemporaryDirectory(prefix="c08-") as td:
        fn = os.path.join(td, "x.match")
        try:
            quiet(save_match, [dict(a) for a in desc["align"]], ppart, part, out=fn, mpq=desc["mpq"], ppq=desc["ppq"],
                  assume_unfolded=True)
        except Exception as e:
            res["save_error"] = "%s: %s" % (type(e).__name__, e)
            return res
        res["text"] = open(fn).read().split("\n")
        if res["text"] and res["text"][-1] == "":
            res["text"].pop()
        try:
            perf, al, sc = quiet(load_match, fn, create_score=True)
            res["perf"], res["align"], res["score"] = perf, al, sc
        except Exception as e:
            res["load_error"] = "%s: %s" % (type(e).__name__, e)
            try:
                perf, al = quiet(load_match, fn, create_score=False)
                res["perf"], res["align"] = perf, al
            except Exception as e2:
                res["load_error2"] = "%s: %s" % (type(e2).__name__, e2)
    return res


# ====================================================================== oracle
def canon_align(al):
    out = []
    for a in al:
        ty = a.get("type")
        if isinstance(ty, (list, tuple)) and len(ty) == 1:
            ty = ty[0]
        out.append((a["label"], a.get("score_id"), a.get("performance_id"), ty if a["label"] == "ornament" else None))
    return sorted(out, key=repr)


def oracle_rt(desc, res):
    import numpy as np
    import partitura.score as S

    F = []
    if "save_error" in res:
        return ["save: writing the match file raised %s" % res["save_error"]]
    if "load_error" in res:
        F.append("load: load_match(create_score=True) raised %s" % res["load_error"])
    if "load_error2" in res:
        F.append("load: load_match(create_score=False) raised %s" % res["load_error2"])
        return F
    ppq, mpq = desc["ppq"], desc["mpq"]
    # ---- alignment
    want = canon_align(desc["align"])
    got = canon_align(res["align"])
    if want != got:
        miss = [x for x in want if x not in got]
        extra = [x for x in got if x not in want]
        F.append("alignment: loaded alignment differs: missing %r, unexpected %r" % (miss[:3], extra[:3]))
    # ---- performance
    lp = res["perf"][0]
    if lp.ppq != ppq or lp.mpq != mpq:
        F.append("clock: loaded performed part has ppq=%r mpq=%r, file was written with ppq=%d mpq=%d" % (lp.ppq, lp.mpq, ppq, mpq))
    lnotes = {}
    for n in lp.notes:
        if n["id"] in lnotes:
            F.append("perf: performed note id %r loaded twice" % n["id"])
        lnotes[n["id"]] = n
    for n in desc["perf"]["notes"]:
        ln = lnotes.get(n["id"])
        if ln is None:
            F.append("perf: performed note %r lost" % n["id"])
            continue
        if ln["midi_pitch"] != n["pitch"] or ln["velocity"] != n["vel"]:
            F.append("perf: note %r pitch/velocity %r/%r, saved %r/%r" % (n["id"], ln["midi_pitch"], ln["velocity"], n["pitch"], n["vel"]))
        for key, sk, tk in (("on", "note_on", "note_on_tick"), ("off", "note_off", "note_off_tick")):
            if not tick_ok(ln[tk], n[key], ppq, mpq):
                F.append("perf: note %r %s=%r is not the nearest tick of %r s (ppq=%d mpq=%d)" % (n["id"], tk, ln[tk], n[key], ppq, mpq))
            sec = float(Fraction(int(ln[tk])) * mpq / (1000000 * ppq))
            if abs(ln[sk] - sec) > 1e-9 * max(1.0, abs(sec)):
                F.append("perf: note %r %s=%r s is not its tick %r converted back (%r)" % (n["id"], sk, ln[sk], ln[tk], sec))
    if len(lp.notes) != len(desc["perf"]["notes"]):
        F.append("perf: %d notes loaded, %d saved" % (len(lp.notes), len(desc["perf"]["notes"])))
    for num, nm in ((64, "sustain"), (67, "soft")):
        saved = [c for c in desc["perf"]["controls"] if c["number"] == num]
        loaded = [c for c in lp.controls if c["number"] == num]
        if len(saved) != len(loaded):
            F.append("pedal: %d %s events loaded, %d saved" % (len(loaded), nm, len(saved)))
            continue
        # time-ordered (by exact time; equal-tick events may legitimately swap only if their ticks tie)
        ls = [(c["time"], c["value"]) for c in loaded]
        ticks = [Fraction(*float(t).as_integer_ratio()) * 1000000 * ppq / mpq for t, _ in ls]
        if any(abs(x - round(x)) > Fraction(1, 10**6) for x in ticks):
            F.append("pedal: loaded %s times are not whole ticks" % nm)
            continue
        lt = sorted((int(round(x)), v) for x, (_, v) in zip(ticks, ls))
        ok = True
        sv = sorted(saved, key=lambda c: c["time"])
        # multiset match with tick tolerance: sort both by (value) within equal ticks is not possible without
        # knowing ticks; use greedy: each saved event must find a loaded event with the same value at a tick_ok tick
        pool = list(lt)
        for c in sv:
            hit = next((x for x in pool if x[1] == c["value"] and tick_ok(x[0], c["time"], ppq, mpq)), None)
            if hit is None:
                ok = False
                break
            pool.remove(hit)
        if not ok:
            F.append("pedal: loaded %s events %r do not reproduce the saved ones %r" % (nm, lt[:6], [(c["time"], c["value"]) for c in sv[:6]]))
        if [x[0] for x in ls] != sorted(x[0] for x in ls):
            F.append("pedal: loaded %s events are not in time order" % nm)
    others = [c for c in lp.controls if c["number"] not in (64, 67)]
    if others:
        F.append("pedal: loaded controls contain events that were never written: %r" % others[:3])
    if "score" not in res:
        return F
    # ---- score
    sp = res["spart"]
    lpart = res["score"][0]
    pd = desc["part"]
    byid = {n["id"]: n for n in pd["notes"]}
    stored = [a["score_id"] for a in desc["align"] if a["label"] in ("match", "deletion")]
    if not stored:
        return F
    sbm, lbm = sp.beat_map, lpart.beat_map
    lna = {}
    for n in lpart.notes_tied:
        if n.id in lna:
            F.append("score: note id %r loaded twice" % n.id)
        lna[n.id] = n
    first_stored_t = min(byid[s]["t"] for s in stored)
    divs = pd["divs"]

    def tied_dur(n):
        du = n["dur"]
        while n.get("tie"):
            n = byid[n["tie"]]
            du += n["dur"]
        return du

    for sid in stored:
        n = byid[sid]
        ln = lna.get(sid)
        if ln is None:
            F.append("score: stored score note %r lost" % sid)
            continue
        ob = float(sbm(n["t"]))
        lob = float(lbm(ln.start.t))
        if abs(ob - lob) > 1e-6:
            F.append("score-onset: note %r loaded at beat %r, saved at beat %r" % (sid, lob, ob))
        db = float(sbm(n["t"] + tied_dur(n))) - ob
        ldb = float(lbm(ln.start.t + ln.duration_tied)) - lob
        if abs(db - ldb) > 1e-6:
            F.append("score-duration: note %r loaded with %r beats, saved %r" % (sid, ldb, db))
        if (ln.step, ln.alter or 0, ln.octave) != (n["step"], n.get("alter") or 0, n["oct"]):
            F.append("score-spelling: note %r loaded as %r, saved %r" % (sid, (ln.step, ln.alter, ln.octave), (n["step"], n.get("alter"), n["oct"])))
        if ln.voice != n["voice"]:
            F.append("score-voice: note %r voice %r, saved %r" % (sid, ln.voice, n["voice"]))
        if ln.staff != n["staff"]:
            F.append("score-staff: note %r staff %r, saved %r" % (sid, ln.staff, n["staff"]))
        if isinstance(ln, S.GraceNote) != (n["kind"] == "grace"):
            F.append("score-grace: note %r grace-ness changed" % sid)
        sa = set(n.get("art") or []) & {"staccato", "accent"}
        la = set(ln.articulations or []) & {"staccato", "accent"}
        if sa != la:
            F.append("score-articulation: note %r articulations %r, saved %r" % (sid, sorted(la), sorted(sa)))
    # ---- measures and signatures
    stored_t = sorted(byid[s]["t"] for s in stored)
    lmeas = sorted(m.start.t for m in lpart.iter_all(S.Measure))
    lmeas_b = [float(lbm(t)) for t in lmeas]
    prev_ts = None
    l_ts = {}
    for o in lpart.iter_all(S.TimeSignature):
        l_ts.setdefault(o.start.t, []).append((o.beats, o.beat_type))
    l_ks = {}
    for o in lpart.iter_all(S.KeySignature):
        l_ks.setdefault(o.start.t, []).append((o.fifths, o.mode))
    ts_at = {t: (b, bt) for t, b, bt in pd["ts"]}
    ks_at = {t: (f, m) for t, f, m in pd["ks"]}
    for (ms, me, num) in pd["measures"]:
        holds = any(ms <= t < me for t in stored_t)
        cur_ts = ts_at.get(ms)
        if holds and ms >= first_stored_t:
            mb = float(sbm(ms))
            hit = [t for t, b in zip(lmeas, lmeas_b) if abs(b - mb) < 1e-6]
            if not hit:
                F.append("measure: saved measure starting at beat %r (holds stored notes) has no loaded measure there; loaded starts %r" % (mb, lmeas_b[:8]))
            else:
                lt = hit[0]
                if cur_ts is not None and cur_ts != prev_ts:
                    if tuple(cur_ts) not in l_ts.get(lt, []):
                        F.append("timesig: %r written at the bar starting at beat %r, loaded time signatures there: %r (all: %r)" % (
                            cur_ts, mb, l_ts.get(lt), sorted(l_ts.items())[:6]))
                if ms in ks_at:
                    f, m = ks_at[ms]
                    m = m or "major"
                    if (f, m) not in l_ks.get(lt, []):
                        F.append("keysig: %r written at the bar starting at beat %r, loaded key signatures there: %r (all: %r)" % (
                            (f, m), mb, l_ks.get(lt), sorted(l_ks.items())[:6]))
        if cur_ts is not None:
            prev_ts = cur_ts
    return F


def finding_key(desc, failure):
    return "C08/" + failure.split(":")[0]


# ====================================================================== evaluate
def evaluate(desc):
    k = desc["k"]
    ev = Eval()
    if k == "rt":
        res = save_and_load(desc)
        ev.oracle = oracle_rt(desc, res)
        ev.key = "rt:%s" % desc.get("sub")
        return ev
    return ev


if __name__ == "__main__":
    import sys
    import collections
    import warnings

    warnings.filterwarnings("ignore")
    n = int(sys.argv[1]) if len(sys.argv) > 1 else 50
    rng = random.Random(int(sys.argv[2]) if len(sys.argv) > 2 else 0)
    cnt = collections.Counter()
    ex = {}
    tot = 0
    for desc in cases(rng, "search"):
        if desc["k"] != "rt":
            continue
        tot += 1
        if tot > n:
            break
        ev = evaluate(desc)
        for f in ev.oracle:
            kk = finding_key(desc, f)
            cnt[kk] += 1
            ex.setdefault(kk, (desc.get("sub"), f))
    print(tot - 1, "cases")
    for kk, c in cnt.most_common():
        print(c, kk, ex[kk][0], ex[kk][1][:400])
