"""C04 - score -> MIDI -> score preserves every note's timing and pitch exactly.

Reading.
* "onset and duration in quarter notes": the exact rational value of `Part.quarter_map` (piecewise linear in
  the quarter-duration table, shifted by a pickup measure), computed here with `Fraction`.  After the round trip
  an onset is `tick / ppq + origin` where `origin` is 0 without pickup, the (negative) quarter time of the
  earliest part start for `shift` / `time_sig_change`, and minus one bar of the first time signature for `pad_bar`.
* "exact integer image": `tick = ppq * (quarter(t) - origin)` is an integer and the file holds that integer.
* "no two notes of equal pitch overlap within one track/channel": notes of positive duration are pairwise
  disjoint as half-open intervals, and a zero-duration (grace) note does not lie strictly inside a
  positive-duration note of its pitch.  Touching notes and grace notes on a boundary do not overlap.
* "the same mode on import recovers the same grouping": what both directions document as retained -
  mode 0 (part, voice); mode 1 part and part group; mode 3 part; mode 5 (part, voice) as parts;
  modes 2 and 4 nothing (export mode 2 writes parts to channels of ONE track, import mode 2 reads voices from
  TRACKS and ignores channels, so only the note set survives).  Voice / part numbers are renumbered; the
  grouping is compared as a partition of the notes.
* time signatures under `time_sig_change`: the policy rewrites signatures by design; the oracle demands that
  at the start of every measure the signature in force in the file is the measure's own length (when that is a
  whole number of beats) if the measure is irregular, and the score's signature in force otherwise.  An
  irregular measure whose length is not a whole number of beats is written in a finer beat type (fix C04-9): when
  halving the beat down to /128 makes the count whole, the signature in force at its start states the measure's
  length (any beat type; fix C04-10); when it does not, the count is truncated by design and only a non-zero numerator
  is demanded.
* raw MIDI files (not written by partitura) exercise the two readers: on well-formed ones (per channel and
  pitch a chain of notes that at most touch, note offs partly written as zero-velocity note ons) the notes read
  must be the notes written; on arbitrary ones only model and reader are compared.
* tempo marks: one set_tempo per tick in the first track; when several marks (of one part or of different parts)
  fall on one tick the one read last (part after part, mark after mark) is written - the choice under which the
  code is right (a single global tempo cannot honour both); theorem tempo_last_wins, oracle clause tempo(file).
* "the same mode on import recovers the same grouping": besides the partition, the harness compares the part number
  and voice of every imported note with `writtenCells` (theorem roundtrip_cells): the cell that
  assign_group_part_voice gives to the (track, channel) of the note's key.
* `create_part`: the part gets ONE quarter duration, the file's ticks per quarter, at time 0, and every note is
  placed from its onset tick to onset + duration (theorem create_part_placement, oracle clause divs(import));
  measures, ties and tuplets of the created part are C11's subject.
* the vocabulary of the whole-pipeline theorems (Model/ScoreMidiSpec.lean: routedTo, trackKS, trackTS, trackTempo,
  scoreRows, importedRows, writtenCells) is printed by the driver (`expspec`, `rt`) and compared with what the real
  exporter wrote and the real readers read, separately from the model of the exporter itself.
* "reading that file (directly or through the score importer)": the file may travel as a path, as a file-like object
  or as the in-memory `mido.MidiFile` that `save_score_midi(score, None)` returns, and both readers accept such an
  object.  Reading is an observation: what a read returns does not depend on how the file travels nor on how many
  times, in which order and by which reader (score importer in any of the six modes, performance reader, `mf.save`,
  iterating the messages) the same object was used before, and a read leaves the object's messages as they were.
  The `hist` cases export ONCE to an object, use it several times and demand of every read what is demanded of the
  first (the score's sounding notes; the same result as the path-based call), and of the object that it still equals
  the written file (theorems history_roundtrip, history_reads_independent, history_object_unchanged).  The notes are
  demanded for EVERY import mode, also one other than the export's (score_roundtrip_any_import_mode): the pairing is
  per track and channel of the file, the mode only distributes the notes over parts and voices.
* scores are also built with `gen_score.build_part`'s `warm` bit mask (read-only views interleaved with the
  construction, notes re-added after a wrong first placement): the finished part is the same part, so every clause
  applies unchanged; a memo left behind by an early view and not invalidated shows as a wrong export.
* "all scores": the score is the OBJECT as it is when `save_score_midi` is called, whatever was done with it before.
  The `edit` cases read one score object (an export in some configuration, the time maps, note arrays, every view),
  then edit it - `Part.set_quarter_duration`, `Part.add` / `Part.remove` of a note, a time signature replaced - and
  export it again: the second file must be the export of the score as it is THEN (full oracle on the edited
  description, by the documented meaning of each call) and equal, event for event, the export of a twin built from
  scratch with the same content (theorems edit_history_export, edited_export_exact, edited_note_ticks).
* the zero-length dispatch of the exporter follows the TICKS, not the class of the note: a grace note with an extent
  (added with an end after its start, or given the length of its notated value by the public
  `partitura.score.expand_grace_notes`) sounds for that extent, an ordinary note of zero duration is a sounding note
  of zero duration (theorem zero_length_iff_no_duration).  For `expand_grace` scores the lengths are read back from
  the note objects after the call; a score in which an expanded grace note overlaps a note of its pitch is outside
  the domain (not judged).
* a call with the optional arguments omitted is the documented default call (mode 0, velocity 64, "shift", no minimum
  ppq; import mode 0): theorem default_call over the defaults regenerated from the live signatures.
* "time signatures, key signatures ... appear at the same musical positions" after the import: `load_score_midi` gives
  every part it creates `sorted(set(...))` of the signature events of the tracks that contribute a (track, channel)
  cell to the part (`make_track_to_part_mapping`), plus those of tracks without notes; when some track with notes has
  time signatures and another has none they are shared across all parts (the "sanitize" step), and a part without any
  gets 4/4.  For the file of an export this makes the signatures of an imported part those of the score parts with a
  note in one of its tracks, at the written ticks (theorems import_key_signature_positions,
  import_time_signature_cases, import_time_sig_change_positions, import_signatures_spec); the `impspec` stream compares
  this prediction, computed from the SCORE alone, with the real import in the same and in other modes.
* "tied notes merged": a merged note starts at the onset of the head of its tie chain and lasts the SUM of the lengths
  of the members - wherever the members stand.  A tie may join notes that are NOT neighbours on the timeline (the note
  before a first ending tied to the first note of the second ending; a tie that skips a bar): the end of the last member
  (`end_tied`) is then later than the end of the merged note by what the tie skips (theorems end_tied_gaps,
  end_tied_eq_iff_no_gap; on ordinary chains both are one time: end_tied_contiguous).  `add_gapped_ties` makes such
  chains (the merged note overlaps no note of its pitch).  The generated domain keeps them inside a span on which
  `start + duration_tied` (a count of divisions from the onset) and the sum of the members' lengths in quarters agree
  (`tie_span_uniform`): with a change of the divisions between head and continuation the unchanged exporter converts
  the continuation's divisions at the wrong rate (proposed fix C04-11).
* a `pad_bar` origin that is not a multiple of a tick (bar length of the first signature not representable in
  any division of the score, e.g. 3/8 with one division per quarter) is outside the generated domain
  (`ticks_integral_pad_partial` states the hypothesis; counter-example in Props/C04.lean).
"""
import io
import math
import random
from collections import Counter, defaultdict
from fractions import Fraction

import wire as W
from core import Eval
import gen_score as G
from cpulimit import run_limited, CpuTimeout

PROPERTY = "C04"
DRIVER = "drv_c04"
PROPS = ["PartituraModel.Props.C04", "PartituraModel.Props.C04Export", "PartituraModel.Props.C04Sigs",
         "PartituraModel.Props.C04Cells", "PartituraModel.Props.C04History", "PartituraModel.Props.C04Edit",
         "PartituraModel.Props.C04Total", "PartituraModel.Props.C04ImportSigs",
         "PartituraModel.Props.C04Domain", "PartituraModel.Props.C04ImportMeta", "PartituraModel.Props.C04Ties"]
TRUSTED = [
    "mido: message (de)serialisation, variable-length delta times, end_of_track appended on save; the file is "
    "written to a buffer and read back with mido.MidiFile before anything is compared",
    "binary64 evaluation of ppq*(qm(t)-ftp) before np.round: the model is exact; the deviation is far below 1/2 "
    "whenever the exact image is an integer (theorem ticks_integral), so rounding recovers it",
    "Part.quarter_map / beat_map / time_signature_map (scipy interp1d) are C02/C10's subject: modelled here as exact "
    "piecewise-linear / step functions of the tables and compared through the ticks they produce",
    "pitch spelling, clef and symbolic-duration estimation inside load_score_midi / create_part (C17, C11): only "
    "MIDI pitch, onset, tied duration, voice, part, group and the quarter-duration table of the imported parts are compared",
    "binary64 quarter_map values of the score are snapped to the rational they stand for (denominator <= 10^6) before "
    "they are compared with the model's exact scoreRows",
    "Python dict insertion order; np.lcm.reduce on int64 (no overflow for the generated divisions)",
    "sorted(set(...)) of (tick, numerator, denominator) / (tick, key name) tuples is modelled by insertion into a strictly "
    "ascending list under the lexicographic order of the components (Lean's order on strings = Python's on the ASCII "
    "key names); the options quantization_unit / estimate_voice_info / estimate_key of load_score_midi are off (their "
    "defaults, regenerated from the live signature: import_options_default_off)",
    "Part.add / Part.remove / set_quarter_duration as seen by the exporter are modelled on the tables it reads "
    "(Model/ScoreEdit.lean: quarter-duration table walk, row inserted after the rows that start at or before it, row "
    "erased, time signature replaced); the timeline mechanics behind them are C01's subject; notes are added only at "
    "time points without a grace note (whose class is iterated after the plain notes of the point)",
    "mido refuses a time signature numerator above 255: scores with such a measure are not generated",
    "a mido.MidiFile object is modelled by its ticks per quarter and the (delta time, message) lists of its tracks "
    "(Model/MidiObject.lean); that the readers do not write to it is the modelled behaviour (readOp), checked on the "
    "real object by value after every use; mf.save / mido.MidiFile(file) are the identity on that content",
]
PARTIAL = [
    "ticks_integral_pad_partial / export_ticks_exact_pad_partial / score_roundtrip_pad_partial / "
    "zero_length_iff_no_duration_pad_partial / history_roundtrip_pad_partial / score_roundtrip_any_import_mode_pad_partial: "
    "pad_bar needs beat_type | 4*beats*ppq (bar of the first signature on the tick grid) - pad_bar_integral_iff proves "
    "that this is exactly the condition (necessary and sufficient), so these cannot be strengthened; roundtrip_ticks "
    "(written integer ticks) and export_returns hold for pad_bar without it; property_C04 / property_end_to_end / "
    "property_C04_signatures are stated for shift and time_sig_change (the stage theorems about signatures - "
    "key_signature_positions, import_key_signature_positions, import_time_signature_cases, import_signatures_spec - "
    "hold for pad_bar as well, on the written ticks)",
    "time_sig_change_positions: which signatures are kept and where events may stand is proved; the numerator written "
    "for an irregular measure (whole beats, or halved beats up to /128 after fix C04-9, truncated when not dyadic) and "
    "the dropping of the first of two signatures at one tick are modelled and compared; the oracle demands the "
    "signature in force at every measure start (a non-zero numerator where the length is not a whole number of beats)",
    "parts with different metres merged into one track (modes 1, 2, 4) give a track with two signatures at one tick; "
    "when the importer's part construction rejects such a file the import is neither compared nor judged",
    "the theorems are about the models (saveScoreMidi / loadScoreMidi / setQuarterDuration and their named pieces); that "
    "save_score_midi / load_score_midi / Part.set_quarter_duration compute the modelled functions, and that the theorems' "
    "vocabulary (routedTo, trackKS, trackTS, trackTempo, scoreRows, importedRows, writtenCells, ScoreNoOverlap of "
    "Model/ScoreMidiSpec.lean; importedPartIds, specImportedKS, specImportedTS of Model/ScoreMidiImportSpec.lean) means "
    "what the real file / the real import holds, is established by the differential run only",
    "ties between notes that are not neighbours on the timeline are generated only where no change of the divisions makes "
    "start + duration_tied differ from the sum of the members' lengths in quarters (tie_span_uniform): the unchanged "
    "exporter is wrong outside (witness and repair in fixes/C04-11); the theorems of Props/C04Ties.lean are about the "
    "time in divisions (end_tied against start + duration_tied), the tick image is that of score_roundtrip_tied",
    "create_part: only the quarter duration it sets and the placement of the notes in divisions (create_part_placement); "
    "measures, ties, tuplets, symbolic durations of the created part are C11's subject",
    "imported signatures: the KEY signatures of every imported part are proved for every policy and every pair of export / "
    "import mode (import_key_signature_positions, import_signatures_spec), the TIME signatures for shift / pad_bar in all "
    "three cases of the importer - assumed 4/4, sanitize step, ordinary - (import_time_signature_cases, "
    "import_signatures_spec); for time_sig_change and for any file only that nothing is invented and nothing of the "
    "part's own tracks is lost (import_time_sig_change_positions, import_time_signatures_of_file, "
    "import_signature_sets): which imported part receives which REWRITTEN signature of time_sig_change is modelled and "
    "compared only; the imported tempo positions are proved (import_tempo_positions)",
    "Tempo values (bpm -> microseconds per quarter) are C12's conversion; here positions and the written integer",
    "an `anacrusis_behavior` string other than the three documented ones (accepted silently by the code when the score "
    "has no pickup) is outside the model",
    "export_returns for pad_bar assumes of the input that every part has a time signature with a non-zero beat type in "
    "force at 0 and a pickup no longer than one bar of it (SigOk); for shift / time_sig_change export_returns_iff is exact",
]
RULE = ("seeded musical scores: 1-3 parts (optionally in part groups, also nested two and three levels deep, optionally "
        "one without notes), divisions drawn mostly from {3,5,6,7,9,12,24} and changing inside a part at barlines, 1-4 "
        "bars over a shared or per-part bar skeleton with optional pickup, irregular bars and time signature changes, "
        "0-3 further key signatures at barlines or inside a bar, 0-5 tempo marks per part at barlines (coinciding "
        "across parts) or anywhere, 1-3 voices (one may be None) filled from a duration alphabet with "
        "triplet/quintuplet/septuplet values, rests, chords, single and double grace notes (on a free pitch, on the pitch "
        "of their own main note, or on a pitch that starts or ends there), ties over barlines, notes crossing a division "
        "change; pitches chosen so that equal pitches never overlap anywhere in the score but deliberately touch across "
        "voices/parts; each score x 6 modes x 3 anacrusis behaviours x minimum_ppq in {0,96,480} x a velocity; plus "
        "in about a quarter of the scores 1-2 ties per part between notes that are NOT neighbours on the timeline (the last "
        "note of a chain tied to the head of a later chain after a gap, as over a first ending; same or another voice; "
        "chains of three and more with one or several gaps), kept when the merged note overlaps no note of its pitch; "
        "direct calls of get_ppq-rule, map_to_track_channel, assign_group_part_voice/make_track_to_part_mapping and "
        "duration_tied on random inputs (invalid modes included) and raw MIDI files for the two readers; a share of the "
        "scores built with a random `warm` mask per part (views read in the middle of the construction, notes re-added); "
        "`hist` cases: one export of a score (one configuration) to an in-memory MidiFile (the object returned for "
        "out=None, or one parsed from the written file), then a history of 2-7 uses of that one object - load_score_midi "
        "in any of the six modes (not only the export's), load_performance_midi, mf.save + parse, direct iteration - "
        "each compared with the path-based call (path as str or pathlib.Path) and the object compared by value with "
        "the written file after every use. "
        "A tenth of the scores each have grace notes that LAST (added with an extent), grace notes with a notated value "
        "expanded by partitura.score.expand_grace_notes after the build, or ordinary notes of zero duration. "
        "`edit` cases: one score object is read (an export in a random configuration, the time maps, note arrays, all "
        "views), then edited 1-3 times - set_quarter_duration at a barline / at 0 / at a stored change / anywhere with "
        "a multiple, a divisor or another value (redundant calls included), a note added, a note removed, a time "
        "signature replaced or added at a barline - each edit optionally followed by another read, every edit keeping "
        "the score in the domain (no equal-pitch overlap in musical time, bar of the first signature on the tick grid, "
        "numerators <= 255); the final export (random configuration) is judged by the full oracle on the edited "
        "description, compared event for event with the export of a twin built from scratch, and compared with the model "
        "that applies the edits to the ORIGINAL tables. `reject` cases: unsupported modes, scores without any sounding "
        "note and their accepted neighbours (model and code compared). Per score one call with every optional argument "
        "omitted (defaults regenerated from the signatures) and, per mode, the model's decision that the score is in the "
        "theorems' domain (ScoreNoOverlap). Per successful import (same mode in the score cases, any of the six modes in "
        "the `hist` cases) the part numbers and the key / time signatures of every imported part are compared with the "
        "model's prediction FROM THE SCORE (`impspec`: importedPartIds, specImportedKS, specImportedTS; time signatures "
        "when the policy is not time_sig_change). A few scores per run (and corpus cases s1 / s2) have a sounding part - or "
        "every part - without any time signature, exported with `shift`: they reach the importer's sanitize step and "
        "the assumed 4/4. "
        "distinct = distinct case description; non-trivial = at least one sounding note written")
LEVEL_TEXT = ("Lean 4 theorems over all scores: for every list of parts, mode, anacrusis policy, minimum ppq and velocity "
              "for which the model of save_score_midi returns a file, pairing each written track returns exactly the "
              "sounding notes routed to it (export_pairing_sound), the written ticks are the exact images of the musical "
              "times (export_ticks_exact), importing the file with the model of load_score_midi gives back the multiset "
              "of (onset, duration) in quarters and pitch (score_roundtrip, also from the note objects with tie chains "
              "merged), key / time signatures and tempo marks stand at the ticks of their positions "
              "(key_signature_positions, time_signature_positions, time_sig_change_positions, tempo_positions, "
              "tempo_last_wins, pad_bar_offset), the created parts have ppq divisions per quarter (create_part_placement), "
              "every note comes back in the (part, voice) cell of its key and two notes share a cell exactly when the mode "
              "retains their grouping (roundtrip_cells, grouping_recovered), the import of an export returns "
              "(roundtrip_total), in every import mode (score_roundtrip_any_import_mode, import_total_any_mode), and every "
              "read in every history of uses of one exported MidiFile object returns what the first read returns and "
              "leaves the object unchanged (history_roundtrip, history_perf, history_messages, history_saved, "
              "history_reads_independent, history_object_unchanged); the hypothesis that the exporter returns is "
              "discharged (export_returns, export_returns_iff: exactly when the mode is 0..5, a note sounds and the "
              "signatures the policy reads exist) and the domain is stated on the score in musical time "
              "(ScoreNoOverlap, score_domain_gives_tick_domain), so that property_C04 states the whole round trip - both "
              "stages return, ppq rule, notes in quarters, (part, voice) cells for ANY import mode "
              "(roundtrip_cells_any_import_mode, grouping_recovered_any_import_mode), tempo events "
              "(import_tempo_positions) - from hypotheses about the user's input only; the key and time signatures of "
              "every imported part are exactly those of the score parts with a note in a track from which the import "
              "mode builds the part, at the written ticks of their positions, as strictly ascending lists equal to an "
              "executable function of the score (import_key_signature_positions, import_time_signature_positions, "
              "import_time_signature_cases - assumed 4/4, sanitize step, ordinary case -, "
              "import_time_sig_change_positions, import_signatures_spec, property_C04_signatures; for any file "
              "import_signature_sets, import_time_signatures_of_file: sorted(set(...)) of the tracks of the part and the "
              "global ones, sanitize step included); pad_bar_integral_iff shows the "
              "pad_bar side condition is exact; a score object that was read and then edited is exported as it is then "
              "(edit_history_export, edited_export_exact, edited_note_ticks, set_quarter_duration_takes_effect / _rate), "
              "the zero-length dispatch follows the duration and not the class (zero_length_iff_no_duration), the defaults "
              "and literals of the live source are the model's (source_constants, default_call, import_options_default_off); on top of the "
              "per-track theorems (integer ticks, ppq = lcm * 2^k minimal, delta round trip, stable event order, pairing "
              "automaton, six modes). Tied to the code by a differential run of the real save_score_midi / "
              "load_score_midi / load_performance_midi against the executable models AND against the theorems' "
              "vocabulary (what each track must hold, the notes in musical time) on generated scores for all 54 "
              "configurations, with an independent Fraction oracle of the property itself.")

MODES = [0, 1, 2, 3, 4, 5]
ANAC = ["shift", "pad_bar", "time_sig_change"]
MINPPQ = [0, 96, 480]
DIVS_ODD = [3, 5, 6, 7, 9, 12, 24]
DIVS_ANY = [1, 2, 4, 8, 10, 16, 48]
TS_POOL = [(4, 4), (3, 4), (2, 4), (6, 8), (5, 4), (2, 2), (3, 8), (9, 8), (12, 8), (7, 8), (4, 4), (3, 4)]
DUR_ALPHABET = [Fraction(1, 4), Fraction(1, 2), Fraction(1), Fraction(3, 2), Fraction(2), Fraction(3), Fraction(4),
                Fraction(1, 3), Fraction(2, 3), Fraction(1, 6), Fraction(1, 5), Fraction(2, 5), Fraction(1, 7),
                Fraction(3, 4), Fraction(1, 12), Fraction(4, 3), Fraction(1, 9), Fraction(1, 2), Fraction(1)]
SPELL = {0: [("C", 0), ("B", 1), ("D", -2)], 1: [("C", 1), ("D", -1)], 2: [("D", 0), ("C", 2), ("E", -2)],
         3: [("E", -1), ("D", 1)], 4: [("E", 0), ("F", -1)], 5: [("F", 0), ("E", 1)], 6: [("F", 1), ("G", -1)],
         7: [("G", 0), ("F", 2), ("A", -2)], 8: [("G", 1), ("A", -1)], 9: [("A", 0), ("G", 2), ("B", -2)],
         10: [("B", -1), ("A", 1)], 11: [("B", 0), ("C", -1)]}
BASE = {"C": 0, "D": 2, "E": 4, "F": 5, "G": 7, "A": 9, "B": 11}


# ====================================================================== exact time maps of a part description
def qd_table(pd):
    return [(0, pd["divs"])] + [(t, q) for t, q in pd.get("qd", [])]


def quarter_raw(pd, t):
    """exact quarter_map before the pickup shift: sum of segment lengths / divisions"""
    tbl = qd_table(pd)
    q = Fraction(0)
    for i, (t0, d) in enumerate(tbl):
        t1 = tbl[i + 1][0] if i + 1 < len(tbl) else None
        if t1 is None or t <= t1:
            return q + Fraction(t - t0, d)
        q += Fraction(t1 - t0, d)
    return q


def first_point(pd):
    ts = [n["t"] for n in pd["notes"]] + [x[0] for x in pd.get("ts", [])] + [x[0] for x in pd.get("ks", [])]
    ts += [m[0] for m in (pd.get("measures") or [])] + [e[1] for e in pd.get("extras", [])]
    return min(ts) if ts else 0


_PICKUP = {}   # id(part description) -> pickup, for the duration of one evaluation


def pickup_of(pd):
    k = id(pd)
    if k not in _PICKUP:
        _PICKUP[k] = (pd, pickup_of1(pd))   # the description is kept so that its id cannot be reused
    return _PICKUP[k][1]


def pickup_of1(pd):
    ms = pd.get("measures") or []
    fp = first_point(pd)
    m1 = next((m for m in ms if m[0] == fp), None)
    if m1 is None:
        return Fraction(0)
    ts = next((x for x in pd.get("ts", []) if x[0] == m1[0]), None)
    if ts is None:
        return Fraction(0)
    actual = quarter_raw(pd, m1[1]) - quarter_raw(pd, m1[0])
    return actual if actual < Fraction(4 * ts[1], ts[2]) else Fraction(0)


def quarter(pd, t):
    return quarter_raw(pd, t) - pickup_of(pd)


def ts_in_force(pd, t):
    cur = None
    for x in pd.get("ts", []):
        if x[0] <= t:
            cur = (x[1], x[2])
    return cur


def beat_dur(pd, s, e):
    """exact beat_map(e) - beat_map(s) (notated beats)"""
    tot = Fraction(0)
    cuts = sorted(set([s, e] + [x[0] for x in qd_table(pd) if s < x[0] < e] + [x[0] for x in pd.get("ts", []) if s < x[0] < e]))
    for a, b in zip(cuts, cuts[1:]):
        d = [q for (t, q) in qd_table(pd) if t <= a][-1]
        ts = ts_in_force(pd, a)
        fac = Fraction(ts[1], 4) if ts else Fraction(1)
        tot += fac * Fraction(b - a, d)
    return tot


def origin_of(sd, anac):
    q0 = [quarter(pd, 0) for pd in sd["parts"]]
    first = min(q0)
    if first >= 0:
        return Fraction(0)
    if anac in ("shift", "time_sig_change"):
        return first
    pd = sd["parts"][q0.index(first)]
    ts = ts_in_force(pd, 0) or (4, 4)
    return -Fraction(4 * ts[0], ts[1])


def sounding_desc(pd):
    """[(start, duration_tied, pitch, voice)] of the chain heads, from the description alone"""
    byid = {n["id"]: n for n in pd["notes"]}
    has_prev = set(n["tie"] for n in pd["notes"] if n.get("tie"))
    out = []
    for n in pd["notes"]:
        if n["kind"] not in ("note", "grace") or n["id"] in has_prev:
            continue
        dur, cur = n["dur"], n
        while cur.get("tie"):
            cur = byid[cur["tie"]]
            dur += cur["dur"]
        out.append((n["t"], dur, midi_of(n), n.get("voice")))
    return out


def midi_of(n):
    return (n["oct"] + 1) * 12 + BASE[n["step"]] + (n.get("alter") or 0)


def chain_of(pd, head, byid=None):
    """the members of the tie chain that starts at the note `head`, in chain order"""
    byid = byid or {n["id"]: n for n in pd["notes"]}
    out, cur = [head], head
    while cur.get("tie"):
        cur = byid[cur["tie"]]
        out.append(cur)
    return out


def sounding_quarters(pd):
    """[(onset, duration, pitch, voice)] in QUARTERS of the sounding notes, tied notes merged: a merged note starts at
    the onset of the head of its chain and lasts the SUM of the lengths of the members, each in musical time - wherever
    the members stand (a tie over a first ending joins two notes that are not neighbours on the timeline; the end of
    the last member is then not the end of the merged note)"""
    byid = {n["id"]: n for n in pd["notes"]}
    has_prev = set(n["tie"] for n in pd["notes"] if n.get("tie"))
    out = []
    for n in pd["notes"]:
        if n["kind"] not in ("note", "grace") or n["id"] in has_prev:
            continue
        dq = sum((quarter(pd, m["t"] + m["dur"]) - quarter(pd, m["t"]) for m in chain_of(pd, n, byid)), Fraction(0))
        out.append((quarter(pd, n["t"]), dq, midi_of(n), n.get("voice")))
    return out


def gapped_chains(pd):
    """the tie chains with a member that does not start where its predecessor ends"""
    byid = {n["id"]: n for n in pd["notes"]}
    has_prev = set(n["tie"] for n in pd["notes"] if n.get("tie"))
    out = []
    for n in pd["notes"]:
        if n.get("tie") and n["id"] not in has_prev:
            ch = chain_of(pd, n, byid)
            if any(b["t"] != a["t"] + a["dur"] for a, b in zip(ch, ch[1:])):
                out.append(ch)
    return out


def tie_span_uniform(pd):
    """the generated domain of ties between notes that are not neighbours: the merged length counted in divisions from
    the onset (`start + duration_tied`, what every reader of partitura uses for a tied note) is the sum of the members'
    lengths in quarters - i.e. no change of the divisions makes a division of the gap worth another length than a
    division of the continuation"""
    for ch in gapped_chains(pd):
        t0, D = ch[0]["t"], sum(m["dur"] for m in ch)
        dq = sum((quarter(pd, m["t"] + m["dur"]) - quarter(pd, m["t"]) for m in ch), Fraction(0))
        if quarter(pd, t0 + D) - quarter(pd, t0) != dq:
            return False
    return True


def add_gapped_ties(rng, sd, tries=6):
    """TIES BETWEEN NOTES THAT ARE NOT NEIGHBOURS on the timeline (the note before a first ending tied to the first note
    of the second ending; a tie that skips a bar of rest): the last note of a chain is tied to the head of a later chain
    that starts after a gap, the later chain takes the pitch of the earlier one.  Kept when the score stays in the
    property's domain (the MERGED note - onset of the head, sum of the lengths - overlaps no note of its pitch)."""
    n_added = 0
    for pd in sd["parts"]:
        for _ in range(rng.choice([1, 1, 2])):
            for _try in range(tries):
                byid = {n["id"]: n for n in pd["notes"]}
                has_prev = set(n["tie"] for n in pd["notes"] if n.get("tie"))
                notes = [n for n in pd["notes"] if n["kind"] == "note" and n["dur"] > 0]
                tails = [n for n in notes if not n.get("tie")]
                heads = [n for n in notes if n["id"] not in has_prev]
                if not tails or not heads:
                    break
                a = rng.choice(tails)
                later = [b for b in heads if b["t"] > a["t"] + a["dur"]]
                if not later:
                    continue
                # mostly the same voice (a tie as it is notated), sometimes another one
                same = [b for b in later if b.get("voice") == a.get("voice")]
                b = rng.choice(same if same and rng.random() < 0.7 else later)
                ch = chain_of(pd, b, byid)
                old = [(m["step"], m.get("alter"), m["oct"]) for m in ch]
                for m in ch:
                    m["step"], m["alter"], m["oct"] = a["step"], a.get("alter"), a["oct"]
                a["tie"] = b["id"]
                _PICKUP.clear()
                if domain_ok(sd) and tie_span_uniform(pd):
                    n_added += 1
                    break
                del a["tie"]
                for m, o in zip(ch, old):
                    m["step"], m["alter"], m["oct"] = o
    _PICKUP.clear()
    if n_added:
        sd["gapped_ties"] = n_added
    return sd


# ====================================================================== generator
def lcm(a, b):
    return a * b // math.gcd(a, b)


def gen_skeleton(rng):
    nbars = rng.randint(1, 4)
    bars = []
    ts = rng.choice(TS_POOL)
    for k in range(nbars):
        if k > 0 and rng.random() < 0.3:
            ts = rng.choice(TS_POOL)
        beats = ts[0]
        # an irregular (shorter / longer) bar in the middle of the piece
        if k > 0 and rng.random() < 0.12:
            beats = rng.choice([b for b in range(1, ts[0] + 2) if b != ts[0]])
        bars.append((ts, beats))
    pickup = None
    if rng.random() < 0.55:
        full = Fraction(4 * bars[0][0][0], bars[0][0][1])
        cands = [p for p in [Fraction(1, 2), Fraction(1), Fraction(3, 2), Fraction(2), Fraction(1, 4), Fraction(1, 3),
                             Fraction(2, 3), Fraction(3, 4), Fraction(1), Fraction(1, 2)] if p < full]
        if cands:
            pickup = rng.choice(cands)
    return bars, pickup


class Occupied:
    """equal-pitch occupancy in quarter time over the whole score"""

    def __init__(self):
        self.pos = defaultdict(list)   # pitch -> [(q0, q1)] positive durations
        self.zero = defaultdict(list)  # pitch -> [q]

    def free(self, p, q0, q1):
        if q0 == q1:
            return not any(a < q0 < b for a, b in self.pos[p])
        if any(a < q1 and q0 < b for a, b in self.pos[p]):
            return False
        return not any(q0 < z < q1 for z in self.zero[p])

    def add(self, p, q0, q1):
        if q0 == q1:
            self.zero[p].append(q0)
        else:
            self.pos[p].append((q0, q1))

    def touching(self, q0):
        return [p for p, iv in self.pos.items() if any(b == q0 for _, b in iv)]

    def starting(self, q0):
        return [p for p, iv in self.pos.items() if any(a == q0 for a, _ in iv)]


def spell(rng, midi):
    st, al = rng.choice(SPELL[midi % 12])
    octv = (midi - BASE[st] - al) // 12 - 1
    return st, al, octv


GRACE_TYPES = {"quarter": Fraction(1), "eighth": Fraction(1, 2), "16th": Fraction(1, 4), "32nd": Fraction(1, 8)}


def gen_part(rng, pid, skeleton, occ, empty=False, style=None):
    """`style`: None - grace notes take no time and every other note has a positive duration (what every importer
    produces); "extent" - grace notes that last (a GraceNote added with an end after its start); "expand" - grace notes
    with a notated value, given that length by `partitura.score.expand_grace_notes` after the part is built ("xdur":
    the length the description expects); "zero" - ordinary notes of zero duration.  The exporter's zero-length
    dispatch follows the ticks, not the class of the note."""
    bars, pickup = skeleton
    d = rng.choice(DIVS_ODD) if rng.random() < 0.7 else rng.choice(DIVS_ANY)
    if pickup is not None:
        d = d * (pickup.denominator // math.gcd(d, pickup.denominator))
    pd = {"id": pid, "divs": None, "qd": [], "ts": [], "ks": [], "clefs": [], "notes": [], "measures": [], "extras": []}
    layout = []  # (start_div, end_div, divs, start_q)
    t, q = 0, Fraction(0)
    cur_ts = None
    if pickup is not None:
        q = -pickup
    for k, (ts, beats) in enumerate(bars):
        if k > 0 and rng.random() < 0.25:
            d = rng.choice(DIVS_ODD + DIVS_ANY)
        blen_q = Fraction(4 * beats, ts[1])
        full_q = Fraction(4 * ts[0], ts[1])
        need = lcm(blen_q.denominator, full_q.denominator)
        d = d * (need // math.gcd(d, need))
        if pd["divs"] is None:
            pd["divs"] = d
        elif d != layout[-1][2]:
            pd["qd"].append([t, d])
        if ts != cur_ts:
            pd["ts"].append([t, ts[0], ts[1]])
            cur_ts = ts
        if k == 0 and pickup is not None:
            plen = int(pickup * d)
            layout.append((t, t + plen, d, q))
            pd["measures"].append([t, t + plen, 0])
            t += plen
            q += pickup
        blen = int(blen_q * d)
        layout.append((t, t + blen, d, q))
        pd["measures"].append([t, t + blen, k + 1])
        t += blen
        q += blen_q
    end_t = t
    pd["ks"].append([0, rng.randint(-7, 7), rng.choice(["major", "minor", None])])
    # key signature changes in the middle of the piece: at barlines and (less often) inside a bar
    for _ in range(rng.choice([0, 0, 0, 1, 1, 2, 3])):
        if len(layout) > 1 and rng.random() < 0.7:
            kt = layout[rng.randrange(1, len(layout))][0]
        else:
            kt = rng.randrange(0, end_t)
        if all(x[0] != kt for x in pd["ks"]):
            pd["ks"].append([kt, rng.randint(-7, 7), rng.choice(["major", "minor"])])
    pd["ks"].sort(key=lambda x: x[0])
    if rng.random() < 0.5:
        pd["extras"].append(["Tempo", 0, None, {"bpm": rng.choice([60, 72.5, 90, 120, 133]), "unit": rng.choice(["q", "h", "q.", "e"])}])
    # several tempo marks: at barlines (where the other parts of a shared skeleton have theirs too) and anywhere
    for _ in range(rng.choice([0, 0, 0, 1, 1, 2, 3, 4])):
        tt = layout[rng.randrange(len(layout))][0] if rng.random() < 0.5 else rng.randrange(0, end_t)
        pd["extras"].append(["Tempo", tt, None, {"bpm": rng.choice([50, 66, 100, 144.4, 81, 200]), "unit": rng.choice(["q", "q", "h", "e"])}])
    pd["clefs"].append([0, 1, "G", 2, 0])

    def qpos(tt):
        for (a, b, dd, qq) in layout:
            if a <= tt <= b:
                return qq + Fraction(tt - a, dd)
        raise AssertionError

    nid = [0]

    def new_id(prefix):
        nid[0] += 1
        return "%s%s_%d" % (prefix, pid, nid[0])

    if empty:
        pd["notes"].append({"id": new_id("r"), "t": 0, "dur": end_t, "kind": "rest", "voice": 1, "staff": 1})
        return pd
    voices = rng.sample([1, 2, 3, 5], rng.randint(1, 3))
    if rng.random() < 0.12:
        voices[rng.randrange(len(voices))] = None
    for v in voices:
        bi, pos = 0, 0
        while bi < len(layout):
            a, b, dd, _ = layout[bi]
            if pos >= b:
                bi += 1
                continue
            cands = [x for x in DUR_ALPHABET if (x * dd).denominator == 1]
            dq = rng.choice(cands) if cands else Fraction(1, dd)
            dur = int(dq * dd)
            pieces = []
            if pos + dur <= b:
                pieces = [(pos, dur)]
            else:
                r = rng.random()
                first = b - pos
                if bi + 1 < len(layout) and r < 0.45:
                    nd = layout[bi + 1][2]
                    rem = (dq - Fraction(first, dd)) * nd
                    nb = layout[bi + 1][1] - layout[bi + 1][0]
                    if rem.denominator == 1 and 0 < rem <= nb:
                        if r < 0.3:
                            pieces = [(pos, first), (b, int(rem))]          # tie over the barline
                        else:
                            pieces = [(pos, first + int(rem))]                # one note across the barline
                if not pieces:
                    pieces = [(pos, first)]
            total_end = pieces[-1][0] + pieces[-1][1]
            if rng.random() < 0.15:
                pd["notes"].append({"id": new_id("r"), "t": pos, "dur": total_end - pos, "kind": "rest", "voice": v, "staff": 1})
                pos = total_end
                continue
            q0, q1 = qpos(pos), qpos(total_end)
            nchord = 1 + (rng.random() < 0.25) + (rng.random() < 0.1)
            chosen = []
            for c in range(nchord):
                pool = []
                if rng.random() < 0.35:
                    pool = [p for p in occ.touching(q0) if occ.free(p, q0, q1)]
                p = None
                if pool:
                    p = rng.choice(pool)
                else:
                    for _ in range(12):
                        x = rng.randint(36, 96)
                        if occ.free(x, q0, q1):
                            p = x
                            break
                if p is None:
                    continue
                occ.add(p, q0, q1)
                chosen.append(p)
            # grace note before the main notes, sometimes with the pitch of a note starting or ending here
            for _g in range(rng.choice([1, 1, 1, 2]) if rng.random() < (0.16 if style is None else 0.4) else 0):
                r = rng.random()
                # the length of the grace note in divisions (0: takes no time) and, for "expand", its notated value
                gd, gsym = 0, None
                if style == "extent" and rng.random() < 0.8:
                    gcand = [x for x in (1, dd // 2, dd // 4, pieces[0][1], dd) if 0 < x and pos + x <= b]
                    gd = rng.choice(gcand) if gcand else 0
                elif style == "expand":
                    gcand = [(ty, int(fr * dd)) for ty, fr in GRACE_TYPES.items() if (fr * dd).denominator == 1 and pos + int(fr * dd) <= b]
                    gsym, gd = rng.choice(gcand) if gcand else (None, 0)
                    if gsym is None:
                        continue  # no notated value has a whole length here: no grace note
                qg = qpos(pos + gd)
                if gd == 0 and style == "zero" and rng.random() < 0.3:
                    pool = []
                elif gd == 0 and r < 0.35 and chosen:
                    pool = [p for p in chosen if occ.free(p, q0, q0)]      # the pitch of its own main note
                elif r < 0.7:
                    # a pitch that starts or ends here (one that starts here is taken only by a grace note of no length)
                    pool = [p for p in ((occ.starting(q0) if gd == 0 else []) + occ.touching(q0)) if occ.free(p, q0, qg)]
                else:
                    pool = []
                gp = rng.choice(pool) if pool else next((x for x in [rng.randint(36, 96) for _ in range(8)] if occ.free(x, q0, qg)), None)
                if gp is not None:
                    occ.add(gp, q0, qg)
                    st, al, oc = spell(rng, gp)
                    if style == "zero" and rng.random() < 0.7:
                        # an ordinary note of zero duration
                        pd["notes"].append({"id": new_id("z"), "t": pos, "dur": 0, "kind": "note", "step": st, "alter": al, "oct": oc,
                                            "voice": v, "staff": 1})
                        continue
                    g = {"id": new_id("g"), "t": pos, "dur": 0 if style == "expand" else gd, "kind": "grace", "step": st, "alter": al,
                         "oct": oc, "voice": v, "staff": 1, "grace_type": rng.choice(["grace", "acciaccatura", "appoggiatura"])}
                    if gsym is not None:
                        g["symdur"] = {"type": gsym}
                        g["xdur"] = gd
                    pd["notes"].append(g)
            for p in chosen:
                st, al, oc = spell(rng, p)
                prev = None
                for (pt, pdur) in pieces:
                    n = {"id": new_id("n"), "t": pt, "dur": pdur, "kind": "note", "step": st, "alter": al, "oct": oc, "voice": v, "staff": 1}
                    if prev is not None:
                        prev["tie"] = n["id"]
                    pd["notes"].append(n)
                    prev = n
            if not chosen:
                pd["notes"].append({"id": new_id("r"), "t": pos, "dur": total_end - pos, "kind": "rest", "voice": v, "staff": 1})
            pos = total_end
    if not any(n["kind"] == "note" and n["dur"] > 0 for n in pd["notes"]):
        # keep at least one sounding note in a non-empty part
        for x in range(36, 97):
            if occ.free(x, qpos(0), qpos(layout[0][1])):
                occ.add(x, qpos(0), qpos(layout[0][1]))
                st, al, oc = spell(rng, x)
                pd["notes"].append({"id": new_id("n"), "t": 0, "dur": layout[0][1], "kind": "note", "step": st, "alter": al, "oct": oc,
                                    "voice": 1, "staff": 1})
                break
    # notes are added in order of time so that iteration order is insertion order per time point
    pd["notes"].sort(key=lambda n: n["t"])
    return pd


def gen_score(rng):
    """parts that start equally early (equal exact pickup) have the same first time signature: `pad_bar` takes the
    bar of "the" earliest part, and among parts that tie exactly the code's choice depends on the last bit of a
    binary64 quarter time"""
    for _ in range(50):
        sd = gen_score1(rng)
        first = {}
        if all(first.setdefault(pickup_of(pd), ts_in_force(pd, 0)) == ts_in_force(pd, 0) for pd in sd["parts"] if pickup_of(pd) > 0):
            return sd
    return sd


def gen_score1(rng, style="any"):
    nparts = rng.choice([1, 1, 2, 2, 3])
    shared = rng.random() < 0.7
    sk = gen_skeleton(rng)
    occ = Occupied()
    parts = []
    empty_at = rng.randrange(nparts) if nparts > 1 and rng.random() < 0.12 else None
    style = rng.choice([None] * 7 + ["extent", "expand", "zero"]) if style == "any" else style
    for i in range(nparts):
        parts.append(gen_part(rng, "P%d" % i, sk if shared else gen_skeleton(rng), occ, empty=(i == empty_at), style=style))
    # structure: parts optionally wrapped in groups; a group may contain further groups ("n": nested items)
    struct, i = [], 0
    while i < nparts:
        r = rng.random()
        if r < 0.3:
            n = rng.randint(1, nparts - i)
            struct.append(["g", list(range(i, i + n))])
            i += n
        elif r < 0.5:
            n = rng.randint(1, nparts - i)
            inner, j = [], i
            while j < i + n:
                if rng.random() < 0.6:
                    m = rng.randint(1, i + n - j)
                    inner.append(["g", list(range(j, j + m))] if rng.random() < 0.7 else ["n", [["g", list(range(j, j + m))]]])
                    j += m
                else:
                    inner.append(["p", j])
                    j += 1
            struct.append(["n", inner])
            i += n
        else:
            struct.append(["p", i])
            i += 1
    sd = {"parts": parts, "struct": struct}
    if style == "expand":
        sd["expand_grace"] = True
    return sd


def add_warm(rng, sd):
    """a `warm` mask (gen_score.build_part) for the parts of about a third of the scores: any subset of the cheap
    stages (bits 0-4 views after a construction step, bit 6 notes re-added after a wrong placement); rarely the
    "full" views (bit 5: pretty / str / every note-array column, half a second per stage) at one stage"""
    if rng.random() < 0.35:
        for pd in sd["parts"]:
            if rng.random() < 0.8:
                if rng.random() < 0.06:
                    pd["warm"] = 32 | (1 << rng.choice([1, 2, 4, 6]))
                else:
                    pd["warm"] = rng.randrange(1, 128) & ~32 or 2


def gen_ops(rng):
    """a history of uses of one MidiFile object: ["I", mode] load_score_midi, ["P"] load_performance_midi,
    ["S"] mf.save and parse, ["M"] iterate the messages; an import is never only the last use"""
    ops = []
    for _ in range(rng.randint(2, 6)):
        r = rng.random()
        ops.append(["I", rng.choice(MODES)] if r < 0.55 else (["P"] if r < 0.7 else (["S"] if r < 0.85 else ["M"])))
    if not any(o[0] == "I" for o in ops[:-1]):
        ops.insert(rng.randrange(len(ops)), ["I", rng.choice(MODES)])
    return ops


def struct_members(item):
    """indices (into sd["parts"]) of the parts below a structure item, depth first"""
    if item[0] == "p":
        return [item[1]]
    if item[0] == "g":
        return list(item[1])
    return [i for sub in item[1] for i in struct_members(sub)]


def top_of(sd, idx):
    """index of the top-level structure item holding part `idx` (the exporter's part group)"""
    struct = sd.get("struct") or [["p", j] for j in range(len(sd["parts"]))]
    return next(i for i, it in enumerate(struct) if idx in struct_members(it))


def cases(rng, tier):
    # direct calls of the small anchored functions
    n_unit = 120 if tier == "quick" else 2500
    for _ in range(n_unit):
        k = rng.random()
        if k < 0.25:
            yield {"k": "ppq", "divs": [rng.choice(DIVS_ODD + DIVS_ANY + [11, 15, 20, 960]) for _ in range(rng.randint(1, 5))],
                   "min": rng.choice([0, 1, 24, 96, 100, 480, 481, 960])}
        elif k < 0.55:
            nk = rng.randint(1, 9)
            keys = []
            for _ in range(nk):
                p = rng.randint(0, 3)
                keys.append([p // 2 if rng.random() < 0.8 else 7 + p, p, rng.choice([None, 1, 2, 3, -1])])
            # keys are distinct in the code (dict keys)
            seen, ks = set(), []
            for x in keys:
                if tuple(x) not in seen:
                    seen.add(tuple(x))
                    ks.append(x)
            yield {"k": "mtc", "mode": rng.choice(MODES + [6, 7, -1][:2]), "keys": ks}
        elif k < 0.85:
            tc = sorted(set((rng.randint(0, 3), rng.randint(0, 4)) for _ in range(rng.randint(1, 8))))
            yield {"k": "agpv", "mode": rng.choice(MODES + [6]), "trch": [list(x) for x in tc]}
        else:
            yield {"k": "tied", "seed": rng.randrange(2 ** 31), "gap": rng.random() < 0.5}
    # raw MIDI files for the two readers: zero-velocity note ons, re-struck and orphan notes, several channels
    for _ in range(40 if tier == "quick" else 1500):
        yield {"k": "raw", "seed": rng.randrange(2 ** 31), "mode": rng.choice(MODES)}
    # histories of uses of ONE exported MidiFile object
    for _ in range(60 if tier == "quick" else (1500 if tier == "thorough" else 800)):
        r2 = random.Random(rng.randrange(2 ** 62))
        sd = gen_score(r2)
        if r2.random() < 0.25:
            add_gapped_ties(r2, sd)
        add_warm(r2, sd)
        yield {"k": "hist", "score": sd,
               "cfg": [r2.choice(MODES), r2.choice(ANAC), r2.choice(MINPPQ), r2.choice([1, 30, 64, 90, 127])],
               "src": "object" if r2.random() < 0.75 else "parsed", "path": r2.choice(["str", "pathlib"]),
               "ops": gen_ops(r2)}
    # the rejection paths of the exporter and their accepted neighbours
    for _ in range(16 if tier == "quick" else 400):
        yield gen_reject_case(random.Random(rng.randrange(2 ** 62)))
    # one score object read, edited (divisions, notes, time signatures) and exported again
    for _ in range(70 if tier == "quick" else (2000 if tier == "thorough" else 1200)):
        yield gen_edit_case(random.Random(rng.randrange(2 ** 62)))
    n = 100 if tier == "quick" else (1500 if tier == "thorough" else 1200)
    for i in range(n):
        r2 = random.Random(rng.randrange(2 ** 62))
        sd = gen_score(r2)
        if r2.random() < 0.3:
            add_gapped_ties(r2, sd)
        add_warm(r2, sd)
        if tier == "quick":
            cfgs = [[m, a, rng.choice(MINPPQ), rng.choice([1, 30, 64, 90, 127])] for m in MODES for a in ANAC]
        else:
            cfgs = [[m, a, mp, rng.choice([1, 30, 64, 90, 127])] for m in MODES for a in ANAC for mp in MINPPQ]
        yield {"k": "score", "score": sd, "configs": cfgs}
    # scores in which one sounding part (or every part) has NO time signature: the importer's sanitize step (signatures
    # shared across all parts) and the assumed 4/4; `shift` only (time_sig_change / pad_bar read the signatures), no pickup
    for i in range(10 if tier == "quick" else 150):
        r2 = random.Random(rng.randrange(2 ** 62))
        for _ in range(50):
            sd = gen_score(r2)
            if all(pickup_of1(pd) == 0 and not any(m[2] == 0 for m in pd["measures"]) for pd in sd["parts"]):
                break
        else:
            continue
        k = r2.randrange(len(sd["parts"])) if (len(sd["parts"]) > 1 and r2.random() < 0.75) else None
        for j, pd in enumerate(sd["parts"]):
            if k is None or j == k:
                pd["ts"] = []
        yield {"k": "score", "score": sd, "nots": "one" if k is not None else "all",
               "configs": [[m, "shift", r2.choice(MINPPQ), r2.choice([1, 64, 127])] for m in MODES]}


# ====================================================================== construction
def build(sd):
    import partitura.score as S

    parts = [G.build_part(pd) for pd in sd["parts"]]
    cnt = [0]

    def mk(item):
        if item[0] == "p":
            return parts[item[1]]
        cnt[0] += 1
        pg = S.PartGroup(group_name="G%d" % cnt[0])
        pg.children = [parts[i] for i in item[1]] if item[0] == "g" else [mk(sub) for sub in item[1]]
        for c in pg.children:
            c.parent = pg
        return pg

    partlist = [mk(item) for item in sd.get("struct") or [["p", i] for i in range(len(parts))]]
    if sd.get("expand_grace"):
        # the public `expand_grace_notes`: every grace note gets the length of its notated value; the score that is
        # exported is the score as it is afterwards (the lengths are read back from the note objects)
        import copy

        sd = copy.deepcopy(sd)
        for p, pd in zip(parts, sd["parts"]):
            S.expand_grace_notes(p)
            length = {g.id: int(g.end.t) - int(g.start.t) for g in p.iter_all(S.GraceNote)}
            for n in pd["notes"]:
                if n["kind"] == "grace":
                    n["dur"] = length[n["id"]]
    return S.Score(partlist, id="score"), parts, sd


def domain_ok(sd):
    """the property's domain, from the description alone: no two sounding notes of equal pitch overlap anywhere in the
    score (positive durations pairwise disjoint as half-open intervals of musical time, a zero-duration note not
    strictly inside a positive one) - then they do not overlap within any track / channel of any mode"""
    by_pitch = defaultdict(list)
    for pd in sd["parts"]:
        for (q0, dq, pitch, _) in sounding_quarters(pd):
            by_pitch[pitch].append((q0, q0 + dq))
    for iv in by_pitch.values():
        pos = sorted(x for x in iv if x[0] < x[1])
        if any(a[1] > b[0] for a, b in zip(pos, pos[1:])):
            return False
        if any(a < z < b for (z, z1) in iv if z == z1 for (a, b) in pos):
            return False
    return True


# ====================================================================== wire
def part_tokens(part, gidx):
    import partitura.score as S

    times, durs = list(part._quarter_times), list(part._quarter_durations)
    assert times[0] == 0
    m1 = next(part.first_point.iter_starting(S.Measure), None)
    toks = [W.i(gidx), W.i(durs[0]), W.lst(lambda e: "%d %d" % (e[0], e[1]), list(zip(times[1:], durs[1:]))),
            W.i(part.first_point.t), W.i(part.last_point.t),
            "-" if (m1 is None or m1.start is None or m1.end is None) else "%d %d" % (m1.start.t, m1.end.t),
            W.lst(lambda ts: "%d %d %d" % (ts.start.t, ts.beats, ts.beat_type), part.iter_all(S.TimeSignature)),
            W.lst(lambda tp: "%d %d" % (tp.start.t, tp.microseconds_per_quarter), part.iter_all(S.Tempo)),
            W.lst(lambda ks: "%d %s" % (ks.start.t, W.s(ks.name)), part.iter_all(S.KeySignature)),
            W.lst(lambda m: "%d %d" % (m.start.t, m.end.t), part.iter_all(S.Measure)),
            W.lst(lambda n: "%d %d %d %s" % (n.start.t, n.duration_tied, n.midi_pitch, W.opt(W.i, n.voice)), part.notes_tied)]
    return " ".join(toks)


def src_tokens(part, gidx):
    """the same part as its note objects with tie links and voices (`exps`: the model merges the tie chains)"""
    import partitura.score as S

    times, durs = list(part._quarter_times), list(part._quarter_durations)
    m1 = next(part.first_point.iter_starting(S.Measure), None)
    notes = list(part.iter_all(S.Note, include_subclasses=True))
    idx = {id(n): i for i, n in enumerate(notes)}
    toks = [W.i(gidx), W.i(durs[0]), W.lst(lambda e: "%d %d" % (e[0], e[1]), list(zip(times[1:], durs[1:]))),
            W.i(part.first_point.t), W.i(part.last_point.t),
            "-" if (m1 is None or m1.start is None or m1.end is None) else "%d %d" % (m1.start.t, m1.end.t),
            W.lst(lambda ts: "%d %d %d" % (ts.start.t, ts.beats, ts.beat_type), part.iter_all(S.TimeSignature)),
            W.lst(lambda tp: "%d %d" % (tp.start.t, tp.microseconds_per_quarter), part.iter_all(S.Tempo)),
            W.lst(lambda ks: "%d %s" % (ks.start.t, W.s(ks.name)), part.iter_all(S.KeySignature)),
            W.lst(lambda m: "%d %d" % (m.start.t, m.end.t), part.iter_all(S.Measure)),
            W.lst(lambda n: "%d %d %d %s %s %s" % (
                n.start.t, n.duration, n.midi_pitch, W.b(n.tie_prev is not None),
                W.opt(W.i, None if n.tie_next is None else idx[id(n.tie_next)]), W.opt(W.i, n.voice)), notes)]
    return " ".join(toks)


def msg_text(m):
    if m.type == "set_tempo":
        return "T%d" % m.tempo
    if m.type == "time_signature":
        return "S%d/%d" % (m.numerator, m.denominator)
    if m.type == "key_signature":
        return "K%s" % m.key
    if m.type == "note_on":
        return "N%d.%d.%d" % (m.channel, m.note, m.velocity)
    if m.type == "note_off":
        return "F%d.%d.%d" % (m.channel, m.note, m.velocity)
    return "X"


def msg_token(m):
    if m.type == "set_tempo":
        return "T %d" % m.tempo
    if m.type == "time_signature":
        return "S %d %d" % (m.numerator, m.denominator)
    if m.type == "key_signature":
        return "K %s" % W.s(m.key)
    if m.type == "note_on":
        return "N %d %d %d" % (m.channel, m.note, m.velocity)
    if m.type == "note_off":
        return "F %d %d %d" % (m.channel, m.note, m.velocity)
    return "X"


def file_tracks(mf):
    """per track [(abs tick, delta, message)] without the end_of_track mido appends"""
    out = []
    for tr in mf.tracks:
        t, row = 0, []
        for m in tr:
            t += m.time
            if m.type == "end_of_track":
                continue
            row.append((t, m.time, m))
        out.append(row)
    return out


Timeout = CpuTimeout   # a BaseException: `except Exception` in the code under test does not swallow it


def with_timeout(sec, f, *a, **kw):
    """run f under a limit of `sec` seconds of CPU time of this process (harness/cpulimit.py: ITIMER_PROF, not the
    wall clock - a loaded machine is not a timeout; a loader that does not terminate burns CPU and is stopped)"""
    preload()
    return run_limited(sec, f, *a, **kw)


_PRELOADED = []


def preload():
    """every heavy import happens before a limit is armed (a limit firing inside an import leaves half-initialised
    modules behind)"""
    if not _PRELOADED:
        _PRELOADED.append(True)
        try:
            import numpy, scipy.interpolate, mido  # noqa
            import partitura, partitura.score, partitura.performance  # noqa
            import partitura.io.exportmidi, partitura.io.importmidi, partitura.utils.music  # noqa
        except ImportError:
            pass


def conflicting_signatures(tracks):
    for tr in tracks:
        at = {}
        for t, _, m in tr:
            if m.type == "time_signature":
                if at.setdefault(t, (m.numerator, m.denominator)) != (m.numerator, m.denominator):
                    return True
    return False


def call(f, *a, **kw):
    try:
        return f(*a, **kw), None
    except BaseException as e:  # noqa
        if isinstance(e, (KeyboardInterrupt, SystemExit, MemoryError)):
            raise
        return None, e


# ====================================================================== evaluation
def evaluate(d):
    preload()
    k = d["k"]
    if k == "score":
        return eval_score(d)
    if k == "hist":
        return eval_hist(d)
    if k == "edit":
        return eval_edit(d)
    if k == "reject":
        return eval_reject(d)
    ev = Eval()
    if k == "ppq":
        import partitura.score as S
        from partitura.io.exportmidi import get_ppq

        parts = []
        for dv in d["divs"]:
            p = S.Part("x", quarter_duration=dv)
            parts.append(p)
        r, e = call(get_ppq, parts)
        if not e:
            r = int(r)
            while r < d["min"]:   # the loop of save_score_midi
                r *= 2
        ev.requests.append("ppq %d %s" % (d["min"], W.lst(W.i, d["divs"])))
        ev.impl.append("err" if e else "%d" % r)
        if not e:
            L = 1
            for dv in d["divs"]:
                L = lcm(L, dv)
            kk = r // L
            if r % L or kk & (kk - 1) or r < d["min"] or (kk > 1 and r // 2 >= d["min"]):
                ev.oracle.append("ppq rule: divisions %r minimum %d gives %d" % (d["divs"], d["min"], r))
        ev.key = "ppq:%r:%d" % (d["divs"], d["min"])
    elif k == "mtc":
        from partitura.io.exportmidi import map_to_track_channel

        keys = [(a, b, c) for a, b, c in d["keys"]]
        r, e = call(map_to_track_channel, keys, d["mode"])
        ev.requests.append("mtc %d %s" % (d["mode"], W.lst(lambda x: "%d %d %s" % (x[0], x[1], W.opt(W.i, x[2])), keys)))
        ev.impl.append("err" if e else W.f_list(lambda x: W.f_tuple(W.f_int(r[x][0]), W.f_int(r[x][1])), keys))
        if not e and 0 <= d["mode"] <= 5:
            ev.oracle += mode_export_oracle(d["mode"], keys, r)
        ev.key = "mtc:%d:%r" % (d["mode"], keys)
    elif k == "agpv":
        from partitura.io.importmidi import assign_group_part_voice, make_track_to_part_mapping

        tc = [tuple(x) for x in d["trch"]]
        r, e = call(assign_group_part_voice, d["mode"], tc, {})
        ev.requests.append("agpv %d %s" % (d["mode"], W.lst(lambda x: "%d %d" % x, tc)))
        if e:
            ev.impl.append("err")
        else:
            gpv = r[0]
            mp = make_track_to_part_mapping(tc, gpv)
            trs = []
            for t, _ in tc:
                if t not in trs:
                    trs.append(t)
            srt = lambda s: sorted(s, key=lambda x: -1 if x is None else x)
            ev.impl.append(W.f_list(lambda x: W.f_tuple(*[W.f_opt(W.f_int, y) for y in x]), gpv) + "|" +
                           W.f_list(lambda t: W.f_list(lambda y: W.f_opt(W.f_int, y), srt(mp[t])), trs))
            if 0 <= d["mode"] <= 5:
                ev.oracle += mode_import_oracle(d["mode"], tc, gpv)
        ev.key = "agpv:%d:%r" % (d["mode"], tc)
    elif k == "raw":
        import mido
        from partitura.io.importmidi import load_score_midi, load_performance_midi

        rng = random.Random(d["seed"])
        ppq = rng.choice([4, 12, 96, 480])
        unit = max(1, ppq // 4)
        mf = mido.MidiFile(type=1, ticks_per_beat=ppq)
        wellformed = rng.random() < 0.5
        wf_notes = []  # (track, on, off, pitch, channel, velocity)
        for ti in range(rng.randint(1, 3) if wellformed else 0):
            # a well-formed track: per (channel, pitch) a chain of notes that at most touch; note offs are
            # written as note_off or as note_on with velocity 0
            tr = mido.MidiTrack()
            mf.tracks.append(tr)
            evs = []
            for key in set((rng.choice([0, 1]), rng.choice([60, 62, 64])) for _ in range(3)):
                t = rng.choice([0, 1, 2]) * unit
                for _ in range(rng.randint(1, 4)):
                    dur = rng.choice([0, 1, 1, 2, 4]) * unit
                    vel = rng.choice([1, 64, 90, 127])
                    wf_notes.append((ti, t, t + dur, key[1], key[0], vel))
                    off = (mido.Message("note_off", note=key[1], channel=key[0], velocity=rng.choice([0, 64])) if rng.random() < 0.5
                           else mido.Message("note_on", note=key[1], channel=key[0], velocity=0))
                    on = mido.Message("note_on", note=key[1], channel=key[0], velocity=vel)
                    if dur == 0:
                        evs.append((t, 1, len(evs), on))
                        evs.append((t, 1, len(evs), off))
                    else:
                        evs.append((t, 2, len(evs), on))
                        evs.append((t + dur, 0, len(evs), off))
                    t += dur + rng.choice([0, 0, 1, 2]) * unit
            tr.append(mido.MetaMessage("time_signature", numerator=4, denominator=4, time=0))
            prev = 0
            for (t, _, _, m) in sorted(evs, key=lambda e: e[:3]):
                tr.append(m.copy(time=t - prev))
                prev = t
        for ti in range(0 if wellformed else rng.randint(1, 3)):
            tr = mido.MidiTrack()
            mf.tracks.append(tr)
            if rng.random() < 0.7:
                tr.append(mido.MetaMessage("time_signature", numerator=rng.choice([2, 3, 4, 6]), denominator=rng.choice([4, 8]), time=0))
            for _ in range(rng.randint(0, 14)):
                dt = rng.choice([0, 0, 1, 1, 2, 4]) * unit
                r = rng.random()
                pitch, ch = rng.choice([60, 60, 62, 64]), rng.choice([0, 0, 1])
                if r < 0.45:
                    tr.append(mido.Message("note_on", note=pitch, channel=ch, velocity=rng.choice([0, 1, 64, 127, 64, 90]), time=dt))
                elif r < 0.8:
                    tr.append(mido.Message("note_off", note=pitch, channel=ch, velocity=rng.choice([0, 64]), time=dt))
                elif r < 0.86:
                    tr.append(mido.MetaMessage("set_tempo", tempo=rng.choice([400000, 500000, 750000]), time=dt))
                elif r < 0.92:
                    tr.append(mido.MetaMessage("key_signature", key=rng.choice(["C", "Am", "F#", "Ebm"]), time=dt))
                elif r < 0.96:
                    tr.append(mido.MetaMessage("time_signature", numerator=rng.choice([3, 4, 5]), denominator=4, time=dt))
                else:
                    tr.append(mido.Message("control_change", control=64, value=rng.choice([0, 127]), channel=ch, time=dt))
        buf = io.BytesIO()
        mf.save(file=buf)
        buf.seek(0)
        mf = mido.MidiFile(file=buf)
        tracks = file_tracks(mf)
        ttoks = W.lst(lambda tr: W.lst(lambda x: "%d %s" % (x[1], msg_token(x[2])), tr), tracks)
        perf, e2 = call(load_performance_midi, mf)
        # seconds of notes under tempo changes in later tracks are C06's subject (PerformedNote validation
        # may refuse them): the tick pairing is compared whenever the reader returns
        if not e2:
            ev.requests.append("perf " + ttoks)
            pnotes = [dict(n, track=pp.track) for pp in perf.performedparts for n in pp.notes]
            ev.impl.append(W.f_list(lambda i: W.f_list(
                lambda n: W.f_tuple(*[W.f_int(n[f]) for f in ("note_on_tick", "note_off_tick", "midi_pitch", "channel", "velocity")]),
                sorted((n for n in pnotes if n["track"] == i),
                       key=lambda n: (n["note_on_tick"], n["midi_pitch"], n["note_off_tick"], n["channel"], n["velocity"]))), range(len(tracks))))
        buf.seek(0)
        sc2, e3 = call(with_timeout, 120, load_score_midi, mido.MidiFile(file=buf), part_voice_assign_mode=d["mode"])
        n_notes = sum(1 for tr in tracks for _, _, m in tr if m.type == "note_on" and m.velocity > 0) if e2 else len(pnotes)
        # the importer's part construction (measures, ties, tuplets: C11) may reject arbitrary material; the
        # pairing and grouping are compared whenever it returns, and its refusal of a file without notes
        if not e3:
            ev.requests.append("imp %d %d %s" % (d["mode"], mf.ticks_per_beat, ttoks))
            ev.impl.append(import_text(sc2))
        elif n_notes == 0:
            ev.requests.append("imp %d %d %s" % (d["mode"], mf.ticks_per_beat, ttoks))
            ev.impl.append("err")
        if wellformed:
            want = Counter((a, b, c, p, ch, v) for (a, b, c, p, ch, v) in wf_notes)
            if e2:
                ev.oracle.append("raw(perf): load_performance_midi raised %s on a well-formed file" % type(e2).__name__)
            else:
                got = Counter((n["track"], n["note_on_tick"], n["note_off_tick"], n["midi_pitch"], n["channel"], n["velocity"]) for n in pnotes)
                if got != want:
                    ev.oracle.append("raw(perf): notes read from a well-formed file (offs partly as zero-velocity note ons) differ: missing %r, "
                                     "unexpected %r" % (list((want - got).items())[:2], list((got - want).items())[:2]))
            if e3:
                ev.oracle.append("raw(import): load_score_midi raised %s on a well-formed file" % type(e3).__name__)
            else:
                got = Counter((n.start.t, n.duration_tied, int(n.midi_pitch)) for p2 in sc2.parts for n in p2.notes_tied)
                want2 = Counter((b, c - b, p) for (a, b, c, p, ch, v) in wf_notes)
                if got != want2:
                    ev.oracle.append("raw(import): notes imported from a well-formed file differ: missing %r, unexpected %r"
                                     % (list((want2 - got).items())[:2], list((got - want2).items())[:2]))
        ev.info = {"raw_import_raised": bool(e3) and n_notes > 0, "raw_perf_raised": bool(e2)}
        ev.key = "raw:%d:%d" % (d["seed"], d["mode"]) if n_notes else None
    elif k == "tied":
        rng = random.Random(d["seed"])
        sd = G.random_part_desc(rng, p_tie=0.5, n_measures=rng.randint(1, 4))
        if d.get("gap"):
            # ties between notes that are not neighbours on the timeline (no domain is needed for duration_tied)
            for _ in range(rng.randint(1, 3)):
                has_prev = set(n["tie"] for n in sd["notes"] if n.get("tie"))
                tails = [n for n in sd["notes"] if n["kind"] == "note" and not n.get("tie")]
                if not tails:
                    break
                a = rng.choice(tails)
                later = [b for b in sd["notes"] if b["kind"] == "note" and b["id"] not in has_prev and b["t"] > a["t"] + a["dur"]]
                if later:
                    a["tie"] = rng.choice(later)["id"]
        part = G.build_part(sd)
        import partitura.score as S

        notes = list(part.iter_all(S.Note, include_subclasses=True))
        idx = {id(n): i for i, n in enumerate(notes)}
        ev.requests.append("tied " + W.lst(lambda n: "%d %d %d %s %s" % (
            n.start.t, n.duration, n.midi_pitch, W.b(n.tie_prev is not None),
            W.opt(W.i, None if n.tie_next is None else idx[id(n.tie_next)])), notes))
        rows = [(n.start.t, n.duration_tied, n.midi_pitch) for n in part.notes_tied]
        ev.impl.append(W.f_list(lambda r: W.f_tuple(*[W.f_int(x) for x in r]), rows))
        want = sorted((a, b, c) for a, b, c, _ in sounding_desc(sd))
        if sorted(rows) != want:
            ev.oracle.append("tied: notes_tied/duration_tied rows differ from the merged tie chains of the description")
        # `end_tied` (the end of the LAST member) next to the summed duration: equal to start + duration_tied exactly on
        # the chains without a gap (theorems end_tied_gaps, end_tied_eq_iff_no_gap)
        ev.requests.append("tiedend " + ev.requests[-1][len("tied "):])
        ev.impl.append(W.f_list(lambda r: W.f_tuple(*[W.f_int(x) for x in r]),
                                [(n.start.t, n.duration_tied, n.end_tied.t, n.midi_pitch) for n in part.notes_tied]))
        byid = {n["id"]: n for n in sd["notes"]}
        for n in part.notes_tied:
            ch = chain_of(sd, byid[n.id], byid)
            gaps = sum(b["t"] - (a["t"] + a["dur"]) for a, b in zip(ch, ch[1:]))
            if int(n.end_tied.t) != ch[-1]["t"] + ch[-1]["dur"] or int(n.end_tied.t) - int(n.start.t) - int(n.duration_tied) != gaps:
                ev.oracle.append("tied(end): note %s: end_tied %d, start %d, duration_tied %d; the chain of the description ends at %d and "
                                 "skips %d divisions" % (n.id, n.end_tied.t, n.start.t, n.duration_tied, ch[-1]["t"] + ch[-1]["dur"], gaps))
                break
        ev.key = "tied:%d" % d["seed"]
    return ev


def mode_export_oracle(mode, keys, r):
    """the documented meaning of the six export modes as a statement about equal tracks / channels"""
    out = []
    for a in keys:
        for b in keys:
            same_tc = r[a] == r[b]
            same_tr = r[a][0] == r[b][0]
            want_tr = {0: a[1] == b[1], 1: a[0] == b[0], 2: True, 3: a[1] == b[1], 4: True, 5: (a[1], a[2]) == (b[1], b[2])}[mode]
            want_tc = {0: (a[1], a[2]) == (b[1], b[2]), 1: (a[0], a[1]) == (b[0], b[1]), 2: a[1] == b[1], 3: a[1] == b[1], 4: True,
                       5: (a[1], a[2]) == (b[1], b[2])}[mode]
            if same_tr != want_tr or same_tc != want_tc:
                out.append("mode %d export: keys %r and %r -> %r and %r" % (mode, a, b, r[a], r[b]))
                return out
    return out


def mode_import_oracle(mode, tc, gpv):
    out = []
    for a, ga in zip(tc, gpv):
        for b, gb in zip(tc, gpv):
            same_cell = (ga[1], ga[2]) == (gb[1], gb[2])
            want = {0: a == b, 1: a == b, 2: a[0] == b[0], 3: a[0] == b[0], 4: True, 5: a == b}[mode]
            if same_cell != want:
                out.append("mode %d import: (track, channel) %r and %r -> %r and %r" % (mode, a, b, ga, gb))
                return out
            if mode == 1 and (ga[0] == gb[0]) != (a[0] == b[0]):
                out.append("mode 1 import groups: (track, channel) %r and %r -> %r and %r" % (a, b, ga, gb))
                return out
    return out


def eval_score(d):
    import mido
    import partitura.score as S
    from partitura.io.exportmidi import save_score_midi
    from partitura.io.importmidi import load_score_midi, load_performance_midi

    ev = Eval()
    sd = d["score"]
    _PICKUP.clear()
    score, parts, sd = build(sd)
    if d["score"].get("expand_grace") and not domain_ok(sd):
        return ev  # the expanded grace notes overlap a note of their pitch: outside the property's domain
    # group identity as the exporter sees it
    tops, gidx = [], []
    for p in score.parts:
        top = p
        while top.parent:
            top = top.parent
        if not any(top is t for t in tops):
            tops.append(top)
        gidx.append([i for i, t in enumerate(tops) if t is top][0])
    order = [[i for i, q in enumerate(parts) if q is p][0] for p in score.parts]  # score.parts -> index into sd["parts"]
    ptoks = " ".join(part_tokens(p, g) for p, g in zip(score.parts, gidx))
    stoks = " ".join(src_tokens(p, g) for p, g in zip(score.parts, gidx))
    n_sound = sum(len(sounding_desc(pd)) for pd in sd["parts"])
    rows = score_rows(score)
    org_of = {}
    sounding_parts_have_ts = all(any(True for _ in p.iter_all(S.TimeSignature)) for p in score.parts if p.notes_tied)
    impspec_seen = Counter()
    # ---- the domain of the theorems (`ScoreNoOverlap`, hypothesis of property_C04) holds for what is generated: no two
    # notes of equal pitch overlap within a (track, channel) of any mode, decided by the model on the real parts
    if n_sound > 0 and domain_ok(sd):
        for m in MODES:
            ev.requests.append("dom %d %d %s" % (m, len(score.parts), ptoks))
            ev.impl.append("1")
    # ---- every optional argument omitted: the defaults of the live signatures (Gen/C04Sig.lean) against the real call
    dbuf = io.BytesIO()
    _, de = call(save_score_midi, score, dbuf)
    ev.requests.append("expdef %d %s" % (len(score.parts), ptoks))
    if de:
        ev.impl.append("err")
    else:
        dbuf.seek(0)
        dmf = mido.MidiFile(file=dbuf)
        dtracks = file_tracks(dmf)
        ev.impl.append("%d|%s|%s" % (
            dmf.ticks_per_beat,
            W.f_list(lambda tr: W.f_list(lambda x: "%d:%s" % (x[0], msg_text(x[2])), tr), dtracks),
            W.f_list(lambda tr: W.f_list(lambda x: "%d:%s" % (x[1], msg_text(x[2])), tr), dtracks)))
        if not any(m.type == "time_signature" and m.numerator == 0 for tr in dtracks for _, _, m in tr):
            dbuf.seek(0)
            dsc, de2 = call(with_timeout, 120, load_score_midi, mido.MidiFile(file=dbuf))
            if not de2:
                ev.requests.append("impdef %d %s" % (dmf.ticks_per_beat, W.lst(lambda tr: W.lst(lambda x: "%d %s" % (x[1], msg_token(x[2])), tr), dtracks)))
                ev.impl.append(import_text(dsc))
                # the documented defaults: mode 0, velocity 64, "shift", no minimum ppq
                dperf, de3 = call(load_performance_midi, dmf)
                dpn = None if de3 else [dict(n, track=pp.track) for pp in dperf.performedparts for n in pp.notes]
                ev.oracle += ["default call: " + f for f in oracle(sd, order, [0, "shift", 0, 64], dmf, dtracks, dpn, dsc, "defaults")]
                # the documented default of the importer is mode 0: "one Part per track, with voices assigned by channels"
                n_tr = sum(1 for tr in dtracks if any(m.type == "note_on" and m.velocity > 0 for _, _, m in tr))
                if len(dsc.parts) != n_tr or any(n.voice is None for p2 in dsc.parts for n in p2.notes_tied):
                    ev.oracle.append("default call: import mode: load_score_midi(file) gives %d parts for %d tracks with notes%s; the "
                                     "documented default is mode 0 (a part per track, voices by channel)"
                                     % (len(dsc.parts), n_tr, ", notes without voice" if any(n.voice is None for p2 in dsc.parts for n in p2.notes_tied) else ""))
    for ci, cfg in enumerate(d["configs"]):
        mode, anac, minppq, vel = cfg
        tag = "mode=%d %s min=%d vel=%d" % (mode, anac, minppq, vel)
        args = "%d %s %d %d %d" % (mode, anac, minppq, vel, len(score.parts))
        buf = io.BytesIO()
        _, e = call(save_score_midi, score, buf, part_voice_assign_mode=mode, velocity=vel, anacrusis_behavior=anac,
                    minimum_ppq=minppq)
        if e:
            ev.requests.append("exp %s %s" % (args, ptoks))
            ev.impl.append("err")
            if n_sound > 0:
                ev.oracle.append("export raised: [%s] save_score_midi raised %s: %s" % (tag, type(e).__name__, str(e)[:120]))
            continue
        buf.seek(0)
        mf = mido.MidiFile(file=buf)
        tracks = file_tracks(mf)
        exp_text = "%d|%s|%s" % (
            mf.ticks_per_beat,
            W.f_list(lambda tr: W.f_list(lambda x: "%d:%s" % (x[0], msg_text(x[2])), tr), tracks),
            W.f_list(lambda tr: W.f_list(lambda x: "%d:%s" % (x[1], msg_text(x[2])), tr), tracks))
        ttoks = W.lst(lambda tr: W.lst(lambda x: "%d %s" % (x[1], msg_token(x[2])), tr), tracks)
        # ---- performance reader: raw ticks
        perf, e2 = call(load_performance_midi, mf)
        pnotes = None
        if e2:
            ev.requests += ["exp %s %s" % (args, ptoks), "perf " + ttoks]
            ev.impl += [exp_text, "err"]
            ev.oracle.append("perf raised: [%s] load_performance_midi raised %s" % (tag, type(e2).__name__))
        else:
            # the `track` field of the note dicts is renumbered in set order by
            # Performance.sanitize_track_numbers (C06's subject): use the part's own track attribute
            pnotes = [dict(n, track=pp.track) for pp in perf.performedparts for n in pp.notes]
            # ---- the model of the exporter, and the vocabulary of the theorems against the real file: what each
            # track must hold (one request: the parts are sent once)
            # (the (part, voice) of the imported notes is filled in below, once the importer has run)
            spec_slot = len(ev.requests)
            ev.requests.append("expspec 0 %s %s" % (args, ptoks))
            ev.impl.append(exp_text + "#" + spec_text(sd, order, rows, anac, tracks, pnotes) + "|-")
        if ci == 0:
            # the same export from the note objects (tie chains merged by the model); independent of the configuration
            ev.requests.append("exps %s %s" % (args, stoks))
            ev.impl.append(exp_text)
        perf_text = None if pnotes is None else W.f_list(lambda i: W.f_list(
            lambda n: W.f_tuple(*[W.f_int(n[f]) for f in ("note_on_tick", "note_off_tick", "midi_pitch", "channel", "velocity")]),
            sorted((n for n in pnotes if n["track"] == i),
                   key=lambda n: (n["note_on_tick"], n["midi_pitch"], n["note_off_tick"], n["channel"], n["velocity"]))), range(len(tracks)))
        if anac not in org_of:
            org_of[anac] = origin_of({"parts": [sd["parts"][i] for i in order]}, anac)
        org = org_of[anac]

        def readers(flags, texts):
            # one request for all readers of the file (the tracks are sent once)
            fl = flags | (1 if perf_text is not None else 0)
            if fl:
                ev.requests.append("rt %d %s %d %d %s" % (fl, W.q(org), mode, mf.ticks_per_beat, ttoks))
                ev.impl.append("#".join(([perf_text] if perf_text is not None else []) + texts))

        # ---- score reader, same mode
        buf.seek(0)
        zero_num = any(m.type == "time_signature" and m.numerator == 0 for tr in tracks for _, _, m in tr)
        if zero_num:
            # add_measures never terminates on a 0/x signature: do not call the importer
            sc2, e3 = None, None
            readers(0, [])
            ev.oracle.append("tsc-zero-numerator: [%s] a measure shorter than one beat is written as time signature 0/x; "
                             "load_score_midi does not terminate on the file" % tag)
            ev.oracle += oracle(sd, order, cfg, mf, tracks, pnotes, None, tag)
            continue
        sc2, e3 = call(with_timeout, 120, load_score_midi, mido.MidiFile(file=buf), part_voice_assign_mode=mode)
        if e3 and not isinstance(e3, Timeout) and conflicting_signatures(tracks):
            # parts with different metres merged into one track (modes 1, 2, 4): the track states two
            # different time signatures at one tick, which no score has; create_part/add_measures may reject
            # it (C11's subject).  Outside the property's domain: neither compared nor judged.
            readers(0, [])
            ev.oracle += oracle(sd, order, cfg, mf, tracks, pnotes, None, tag)
            continue
        if e3:
            readers(2, ["err"])
            ev.oracle.append("import raised: [%s] load_score_midi raised %s: %s" % (tag, type(e3).__name__, str(e3)[:120]))
        else:
            if pnotes is not None:
                # the (part, voice) in which every note came back (`writtenCells` of roundtrip_cells), and the key / time
                # signatures of every imported part as functions of the SCORE (`import_signatures_spec`: flag 2; the time
                # signatures - flag 4 - when the policy is not time_sig_change: assumed 4/4, sanitize step, ordinary case)
                with_ts = anac != "time_sig_change"
                if with_ts and not sounding_parts_have_ts:
                    impspec_seen["sanitize-or-assumed"] += 1
                ev.requests[spec_slot] = "expspec %d %s %s" % (3 + (4 if with_ts else 0), args, ptoks)
                ev.impl[spec_slot] = ev.impl[spec_slot][:-1] + W.f_list(
                    lambda c: W.f_tuple(W.f_int(c[0]), W.f_int(c[1]), W.f_int(c[2]), W.f_int(c[3]), W.f_int(c[4])),
                    sorted((n.start.t, int(n.midi_pitch), n.duration_tied, int(p2.id[1:]) - 1, int(n.voice or 0))
                           for p2 in sc2.parts for n in p2.notes_tied)) + "#" + import_sig_text(sc2, with_ts)
                impspec_seen["%d>%d %s%s" % (mode, mode, anac, " +ts" if with_ts else "")] += 1
            # the imported parts, and their notes in musical time (`importedRows` of score_roundtrip)
            readers(6, [import_text(sc2),
                        rows_text((Fraction(n.start.t, mf.ticks_per_beat) + org, Fraction(n.duration_tied, mf.ticks_per_beat),
                                   int(n.midi_pitch)) for p2 in sc2.parts for n in p2.notes_tied)])
        ev.oracle += oracle(sd, order, cfg, mf, tracks, pnotes, sc2, tag)
    ev.key = None if n_sound == 0 else "score:%s" % hash_desc(d)
    ev.info = {"parts": len(sd["parts"]), "notes": n_sound, "impspec": dict(impspec_seen)}
    return ev


def msg_value(m):
    """a message by value (every attribute, the delta time included)"""
    return sorted((k, plain(v)) for k, v in m.dict().items())


def plain(v):
    """numbers by value (the exporter's delta times are numpy integers, a parsed file holds Python integers)"""
    import numbers

    if isinstance(v, (bool, str, type(None))):
        return v
    if isinstance(v, numbers.Integral):
        return int(v)
    if isinstance(v, numbers.Real):
        return float(v)
    if isinstance(v, (list, tuple)):
        return [plain(x) for x in v]
    return repr(v)


def snapshot(mf):
    """the content of a MidiFile object by value"""
    return [mf.type, mf.ticks_per_beat, [[msg_value(m) for m in tr] for tr in mf.tracks]]


def content(mf):
    """the content of a MidiFile without the end_of_track that mido appends when it writes a track"""
    return [mf.type, mf.ticks_per_beat, [[msg_value(m) for m in tr if m.type != "end_of_track"] for tr in mf.tracks]]


def snapshot_diff(a, b):
    if a[:2] != b[:2]:
        return "type / ticks per quarter %r -> %r" % (a[:2], b[:2])
    if len(a[2]) != len(b[2]):
        return "%d tracks -> %d tracks" % (len(a[2]), len(b[2]))
    for ti, (x, y) in enumerate(zip(a[2], b[2])):
        if len(x) != len(y):
            return "track %d: %d messages -> %d messages" % (ti, len(x), len(y))
        for mi, (u, v) in enumerate(zip(x, y)):
            if u != v:
                return "track %d message %d: %s -> %s" % (ti, mi, dict(u), dict(v))
    return None


def deltas_text(mf):
    return "%d|%s" % (mf.ticks_per_beat, W.f_list(lambda tr: W.f_list(lambda x: "%d:%s" % (x[1], msg_text(x[2])), tr), file_tracks(mf)))


def pair_direct(mf):
    """the notes of a MidiFile read directly (plain Python): [(track, on tick, off tick, pitch, channel)]"""
    out = []
    for ti, tr in enumerate(mf.tracks):
        t, sounding = 0, {}
        for m in tr:
            t += int(m.time)
            if m.type == "note_on" and m.velocity > 0:
                sounding[(m.channel, m.note)] = t
            elif m.type in ("note_on", "note_off") and (m.channel, m.note) in sounding:
                out.append((ti, sounding.pop((m.channel, m.note)), t, int(m.note), int(m.channel)))
    return out


def perf_rows_text(perf, ntracks):
    pnotes = [dict(n, track=pp.track) for pp in perf.performedparts for n in pp.notes]
    return pnotes, W.f_list(lambda i: W.f_list(
        lambda n: W.f_tuple(*[W.f_int(n[f]) for f in ("note_on_tick", "note_off_tick", "midi_pitch", "channel", "velocity")]),
        sorted((n for n in pnotes if n["track"] == i),
               key=lambda n: (n["note_on_tick"], n["midi_pitch"], n["note_off_tick"], n["channel"], n["velocity"]))), range(ntracks))


def perf_value(perf):
    """everything a performance read returns about the notes, for the comparison of two reads of one file"""
    return [[pp.track, [sorted((k, plain(n[k])) for k in n.keys()) for n in pp.notes]] for pp in perf.performedparts]


def any_conflicting_signatures(tracks):
    """two different time signatures at one tick anywhere in the file: an import mode that merges the tracks into
    one part hands both to create_part (C11's subject), which may reject them"""
    at = {}
    for tr in tracks:
        for t, _, m in tr:
            if m.type == "time_signature":
                if at.setdefault(t, (m.numerator, m.denominator)) != (m.numerator, m.denominator):
                    return True
    return False


def eval_hist(d):
    """one export to a MidiFile OBJECT, then a history of uses of that one object"""
    import os
    import pathlib
    import tempfile

    import mido
    from partitura.io.exportmidi import save_score_midi
    from partitura.io.importmidi import load_score_midi, load_performance_midi

    ev = Eval()
    sd = d["score"]
    _PICKUP.clear()
    score, parts, sd = build(sd)
    if d["score"].get("expand_grace") and not domain_ok(sd):
        return ev  # the expanded grace notes overlap a note of their pitch: outside the property's domain
    order = [[i for i, q in enumerate(parts) if q is p][0] for p in score.parts]
    pds = [sd["parts"][i] for i in order]
    mode, anac, minppq, vel = d["cfg"]
    tag = "mode=%d %s min=%d vel=%d %s" % (mode, anac, minppq, vel, d["src"])
    kw = dict(part_voice_assign_mode=mode, velocity=vel, anacrusis_behavior=anac, minimum_ppq=minppq)
    n_sound = sum(len(sounding_desc(pd)) for pd in pds)
    ev.key = None if n_sound == 0 else "hist:%s" % hash_desc(d)
    ev.info = {"parts": len(pds), "notes": n_sound, "hist_ops": len(d["ops"])}
    want_ms = Counter()
    for pd in pds:
        for (q0, dq, pitch, _) in sounding_quarters(pd):
            want_ms[(q0, dq, pitch)] += 1
    org = origin_of({"parts": pds}, anac)
    with tempfile.TemporaryDirectory(prefix="c04h") as tmp:
        fn = os.path.join(tmp, "x.mid")
        path = pathlib.Path(fn) if d.get("path") == "pathlib" else fn
        # ---- the file as it travels by path (the reference) and as an object
        ret, e = call(save_score_midi, score, path, **kw)
        if e or not os.path.exists(fn):
            if n_sound > 0:
                ev.oracle.append("export raised: [%s] save_score_midi to a path raised %s: %s" % (tag, type(e).__name__, str(e)[:120]))
            return ev
        if ret is not None:
            ev.oracle.append("hist(return): [%s] save_score_midi to a path returned %s, documented None" % (tag, type(ret).__name__))
        ref = mido.MidiFile(fn)
        ref_content = content(ref)
        if d["src"] == "object":
            mf, e = call(save_score_midi, score, None, **kw)
            if e or not isinstance(mf, mido.MidiFile):
                ev.oracle.append("hist(object): [%s] save_score_midi(score, None) %s where the export to a path succeeds"
                                 % (tag, "raised %s" % type(e).__name__ if e else "returned %s" % type(mf).__name__))
                return ev
        else:
            mf = mido.MidiFile(fn)
        snap0 = snapshot(mf)
        if content(mf) != ref_content:
            ev.oracle.append("hist(object): [%s] the MidiFile returned for out=None differs from the file written to a path: %s"
                             % (tag, snapshot_diff(ref_content, content(mf))))
        # the export to a file-like object writes the same file
        buf = io.BytesIO()
        call(save_score_midi, score, buf, **kw)
        with open(fn, "rb") as fh:
            if buf.getvalue() != fh.read():
                ev.oracle.append("hist(object): [%s] the export to a file-like object and to a path write different bytes" % tag)
        tracks0 = file_tracks(mf)
        ticks0 = int(mf.ticks_per_beat)
        ttoks = W.lst(lambda tr: W.lst(lambda x: "%d %s" % (x[1], msg_token(x[2])), tr), tracks0)
        zero_num = any(m.type == "time_signature" and m.numerator == 0 for tr in tracks0 for _, _, m in tr)
        ntr = len(mf.tracks)
        model_ops, texts = [], []
        changed = False
        ref_cache = {}

        def reference(op):
            """the same call on the path (a fresh MidiFile is parsed by the reader)"""
            k = tuple(op)
            if k not in ref_cache:
                if op[0] == "I":
                    ref_cache[k] = call(with_timeout, 120, load_score_midi, path, part_voice_assign_mode=op[1])
                else:
                    ref_cache[k] = call(load_performance_midi, path)
            return ref_cache[k]

        # the parts as the exporter read them, for the `impspec` stream (the signatures of an import in ANY mode as functions
        # of the score: theorem import_signatures_spec)
        import partitura.score as S
        tops, gidx = [], []
        for p in score.parts:
            top = p
            while top.parent:
                top = top.parent
            if not any(top is t for t in tops):
                tops.append(top)
            gidx.append([i for i, t in enumerate(tops) if t is top][0])
        ptoks = " ".join(part_tokens(p, g) for p, g in zip(score.parts, gidx))
        with_ts = anac != "time_sig_change"
        impspec_done = set()
        impspec_seen = Counter()
        for oi, op in enumerate(d["ops"]):
            where = "use %d %r of %r" % (oi, op, d["ops"])
            if op[0] == "I":
                if zero_num:
                    continue  # add_measures does not terminate on a 0/x signature (tsc-zero-numerator, judged by the score cases)
                sc2, e2 = call(with_timeout, 120, load_score_midi, mf, part_voice_assign_mode=op[1])
                rsc, re_ = reference(op)
                if e2 or re_:
                    tolerated = (bool(e2) and bool(re_) and type(e2) is type(re_) and not isinstance(e2, Timeout)
                                 and (conflicting_signatures(tracks0) if op[1] == mode else any_conflicting_signatures(tracks0)))
                    if bool(e2) != bool(re_) or (e2 and type(e2) is not type(re_)):
                        ev.oracle.append("hist(path): [%s] %s: load_score_midi(object) %s, load_score_midi(path) %s" % (
                            tag, where, "raised %s" % type(e2).__name__ if e2 else "returned", "raised %s" % type(re_).__name__ if re_ else "returned"))
                    elif not tolerated:
                        ev.oracle.append("import raised: [%s] %s: load_score_midi raised %s: %s" % (tag, where, type(e2).__name__, str(e2)[:120]))
                else:
                    txt, rtxt = import_text(sc2), import_text(rsc)
                    model_ops.append("I %d" % op[1])
                    texts.append(txt)
                    if op[1] not in impspec_done and vel > 0 and n_sound > 0:
                        impspec_done.add(op[1])
                        ev.requests.append("impspec %d %d %d %s %d %d %s" % (1 if with_ts else 0, op[1], mode, anac, minppq,
                                                                           len(score.parts), ptoks))
                        ev.impl.append(import_sig_text(sc2, with_ts))
                        impspec_seen["%d>%d %s%s" % (mode, op[1], anac, " +ts" if with_ts else "")] += 1
                    got = Counter((Fraction(int(n.start.t), ticks0) + org, Fraction(int(n.duration_tied), ticks0), int(n.midi_pitch))
                                  for p2 in sc2.parts for n in p2.notes_tied)
                    if got != want_ms:
                        ev.oracle.append("hist(notes): [%s] %s: load_score_midi(object, mode %d) does not return the score's sounding notes; "
                                         "missing %s, unexpected %s" % (tag, where, op[1], fmt_ms(list((want_ms - got).items())[:2]),
                                                                        fmt_ms(list((got - want_ms).items())[:2])))
                    if txt != rtxt:
                        ev.oracle.append("hist(path): [%s] %s: load_score_midi of the object and of the path differ (parts, notes, voices, "
                                         "signatures or tempi)" % (tag, where))
            elif op[0] == "P":
                perf, e2 = call(load_performance_midi, mf)
                rperf, re_ = reference(op)
                if e2 or re_:
                    if bool(e2) != bool(re_):
                        ev.oracle.append("hist(path): [%s] %s: load_performance_midi(object) %s, (path) %s" % (
                            tag, where, "raised %s" % type(e2).__name__ if e2 else "returned", "raised %s" % type(re_).__name__ if re_ else "returned"))
                    else:
                        ev.oracle.append("perf raised: [%s] %s: load_performance_midi raised %s" % (tag, where, type(e2).__name__))
                else:
                    pnotes, txt = perf_rows_text(perf, ntr)
                    model_ops.append("P")
                    texts.append(txt)
                    got = Counter((Fraction(int(n["note_on_tick"]), ticks0) + org,
                                   Fraction(int(n["note_off_tick"]) - int(n["note_on_tick"]), ticks0), int(n["midi_pitch"])) for n in pnotes)
                    if got != want_ms:
                        ev.oracle.append("hist(notes): [%s] %s: load_performance_midi(object) does not return the score's sounding notes; "
                                         "missing %s, unexpected %s" % (tag, where, fmt_ms(list((want_ms - got).items())[:2]),
                                                                        fmt_ms(list((got - want_ms).items())[:2])))
                    if perf_value(perf) != perf_value(rperf):
                        ev.oracle.append("hist(path): [%s] %s: load_performance_midi of the object and of the path differ" % (tag, where))
            elif op[0] == "S":
                b2 = io.BytesIO()
                _, e2 = call(mf.save, file=b2)
                mf2 = None
                if not e2:
                    b2.seek(0)
                    mf2, e2 = call(mido.MidiFile, file=b2)
                if e2:
                    ev.oracle.append("hist(save): [%s] %s: saving the object / parsing what was saved raised %s" % (tag, where, type(e2).__name__))
                else:
                    model_ops.append("S")
                    texts.append(deltas_text(mf2))
                    if content(mf2) != ref_content:
                        ev.oracle.append("hist(save): [%s] %s: the object saved now is not the file the export wrote: %s"
                                         % (tag, where, snapshot_diff(ref_content, content(mf2))))
            else:
                model_ops.append("M")
                texts.append(W.f_list(lambda tr: W.f_list(lambda x: "%d:%s" % (x[0], msg_text(x[2])), tr), file_tracks(mf)))
                got = Counter((Fraction(a, ticks0) + org, Fraction(b - a, ticks0), p) for (_, a, b, p, _) in pair_direct(mf))
                if got != want_ms:
                    ev.oracle.append("hist(notes): [%s] %s: the messages of the object read directly do not hold the score's sounding notes; "
                                     "missing %s, unexpected %s" % (tag, where, fmt_ms(list((want_ms - got).items())[:2]),
                                                                    fmt_ms(list((got - want_ms).items())[:2])))
            if not changed:
                df = snapshot_diff(snap0, snapshot(mf))
                if df:
                    changed = True
                    ev.oracle.append("hist(object changed): [%s] %s changed the MidiFile object it was given: %s" % (tag, where, df))
        ev.requests.append("hist %d %s %s" % (ticks0, ttoks, W.lst(lambda o: o, model_ops)))
        ev.impl.append("#".join(texts + [deltas_text(mf)]))
        ev.info["impspec"] = dict(impspec_seen)
    # one line per clause is enough
    seen, res = set(), []
    for f in ev.oracle:
        c = f.split(":")[0]
        if c not in seen:
            seen.add(c)
            res.append(f)
    ev.oracle = res
    return ev


def rows_text(rows):
    return W.f_list(lambda r: W.f_tuple(W.f_rat(r[0]), W.f_rat(r[1]), W.f_int(r[2])), sorted(rows))


def snap(x):
    """the rational a binary64 quarter time stands for (denominators of quarter times divide the lcm of the divisions)"""
    return Fraction(float(x)).limit_denominator(1000000)


def score_rows(score):
    """the score's sounding notes in musical time, from the real quarter maps"""
    rows = []
    for p in score.parts:
        qm = p.quarter_map
        for n in p.notes_tied:
            q0, q1 = snap(qm(n.start.t)), snap(qm(n.start.t + n.duration_tied))
            rows.append((q0, q1 - q0, int(n.midi_pitch)))
    return rows


def spec_text(sd, order, rows, anac, tracks, pnotes):
    """what the real file holds, in the vocabulary of Model/ScoreMidiSpec.lean: per track the notes read by the real
    performance reader, the key / time signature and tempo events written by the real exporter; the score's sounding
    notes in musical time from the real quarter maps"""
    org = origin_of({"parts": [sd["parts"][i] for i in order]}, anac)
    trs = range(len(tracks))

    def evs(tr, typ):
        return W.f_list(lambda x: "%d:%s" % x, sorted((t, msg_text(m)) for (t, _, m) in tracks[tr] if m.type == typ))

    notes = W.f_list(lambda i: W.f_list(
        lambda n: W.f_tuple(*[W.f_int(n[f]) for f in ("note_on_tick", "note_off_tick", "midi_pitch", "channel", "velocity")]),
        sorted((n for n in pnotes if n["track"] == i),
               key=lambda n: (n["note_on_tick"], n["midi_pitch"], n["note_off_tick"], n["channel"], n["velocity"]))), trs)
    return "|".join([W.f_rat(org), notes, W.f_list(lambda tr: evs(tr, "key_signature"), trs),
                     "-" if anac == "time_sig_change" else W.f_list(lambda tr: evs(tr, "time_signature"), trs),
                     W.f_list(lambda tr: evs(tr, "set_tempo"), trs), rows_text(rows)])


def hash_desc(d):
    import hashlib
    import json

    return hashlib.sha1(json.dumps(d, sort_keys=True, default=str).encode()).hexdigest()[:16]


def import_text(sc):
    import partitura.score as S

    groups = [x for x in sc.part_structure if isinstance(x, S.PartGroup)]

    def gi(p):
        for i, g in enumerate(groups):
            if any(c is p for c in S.iter_parts(g)):
                return i
        return None

    rows = []
    for p in sc.parts:
        pid = int(p.id[1:]) - 1
        notes = sorted((n.start.t, int(n.midi_pitch), n.duration_tied, int(n.voice or 0)) for n in p.notes_tied)
        tss = [(t.start.t, t.beats, t.beat_type) for t in p.iter_all(S.TimeSignature)]
        kss = [(k.start.t, k.name) for k in p.iter_all(S.KeySignature)]
        # create_part: one quarter duration for the whole part, set at time 0 (0 stands for anything else)
        qd = list(zip([int(x) for x in p._quarter_times], [int(x) for x in p._quarter_durations]))
        divs = qd[0][1] if (len(qd) == 1 and qd[0][0] == 0) else 0
        rows.append((pid, W.f_tuple(
            W.f_int(pid), W.f_opt(W.f_int, gi(p)), W.f_int(divs),
            W.f_list(lambda n: W.f_tuple(*[W.f_int(x) for x in n]), notes),
            W.f_list(lambda t: W.f_tuple(*[W.f_int(x) for x in t]), tss),
            W.f_list(lambda k: W.f_tuple(W.f_int(k[0]), k[1]), kss))))
    first = sc.parts[0]
    tempos = sorted((tp.start.t, tp.microseconds_per_quarter) for tp in first.iter_all(S.Tempo))
    rows.sort(key=lambda r: r[0])
    return "[" + ",".join(r[1] for r in rows) + "]|" + W.f_list(lambda t: W.f_tuple(W.f_int(t[0]), W.f_int(t[1])), tempos)


def import_sig_text(sc, with_ts):
    """key (and time) signatures of the parts of a real import, in the form of the driver's `impspec`"""
    import partitura.score as S

    rows = []
    for p in sc.parts:
        pid = int(p.id[1:]) - 1
        kss = [(k.start.t, k.name) for k in p.iter_all(S.KeySignature)]
        tss = [(t.start.t, t.beats, t.beat_type) for t in p.iter_all(S.TimeSignature)]
        rows.append((pid, W.f_tuple(
            W.f_int(pid), W.f_list(lambda k: W.f_tuple(W.f_int(k[0]), k[1]), kss),
            W.f_list(lambda t: W.f_tuple(*[W.f_int(x) for x in t]), tss) if with_ts else "-")))
    rows.sort(key=lambda r: r[0])
    return "[" + ",".join(r[1] for r in rows) + "]"


# ====================================================================== when the exporter returns
def eval_reject(d):
    """the rejection paths of save_score_midi (theorem export_returns_iff): an unsupported mode, a score without any
    sounding note; and their neighbours that are accepted (mode 5, one sounding note).  Only model and code are
    compared: the property does not say what a rejected call does."""
    import mido
    from partitura.io.exportmidi import save_score_midi

    ev = Eval()
    _PICKUP.clear()
    score, parts, sd = build(d["score"])
    tops, gidx = [], []
    for p in score.parts:
        top = p
        while top.parent:
            top = top.parent
        if not any(top is t for t in tops):
            tops.append(top)
        gidx.append([i for i, t in enumerate(tops) if t is top][0])
    ptoks = " ".join(part_tokens(p, g) for p, g in zip(score.parts, gidx))
    mode, anac, minppq, vel = d["cfg"]
    buf = io.BytesIO()
    _, e = call(save_score_midi, score, buf, part_voice_assign_mode=mode, velocity=vel, anacrusis_behavior=anac, minimum_ppq=minppq)
    ev.requests.append("exp %d %s %d %d %d %s" % (mode, anac, minppq, vel, len(score.parts), ptoks))
    if e:
        ev.impl.append("err")
    else:
        buf.seek(0)
        mf = mido.MidiFile(file=buf)
        tracks = file_tracks(mf)
        ev.impl.append("%d|%s|%s" % (
            mf.ticks_per_beat,
            W.f_list(lambda tr: W.f_list(lambda x: "%d:%s" % (x[0], msg_text(x[2])), tr), tracks),
            W.f_list(lambda tr: W.f_list(lambda x: "%d:%s" % (x[1], msg_text(x[2])), tr), tracks)))
    n_sound = sum(len(sounding_desc(pd)) for pd in sd["parts"])
    want_err = not (0 <= mode <= 5) or n_sound == 0
    if bool(e) != want_err and not (e and n_sound):
        # (informative only when the code ACCEPTS what the characterisation says it rejects)
        ev.oracle.append("returns: save_score_midi %s for mode %d and %d sounding notes" % ("returned" if not e else "raised", mode, n_sound))
    ev.info = {"rejected": bool(e)}
    ev.key = "reject:%s" % hash_desc(d)
    return ev


def gen_reject_case(rng):
    import copy

    sd = gen_score1(rng, style=None)
    r = rng.random()
    cfg = [rng.choice(MODES), rng.choice(ANAC), rng.choice(MINPPQ), 64]
    if r < 0.4:
        cfg[0] = rng.choice([6, 7, 9, 100])
    elif r < 0.8:
        # no sounding note anywhere: every note becomes a rest (or only one note is left, which is accepted)
        sd = copy.deepcopy(sd)
        keep = rng.random() < 0.3
        for pd in sd["parts"]:
            for n in pd["notes"]:
                if n["kind"] in ("note", "grace"):
                    if keep and n["kind"] == "note" and not n.get("tie") and n["dur"] > 0:
                        keep = False
                        continue
                    n["kind"] = "rest"
                    n.pop("tie", None)
                    n.pop("grace_type", None)
    return {"k": "reject", "score": sd, "cfg": cfg}


# ====================================================================== one score object: read, edit, export again
def desc_apply(sd, op):
    """the description after an edit, by the documented meaning of the call (independent of the code):
    ["Q", part, t, q]  Part.set_quarter_duration(t, q): q divisions per quarter from t until the next STORED quarter
                       duration; a value stored at t is replaced; a call that repeats the value in force just before t
                       (and finds nothing stored at t) stores nothing - so a later call at an earlier time runs up to the
                       next stored entry, not up to t (the reading under which the code is right: "add quarter duration at
                       time t, unless it is redundant"); time points do not move, only their relation to musical time
    ["A", part, note]  Part.add(Note, t, t + dur)      ["X", part, id]  Part.remove(note)
    ["T", part, t, beats, beat_type]  the TimeSignature at t (if any) is removed and another one is added there"""
    import copy

    sd = copy.deepcopy(sd)
    pd = sd["parts"][op[1]]
    if op[0] == "Q":
        # the table of STORED quarter durations: a value stored at t is replaced; otherwise the call stores (t, q) unless
        # q is already in force just before t ("add quarter duration at time t, unless it is redundant"), and the value
        # holds until the next stored entry
        tbl = [list(x) for x in qd_table(pd)]
        at = [x for x in tbl if x[0] == op[2]]
        if at:
            at[0][1] = op[3]
        elif [x for x in tbl if x[0] < op[2]][-1][1] != op[3]:
            tbl = sorted(tbl + [[op[2], op[3]]])
        pd["divs"] = tbl[0][1]
        pd["qd"] = [[t, q] for t, q in tbl[1:]]
    elif op[0] == "A":
        pd["notes"].append(dict(op[2]))
        pd["notes"].sort(key=lambda n: n["t"])
    elif op[0] == "X":
        pd["notes"] = [n for n in pd["notes"] if n["id"] != op[2]]
    elif op[0] == "T":
        pd["ts"] = sorted([x for x in pd["ts"] if x[0] != op[2]] + [[op[2], op[3], op[4]]])
    return sd


def all_divs_lcm(sd):
    L = 1
    for pd in sd["parts"]:
        for _, q in qd_table(pd):
            L = lcm(L, q)
    return L


def edit_domain_ok(sd):
    """the generated domain after an edit: no equal-pitch overlap anywhere (domain_ok); the bar of the first time
    signature of every part with a pickup on the tick grid (`pad_bar`, hypothesis of score_roundtrip_pad_partial);
    parts that start equally early have the same first time signature (see gen_score)"""
    if not domain_ok(sd):
        return False
    if not all(tie_span_uniform(pd) for pd in sd["parts"]):
        return False   # an edit of the divisions inside the span of a tie between notes that are not neighbours
    # a MIDI time signature holds a numerator of at most 255 (mido refuses more): every measure, as `time_sig_change`
    # writes it (beats halved until whole or /128), stays below that
    for pd in sd["parts"]:
        for (s0, e0, _) in pd.get("measures") or []:
            ts = ts_in_force(pd, s0)
            if ts is not None:
                nb, bt = beat_dur(pd, s0, e0), ts[1]
                while nb.denominator != 1 and bt < 128:
                    nb, bt = 2 * nb, 2 * bt
                if nb > 255:
                    return False
    L = all_divs_lcm(sd)
    first = {}
    for pd in sd["parts"]:
        if pickup_of(pd) > 0:
            b, bt = ts_in_force(pd, 0) or (4, 4)
            if (4 * b * L) % bt:
                return False
            if first.setdefault(pickup_of(pd), (b, bt)) != (b, bt):
                return False
    return True


def gen_edit(rng, sd, serial):
    """one edit of the description `sd` that keeps it in the domain, or None"""
    pi = rng.randrange(len(sd["parts"]))
    pd = sd["parts"][pi]
    end_t = max([m[1] for m in pd.get("measures") or []] + [n["t"] + n["dur"] for n in pd["notes"]])
    bars = sorted(set(m[0] for m in pd.get("measures") or []))
    r = rng.random()
    if r < 0.5:
        rr = rng.random()
        t = (rng.choice(bars) if rr < 0.45 and bars else 0 if rr < 0.55 else
             rng.choice([x[0] for x in pd["qd"]]) if rr < 0.7 and pd["qd"] else rng.randrange(0, end_t))
        cur = [q for (tt, q) in qd_table(pd) if tt <= t][-1]
        cand = [cur * 2, cur * 3, cur * 2, rng.choice(DIVS_ODD + DIVS_ANY)] + ([cur // 2] if cur % 2 == 0 else []) + ([cur] if rng.random() < 0.1 else [])
        return ["Q", pi, t, rng.choice(cand)]
    if r < 0.7:
        notes = [n for n in pd["notes"] if n["kind"] in ("note", "grace")]
        if not notes:
            return None
        graces = set(n["t"] for n in pd["notes"] if n["kind"] == "grace")
        t = next((x for x in [rng.randrange(0, end_t) for _ in range(8)] if x not in graces), None)
        if t is None:
            return None
        dur = rng.randint(1, max(1, min(end_t - t, 2 * pd["divs"])))
        st, al, oc = spell(rng, rng.randint(36, 96))
        return ["A", pi, {"id": "e%s_%d" % (pd["id"], serial), "t": t, "dur": dur, "kind": "note", "step": st, "alter": al, "oct": oc,
                          "voice": rng.choice([n.get("voice") for n in notes]), "staff": 1}]
    if r < 0.82:
        tied = set(n["tie"] for n in pd["notes"] if n.get("tie"))
        cand = [n for n in pd["notes"] if n["kind"] in ("note", "grace") and not n.get("tie") and n["id"] not in tied]
        if len([n for n in pd["notes"] if n["kind"] == "note" and n["dur"] > 0]) < 2 or not cand:
            return None
        n = rng.choice(cand)
        if n["kind"] == "note" and n["dur"] > 0 and len([m for m in pd["notes"] if m["kind"] == "note" and m["dur"] > 0]) < 2:
            return None
        return ["X", pi, n["id"]]
    have = [x[0] for x in pd["ts"]]
    t = rng.choice(have) if rng.random() < 0.6 or not bars else rng.choice(bars)
    b, bt = rng.choice(TS_POOL)
    return ["T", pi, t, b, bt]


def gen_edit_case(rng):
    """EDIT-AFTER-READ history on one score object: a read (an export, the time maps, note arrays, every view), then
    1-3 edits each optionally followed by a read; the final export is judged"""
    for _ in range(20):
        sd = gen_score1(rng, style=rng.choice([None, None, None, "extent", "zero"]))
        if rng.random() < 0.25:
            add_gapped_ties(rng, sd)
        if edit_domain_ok(sd):
            break
    add_warm(rng, sd)
    cfg = lambda: [rng.choice(MODES), rng.choice(ANAC), rng.choice(MINPPQ), rng.choice([1, 30, 64, 90, 127])]
    read = lambda: ["R", rng.choice(["export", "export", "maps", "arrays", "views"]), cfg()]
    ops, cur, serial = [read()], sd, 0
    for _e in range(rng.choice([1, 1, 1, 2, 2, 3])):
        for _try in range(10):
            serial += 1
            op = gen_edit(rng, cur, serial)
            if op is None:
                continue
            nxt = desc_apply(cur, op)
            if edit_domain_ok(nxt):
                ops.append(op)
                cur = nxt
                if rng.random() < 0.4:
                    ops.append(read())
                break
    return {"k": "edit", "score": sd, "ops": ops, "cfg": cfg()}


def canon_file(mf):
    return [int(mf.ticks_per_beat), [sorted((t, msg_text(m)) for (t, _, m) in tr) for tr in file_tracks(mf)]]


def eval_edit(d):
    import mido
    import partitura.score as S
    from partitura.io.exportmidi import save_score_midi
    from partitura.io.importmidi import load_score_midi, load_performance_midi

    ev = Eval()
    _PICKUP.clear()
    score, parts, sd = build(d["score"])
    order = [[i for i, q in enumerate(parts) if q is p][0] for p in score.parts]   # score.parts -> index into sd["parts"]
    pos_of = {pi: j for j, pi in enumerate(order)}
    tops, gidx = [], []
    for p in score.parts:
        top = p
        while top.parent:
            top = top.parent
        if not any(top is t for t in tops):
            tops.append(top)
        gidx.append([i for i, t in enumerate(tops) if t is top][0])
    ptoks0 = " ".join(part_tokens(p, g) for p, g in zip(score.parts, gidx))
    cur, etoks = sd, []
    for op in d["ops"]:
        if op[0] == "R":
            m, a, mp, v = op[2]
            if op[1] == "export":
                call(save_score_midi, score, None, part_voice_assign_mode=m, velocity=v, anacrusis_behavior=a, minimum_ppq=mp)
            elif op[1] == "maps":
                for p in parts:
                    call(lambda: [float(p.quarter_map(0)), float(p.inv_quarter_map(0.0)), float(p.beat_map(0)), p.time_signature_map(0)])
            elif op[1] == "arrays":
                call(lambda: score.note_array())
                for p in parts:
                    call(lambda: p.note_array())
            else:
                for p in parts:
                    G.warm_readers(p)
            continue
        part = parts[op[1]]
        if op[0] == "Q":
            part.set_quarter_duration(op[2], op[3])
            etoks.append("Q %d %d %d" % (pos_of[op[1]], op[2], op[3]))
        elif op[0] == "A":
            n = op[2]
            part.add(S.Note(step=n["step"], octave=n["oct"], alter=n.get("alter"), id=n["id"], voice=n.get("voice"), staff=n.get("staff")),
                     n["t"], n["t"] + n["dur"])
            etoks.append("A %d %d %d %d %s" % (pos_of[op[1]], n["t"], n["dur"], midi_of(n), W.opt(W.i, n.get("voice"))))
        elif op[0] == "X":
            rows = list(part.notes_tied)
            k = next((i for i, o in enumerate(rows) if o.id == op[2]), None)
            if k is None:
                return Eval()   # (a shrunk history) the note is not there
            part.remove(rows[k])
            etoks.append("R %d %d" % (pos_of[op[1]], k))
        elif op[0] == "T":
            for old in [x for x in part.iter_all(S.TimeSignature) if x.start.t == op[2]]:
                part.remove(old)
            part.add(S.TimeSignature(op[3], op[4]), op[2])
            etoks.append("T %d %d %d %d" % (pos_of[op[1]], op[2], op[3], op[4]))
        cur = desc_apply(cur, op)
    if not edit_domain_ok(cur):
        return Eval()   # (a shrunk history) the edited score is outside the generated domain
    mode, anac, minppq, vel = cfg = d["cfg"]
    hist = " ".join("%s%s" % (o[0], ":" + o[1] if o[0] == "R" else "") for o in d["ops"])
    tag = "mode=%d %s min=%d vel=%d after %s" % (mode, anac, minppq, vel, hist)
    kw = dict(part_voice_assign_mode=mode, velocity=vel, anacrusis_behavior=anac, minimum_ppq=minppq)
    n_sound = sum(len(sounding_desc(pd)) for pd in cur["parts"])
    ev.key = None if n_sound == 0 else "edit:%s" % hash_desc(d)
    ev.info = {"parts": len(cur["parts"]), "notes": n_sound}
    args = "%d %s %d %d %d" % (mode, anac, minppq, vel, len(score.parts))
    req = "edit %s %s %s" % (args, ptoks0, W.lst(lambda x: x, etoks))
    buf = io.BytesIO()
    _, e = call(save_score_midi, score, buf, **kw)
    if e:
        ev.requests.append(req)
        ev.impl.append("err")
        if n_sound > 0:
            ev.oracle.append("export raised: [%s] save_score_midi of the edited score raised %s: %s" % (tag, type(e).__name__, str(e)[:120]))
        return ev
    buf.seek(0)
    mf = mido.MidiFile(file=buf)
    tracks = file_tracks(mf)
    exp_text = "%d|%s|%s" % (
        mf.ticks_per_beat,
        W.f_list(lambda tr: W.f_list(lambda x: "%d:%s" % (x[0], msg_text(x[2])), tr), tracks),
        W.f_list(lambda tr: W.f_list(lambda x: "%d:%s" % (x[1], msg_text(x[2])), tr), tracks))
    perf, e2 = call(load_performance_midi, mf)
    pnotes = None
    if e2:
        ev.oracle.append("perf raised: [%s] load_performance_midi raised %s" % (tag, type(e2).__name__))
    else:
        pnotes = [dict(n, track=pp.track) for pp in perf.performedparts for n in pp.notes]
        ev.requests.append(req)
        ev.impl.append(exp_text + "#" + spec_text(cur, order, score_rows(score), anac, tracks, pnotes) + "|-")
    # ---- the twin: the edited description built from scratch and exported with the same configuration
    _PICKUP.clear()
    tscore, tparts, _ = build(cur)
    tmf, te = call(save_score_midi, tscore, None, **kw)
    if te:
        ev.oracle.append("edit(twin): [%s] the edited object is exported, a twin built from scratch raises %s" % (tag, type(te).__name__))
    elif canon_file(tmf) != canon_file(mf):
        a, b = canon_file(mf), canon_file(tmf)
        if a[0] != b[0]:
            df = "ticks per quarter %d, twin %d" % (a[0], b[0])
        elif len(a[1]) != len(b[1]):
            df = "%d tracks, twin %d" % (len(a[1]), len(b[1]))
        else:
            ti = next(i for i in range(len(a[1])) if a[1][i] != b[1][i])
            only_a = [x for x in a[1][ti] if x not in b[1][ti]][:3]
            only_b = [x for x in b[1][ti] if x not in a[1][ti]][:3]
            df = "track %d: only in the edited object's file %r, only in the twin's %r" % (ti, only_a, only_b)
        ev.oracle.append("edit(twin): [%s] the export of the edited object differs from the export of a twin built from scratch with "
                         "the same content: %s" % (tag, df))
    # ---- the property itself on the edited score
    zero_num = any(m.type == "time_signature" and m.numerator == 0 for tr in tracks for _, _, m in tr)
    sc2 = None
    if zero_num:
        ev.oracle.append("tsc-zero-numerator: [%s] a measure shorter than one beat is written as time signature 0/x" % tag)
    else:
        buf.seek(0)
        sc2, e3 = call(with_timeout, 120, load_score_midi, mido.MidiFile(file=buf), part_voice_assign_mode=mode)
        if e3 and not (not isinstance(e3, Timeout) and conflicting_signatures(tracks)):
            ev.oracle.append("import raised: [%s] load_score_midi raised %s: %s" % (tag, type(e3).__name__, str(e3)[:120]))
    ev.oracle += oracle(cur, order, cfg, mf, tracks, pnotes, sc2, tag)
    seen, res = set(), []
    for f in ev.oracle:
        c = f.split(":")[0]
        if c not in seen:
            seen.add(c)
            res.append(f)
    ev.oracle = res
    return ev


# ====================================================================== the property oracle (independent of the model)
def oracle(sd, order, cfg, mf, tracks, pnotes, sc2, tag):
    import partitura.score as S
    from partitura.utils.music import fifths_mode_to_key_name

    mode, anac, minppq, vel = cfg
    out = []
    ppq = mf.ticks_per_beat
    pds = [sd["parts"][i] for i in order]
    # ---- ppq rule
    L = 1
    for pd in pds:
        for _, q in qd_table(pd):
            L = lcm(L, q)
    kk = ppq // L
    if ppq % L or kk & (kk - 1) or ppq < minppq or (kk > 1 and ppq // 2 >= minppq):
        out.append("ppq: [%s] ticks per quarter %d, lcm of the divisions %d" % (tag, ppq, L))
    org = origin_of({"parts": pds}, anac)
    # ---- the score's sounding notes in quarters
    want = []  # (q_onset, q_dur, pitch, part index, voice)
    for pi, pd in enumerate(pds):
        for (q0, dq, pitch, voice) in sounding_quarters(pd):
            want.append((q0, dq, pitch, pi, voice))
    want_ms = Counter((q, dq, p) for q, dq, p, _, _ in want)
    # ---- direct reading of the file
    if pnotes is not None:
        got = Counter((Fraction(n["note_on_tick"], ppq) + org, Fraction(n["note_off_tick"] - n["note_on_tick"], ppq), n["midi_pitch"])
                      for n in pnotes)
        if got != want_ms:
            miss = list((want_ms - got).items())[:2]
            extra = list((got - want_ms).items())[:2]
            nonint = [w for w in want_ms if ((w[0] - org) * ppq).denominator != 1]
            out.append("notes(file): [%s] the file read directly does not hold the score's sounding notes; missing %s, unexpected %s%s"
                       % (tag, fmt_ms(miss), fmt_ms(extra), " (exact tick image not an integer)" if nonint else ""))
        bad_vel = sorted(set(n["velocity"] for n in pnotes if n["velocity"] != vel))
        if bad_vel:
            out.append("velocity: [%s] requested %d, written %r" % (tag, vel, bad_vel[:3]))
    # ---- (track, channel) of every positive-duration score note, by its unique (tick, pitch)
    where = {}
    if pnotes is not None:
        for n in pnotes:
            where[(n["note_on_tick"], n["midi_pitch"], n["note_off_tick"] - n["note_on_tick"])] = (n["track"], n["channel"])
    part_tracks = defaultdict(set)
    cell = {}
    for (q, dq, p, pi, voice) in want:
        kx = (int((q - org) * ppq) if ((q - org) * ppq).denominator == 1 else None, p, int(dq * ppq) if (dq * ppq).denominator == 1 else None)
        if dq > 0 and kx in where:
            part_tracks[pi].add(where[kx][0])
            cell[(pi, voice)] = cell.get((pi, voice), set()) | {where[kx]}
    # a track that holds nothing of a part but notes of zero duration (a voice whose only other note is the continuation
    # of a tie that starts in another voice) still belongs to that part: the tracks in which a zero-duration note of the
    # part MAY stand (an over-approximation, used only where a larger set of owners demands less)
    zero_tracks = defaultdict(set)
    if pnotes is not None:
        where_all = defaultdict(set)
        for n in pnotes:
            where_all[(n["note_on_tick"], n["midi_pitch"], n["note_off_tick"] - n["note_on_tick"])].add(n["track"])
        for (q, dq, p, pi, voice) in want:
            if dq == 0 and ((q - org) * ppq).denominator == 1:
                zero_tracks[pi] |= where_all.get((int((q - org) * ppq), p, 0), set())

    def owners_of(trk):
        return [pi for pi in range(len(pds)) if trk in part_tracks.get(pi, ()) or trk in zero_tracks.get(pi, ())]

    # ---- time / key signatures and tempi of the file
    msgs = [[(t, m) for (t, _, m) in tr] for tr in tracks]

    def tick_of(pd, t):
        x = (quarter(pd, t) - org) * ppq
        return int(x) if x.denominator == 1 else None

    if anac != "time_sig_change":
        for pi, pd in enumerate(pds):
            for trk in part_tracks[pi]:
                have = Counter((t, m.numerator, m.denominator) for t, m in msgs[trk] if m.type == "time_signature")
                for i, (t, b, bt) in enumerate(pd.get("ts", [])):
                    tk = 0 if (anac == "pad_bar" and i == 0) else tick_of(pd, t)
                    if have[(tk, b, bt)] == 0:
                        out.append("timesig(file): [%s] part %d signature %d/%d at division %d missing at tick %s of track %d"
                                   % (tag, pi, b, bt, t, tk, trk))
        for trk in (range(len(msgs)) if (pnotes is not None and got == want_ms) else []):
            owners = owners_of(trk)
            allowed = set()
            for pi in owners:
                for i, (t, b, bt) in enumerate(pds[pi].get("ts", [])):
                    allowed.add((0 if (anac == "pad_bar" and i == 0) else tick_of(pds[pi], t), b, bt))
            for t, m in msgs[trk]:
                if m.type == "time_signature" and (t, m.numerator, m.denominator) not in allowed:
                    out.append("timesig(file): [%s] track %d has %d/%d at tick %d that no part of the track has there"
                               % (tag, trk, m.numerator, m.denominator, t))
                    break
    else:
        for pi, pd in enumerate(pds):
            for trk in part_tracks[pi]:
                if [x for x in part_tracks if trk in part_tracks[x]] != [pi]:
                    continue  # several parts share the track: "in force" is not defined per part
                sigs = [(t, m.numerator, m.denominator) for t, m in msgs[trk] if m.type == "time_signature"]
                for (s, e, _) in pd.get("measures") or []:
                    ts = ts_in_force(pd, s)
                    if ts is None:
                        continue
                    nb = beat_dur(pd, s, e)
                    tk = tick_of(pd, s)
                    inforce = None
                    for (t, b, bt) in sigs:
                        if t <= tk:
                            inforce = (b, bt)
                    if nb != ts[0] and nb.denominator != 1:
                        # length not a whole number of beats: when halving the beat (down to /128) makes it whole, the
                        # signature in force states the measure's length (whatever beat type it is written in); when it
                        # does not, the count is truncated by design (only a non-zero numerator is demanded)
                        k, kbt = nb, ts[1]
                        while k.denominator != 1 and kbt < 128:
                            k, kbt = 2 * k, 2 * kbt
                        if k.denominator == 1 and (inforce is None or inforce[0] == 0 or Fraction(inforce[0], inforce[1]) != Fraction(nb) / ts[1]):
                            out.append("timesig(file,tsc): [%s] part %d measure at division %d lasts %s beats of 1/%d (= %d/%d): in force in "
                                       "track %d at tick %s is %r" % (tag, pi, s, nb, ts[1], int(k), kbt, trk, tk, inforce))
                            break
                        continue
                    exp = (int(nb), ts[1]) if nb != ts[0] else ts
                    if inforce != exp:
                        out.append("timesig(file,tsc): [%s] part %d measure at division %d (%s beats, score signature %d/%d): in force in "
                                   "track %d at tick %s is %r, expected %r" % (tag, pi, s, nb, ts[0], ts[1], trk, tk, inforce, exp))
                        break
    for pi, pd in enumerate(pds):
        for trk in part_tracks[pi]:
            have = Counter((t, m.key) for t, m in msgs[trk] if m.type == "key_signature")
            for (t, f, md) in pd.get("ks", []):
                nm = fifths_mode_to_key_name(f, md)
                if have[(tick_of(pd, t), nm)] == 0:
                    out.append("keysig(file): [%s] part %d key %s at division %d missing at tick %s of track %d"
                               % (tag, pi, nm, t, tick_of(pd, t), trk))
    # no key signature in a track that no part of the track has at that musical position
    for trk in (range(len(msgs)) if (pnotes is not None and got == want_ms) else []):
        owners = owners_of(trk)
        allowed = set((tick_of(pds[pi], t), fifths_mode_to_key_name(f, md)) for pi in owners for (t, f, md) in pds[pi].get("ks", []))
        for t, m in msgs[trk]:
            if m.type == "key_signature" and (t, m.key) not in allowed:
                out.append("keysig(file): [%s] track %d has key %s at tick %d that no part of the track has there" % (tag, trk, m.key, t))
                break
    # time_sig_change: every written time signature stands at the tick of a time signature, a measure start or a
    # measure end of a part of the track
    if anac == "time_sig_change":
        for trk in (range(len(msgs)) if (pnotes is not None and got == want_ms) else []):
            owners = owners_of(trk)
            spots = set()
            for pi in owners:
                spots |= set(tick_of(pds[pi], x[0]) for x in pds[pi].get("ts", []))
                spots |= set(tick_of(pds[pi], x) for mm in (pds[pi].get("measures") or []) for x in mm[:2])
            for t, m in msgs[trk]:
                if m.type == "time_signature" and t not in spots:
                    out.append("timesig(file,tsc): [%s] track %d has a time signature at tick %d, which is neither a signature nor a "
                               "barline of a part of the track" % (tag, trk, t))
                    break
    # only the first track holds tempo events
    for trk in range(1, len(msgs)):
        if any(m.type == "set_tempo" for _, m in msgs[trk]):
            out.append("tempo(file): [%s] track %d holds a tempo event" % (tag, trk))
    tempo_file = [(t, m.tempo) for tr in msgs for t, m in tr if m.type == "set_tempo"]
    marks = {}
    for pi, pd in enumerate(pds):
        for x in pd.get("extras", []):
            if x[0] == "Tempo":
                marks[tick_of(pd, x[1])] = S.Tempo(**x[3]).microseconds_per_quarter
    for tk, mpq in marks.items():
        if (tk, mpq) not in tempo_file:
            out.append("tempo(file): [%s] tempo mark (%s us/quarter) missing at tick %s; file has %r" % (tag, mpq, tk, tempo_file[:4]))
    for (t, m) in tempo_file:
        if (t, m) != (0, 500000) and marks.get(t) != m:
            out.append("tempo(file): [%s] set_tempo %d at tick %d corresponds to no tempo mark" % (tag, m, t))
    # ---- grouping written by the mode: which score cells share a (track, channel)
    if pnotes is not None and cell:
        cells = sorted(cell, key=lambda c: (c[0], -99 if c[1] is None else c[1]))
        gof = {}
        for pi in range(len(pds)):
            gof[pi] = top_of(sd, order[pi])
        for a in cells:
            for b in cells:
                want_tr = {0: a[0] == b[0], 1: gof[a[0]] == gof[b[0]], 2: True, 3: a[0] == b[0], 4: True, 5: a == b}[mode]
                want_tc = {0: a == b, 1: a[0] == b[0], 2: a[0] == b[0], 3: a[0] == b[0], 4: True, 5: a == b}[mode]
                ta, tb = set(x[0] for x in cell[a]), set(x[0] for x in cell[b])
                if (ta == tb and len(ta) == 1) != want_tr or (cell[a] == cell[b] and len(cell[a]) == 1) != want_tc:
                    out.append("mode(file): [%s] (part, voice) %r and %r written to %r and %r" % (tag, a, b, sorted(cell[a]), sorted(cell[b])))
                    break
            else:
                continue
            break
    # ---- the score importer with the same mode
    if sc2 is not None:
        got2 = Counter()
        cell2 = {}
        group2 = {}
        groups = [x for x in sc2.part_structure if isinstance(x, S.PartGroup)]
        for p2 in sc2.parts:
            g2 = next((i for i, g in enumerate(groups) if any(c is p2 for c in S.iter_parts(g))), None)
            for n in p2.notes_tied:
                kx = (Fraction(n.start.t, ppq) + org, Fraction(n.duration_tied, ppq), int(n.midi_pitch))
                got2[kx] += 1
                cell2[kx] = (p2.id, int(n.voice or 0))
                group2[kx] = (g2, p2.id if g2 is None else None)
        # create_part: one quarter duration, the file's ticks per quarter, from time 0; the created part's own quarter
        # map gives every note the score's duration
        for p2 in sc2.parts:
            if [int(x) for x in p2._quarter_times] != [0] or [int(x) for x in p2._quarter_durations] != [ppq]:
                out.append("divs(import): [%s] imported part %s has quarter durations %r at %r, file has %d ticks per quarter"
                           % (tag, p2.id, list(p2._quarter_durations), list(p2._quarter_times), ppq))
                break
            qm2 = p2.quarter_map
            bad = [n for n in p2.notes_tied
                   if abs(float(qm2(n.start.t + n.duration_tied) - qm2(n.start.t)) - n.duration_tied / ppq) > 1e-9]
            if bad:
                out.append("divs(import): [%s] imported part %s: note at division %d lasts %r quarters in the part's quarter map, "
                           "%r ticks at %d per quarter" % (tag, p2.id, bad[0].start.t, float(qm2(bad[0].start.t + bad[0].duration_tied) - qm2(bad[0].start.t)),
                                                         bad[0].duration_tied, ppq))
                break
        if got2 != want_ms:
            miss = list((want_ms - got2).items())[:2]
            extra = list((got2 - want_ms).items())[:2]
            out.append("notes(import): [%s] load_score_midi does not return the score's sounding notes; missing %s, unexpected %s"
                       % (tag, fmt_ms(miss), fmt_ms(extra)))
        else:
            pos = [w for w in want if w[1] > 0]
            # (cell, group, (part, voice), part, top-level group of the part) per note, looked up once
            inf = [(cell2[(a[0], a[1], a[2])], group2[(a[0], a[1], a[2])], (a[3], a[4]), a[3], top_of(sd, order[a[3]])) for a in pos]
            for (ca, ga, pva, pa, ta) in inf:
                for (cb, gb, pvb, pb, tb) in inf:
                    ret = (pva == pvb) if mode in (0, 5) else ((pa == pb) if mode in (1, 3) else True)
                    if (ca == cb) != ret:
                        out.append("grouping(import): [%s] notes of (part, voice) %r and %r come back in %r and %r"
                                   % (tag, pva, pvb, ca, cb))
                        break
                    if mode == 1 and (ga[0] == gb[0]) != (ta == tb):
                        out.append("grouping(import): [%s] mode 1 part groups: parts %d and %d come back in groups %r and %r"
                                   % (tag, pa, pb, ga, gb))
                        break
                else:
                    continue
                break
            # signatures of the imported parts (shift / pad_bar): every signature of a part is found in the
            # imported part(s) that hold its notes
            if anac != "time_sig_change":
                byid = {p2.id: p2 for p2 in sc2.parts}
                for a in pos:
                    pd = pds[a[3]]
                    p2 = byid[cell2[(a[0], a[1], a[2])][0]]
                    have = set((t.start.t, t.beats, t.beat_type) for t in p2.iter_all(S.TimeSignature))
                    havek = set((k.start.t, k.name) for k in p2.iter_all(S.KeySignature))
                    for i, (t, b, bt) in enumerate(pd.get("ts", [])):
                        tk = 0 if (anac == "pad_bar" and i == 0) else tick_of(pd, t)
                        if (tk, b, bt) not in have:
                            out.append("timesig(import): [%s] part %d signature %d/%d (division %d) not at tick %s of imported part %s"
                                       % (tag, a[3], b, bt, t, tk, p2.id))
                            break
                    for (t, f, md) in pd.get("ks", []):
                        if (tick_of(pd, t), fifths_mode_to_key_name(f, md)) not in havek:
                            out.append("keysig(import): [%s] part %d key signature (division %d) not at tick %s of imported part %s"
                                       % (tag, a[3], t, tick_of(pd, t), p2.id))
                            break
        first = sc2.parts[0]
        tpos = set(tp.start.t for tp in first.iter_all(S.Tempo))
        for tk in marks:
            if tk not in tpos:
                out.append("tempo(import): [%s] tempo mark at tick %s not in the first imported part" % (tag, tk))
    # one line per clause is enough
    seen, res = set(), []
    for f in out:
        c = f.split(":")[0]
        if c not in seen:
            seen.add(c)
            res.append(f)
    return res


def fmt_ms(items):
    return "[" + ", ".join("(onset %s, dur %s, pitch %d)x%d" % (k[0], k[1], k[2], c) for k, c in items) + "]"


# ====================================================================== bookkeeping
def finding_key(d, f):
    return f.split(":")[0].split(" ")[0]


def shrink(d):
    import copy

    if d.get("k") == "hist":
        ops = d["ops"]
        # fewer uses of the object, then a plain build, then a smaller score
        if len(ops) > 1:
            for i in range(len(ops)):
                yield dict(d, ops=ops[:i] + ops[i + 1:])
        if any("warm" in pd for pd in d["score"]["parts"]):
            s2 = copy.deepcopy(d["score"])
            for pd in s2["parts"]:
                pd.pop("warm", None)
            yield dict(d, score=s2)
        for s2 in shrink_score(d["score"]):
            yield dict(d, score=s2)
        return
    if d.get("k") == "edit":
        ops = d["ops"]
        # fewer steps (a read or an edit), then a plain build
        for i in range(len(ops)):
            if sum(1 for o in ops if o[0] != "R") > 1 or ops[i][0] == "R":
                yield dict(d, ops=ops[:i] + ops[i + 1:])
        if any("warm" in pd for pd in d["score"]["parts"]):
            s2 = copy.deepcopy(d["score"])
            for pd in s2["parts"]:
                pd.pop("warm", None)
            yield dict(d, score=s2)
        return
    if d.get("k") != "score":
        return
    if len(d["configs"]) > 1:
        for c in d["configs"]:
            yield {"k": "score", "score": d["score"], "configs": [c]}
        return
    if any("warm" in pd for pd in d["score"]["parts"]):
        s2 = copy.deepcopy(d["score"])
        for pd in s2["parts"]:
            pd.pop("warm", None)
        yield {"k": "score", "score": s2, "configs": d["configs"]}
    for s2 in shrink_score(d["score"]):
        yield {"k": "score", "score": s2, "configs": d["configs"]}


def shrink_score(sd):
    import copy

    # drop a part
    if len(sd["parts"]) > 1:
        for i in range(len(sd["parts"])):
            s2 = copy.deepcopy(sd)
            del s2["parts"][i]
            s2["struct"] = [["p", j] for j in range(len(s2["parts"]))]
            yield s2
    # flatten the structure
    if any(it[0] != "p" for it in sd.get("struct") or []):
        s2 = copy.deepcopy(sd)
        s2["struct"] = [["p", j] for j in range(len(s2["parts"]))]
        yield s2
    for pi, pd in enumerate(sd["parts"]):
        tied = set(n["tie"] for n in pd["notes"] if n.get("tie"))
        for ni, n in enumerate(pd["notes"]):
            if n["id"] in tied or n.get("tie"):
                continue
            if sum(1 for x in pd["notes"] if x["kind"] == "note") <= 1 and n["kind"] == "note":
                continue
            s2 = copy.deepcopy(sd)
            del s2["parts"][pi]["notes"][ni]
            yield s2
        for fld in ("extras", "ks"):
            for xi in range(len(pd.get(fld, []))):
                s2 = copy.deepcopy(sd)
                del s2["parts"][pi][fld][xi]
                yield s2


def distribution(descs, results):
    sc = [d for d in descs if d.get("k") == "score"]
    hs = [d for d in descs if d.get("k") == "hist"]
    eds = [d for d in descs if d.get("k") == "edit"]
    divs = Counter()
    for d in sc:
        for pd in d["score"]["parts"]:
            for _, q in qd_table(pd):
                divs[q] += 1
    return {
        "by_kind": dict(Counter(d.get("k") for d in descs)),
        "scores": len(sc),
        "configs": sum(len(d["configs"]) for d in sc),
        "built_warm": sum(1 for d in sc + hs if any(pd.get("warm") for pd in d["score"]["parts"])),
        "export_rejection_cases": dict(Counter("rejected" if (r.get("info") or {}).get("rejected") else "accepted"
                                               for r in results if isinstance(r, dict) and "rejected" in (r.get("info") or {}))),
        "edit_histories": len(eds),
        "edit_steps": dict(sorted(Counter(o[0] + (":" + o[1] if o[0] == "R" else "") for d in eds for o in d["ops"]).items())),
        "edit_histories_ending_with_set_quarter_duration": sum(1 for d in eds if [o for o in d["ops"] if o[0] != "R"][-1:] and
                                                                [o for o in d["ops"] if o[0] != "R"][-1][0] == "Q"),
        "edit_histories_set_quarter_duration_replacing_an_entry": sum(1 for d in eds if any(
            o[0] == "Q" and o[2] in [0] + [x[0] for x in d["score"]["parts"][o[1]]["qd"]] for o in d["ops"])),
        "histories": len(hs),
        "history_uses": dict(sorted(Counter(o[0] for d in hs for o in d["ops"]).items())),
        "history_import_in_other_mode": sum(1 for d in hs if any(o[0] == "I" and o[1] != d["cfg"][0] for o in d["ops"])),
        "history_same_import_twice": sum(1 for d in hs if any(c > 1 for c in Counter(tuple(o) for o in d["ops"] if o[0] == "I").values())),
        "history_source": dict(Counter(d["src"] for d in hs)),
        "parts_per_score": dict(Counter(len(d["score"]["parts"]) for d in sc)),
        "divisions": dict(sorted(divs.items())),
        "with_division_change": sum(1 for d in sc if any(pd.get("qd") for pd in d["score"]["parts"])),
        "with_pickup": sum(1 for d in sc if any(pickup_of(pd) > 0 for pd in d["score"]["parts"])),
        "with_groups": sum(1 for d in sc if any(it[0] != "p" for it in d["score"].get("struct") or [])),
        "with_nested_groups": sum(1 for d in sc if any(it[0] == "n" for it in d["score"].get("struct") or [])),
        "with_several_tempo_marks": sum(1 for d in sc if sum(1 for pd in d["score"]["parts"] for x in pd.get("extras", []) if x[0] == "Tempo") > 2),
        "with_key_change": sum(1 for d in sc if any(len(pd.get("ks", [])) > 1 for pd in d["score"]["parts"])),
        "with_time_sig_change": sum(1 for d in sc if any(len(pd.get("ts", [])) > 1 for pd in d["score"]["parts"])),
        "with_grace_on_main_pitch": sum(1 for d in sc if any(
            n["kind"] == "grace" and any(m["kind"] == "note" and m["t"] == n["t"] and m.get("voice") == n.get("voice") and midi_of(m) == midi_of(n)
                                         for m in pd["notes"]) for pd in d["score"]["parts"] for n in pd["notes"])),
        "with_grace": sum(1 for d in sc if any(n["kind"] == "grace" for pd in d["score"]["parts"] for n in pd["notes"])),
        "with_grace_that_lasts": sum(1 for d in sc + hs if any(n["kind"] == "grace" and n["dur"] > 0 for pd in d["score"]["parts"] for n in pd["notes"])),
        "with_grace_expanded_by_expand_grace_notes": sum(1 for d in sc + hs if d["score"].get("expand_grace") and any(
            n["kind"] == "grace" for pd in d["score"]["parts"] for n in pd["notes"])),
        "with_zero_duration_ordinary_note": sum(1 for d in sc + hs if any(n["kind"] == "note" and n["dur"] == 0 for pd in d["score"]["parts"] for n in pd["notes"])),
        "raw_files_perf_reader_raised": sum(1 for r in results if isinstance(r, dict) and (r.get("info") or {}).get("raw_perf_raised")),
        "raw_files_importer_raised": sum(1 for r in results if isinstance(r, dict) and (r.get("info") or {}).get("raw_import_raised")),
        "with_ties_between_notes_that_are_not_neighbours": sum(1 for d in sc + hs + eds if d["score"].get("gapped_ties")),
        "gapped_tie_chains": sum(len(gapped_chains(pd)) for d in sc + hs + eds for pd in d["score"]["parts"]),
        "with_ties": sum(1 for d in sc if any(n.get("tie") for pd in d["score"]["parts"] for n in pd["notes"])),
        "notes": sum(r.get("info", {}).get("notes", 0) for r in results if isinstance(r, dict)),
        "impspec_observations": _impspec_counts(results),
        "scores_with_a_part_without_time_signature": dict(Counter(d["nots"] for d in sc if d.get("nots"))),
    }


def _impspec_counts(results):
    """observations of the `impspec` comparison (signatures of the imported parts as functions of the score) by
    export mode > import mode, with / without the time signatures, per policy"""
    tot = Counter()
    for r in results:
        if isinstance(r, dict):
            for k, v in ((r.get("info") or {}).get("impspec") or {}).items():
                if " " not in k:
                    tot[k] += v
                    continue
                mm, rest = k.split(" ", 1)
                a, b = mm.split(">")
                tot["same mode" if a == b else "other import mode"] += v
                tot["policy " + rest] += v
                tot["export mode " + a] += v
    return dict(sorted(tot.items()))
