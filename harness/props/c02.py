"""C02 - quarter and beat maps are exact, monotone and mutually inverse.

Reading of the property statement used by the oracle (plain Python + Fraction, independent of
the Lean model):

* "in force": a quarter duration is in force from its change time up to the next change; a time
  signature from its start up to the next signature's start.  Before the first signature nothing
  is in force and one beat is one quarter (this is what the code does; `time_signature_map`
  extends the first signature backwards, the beat map does not - the statement does not decide).
* a stretch of d divisions under quarter duration q lasts d/q quarters and (d/q)*(beat_type/4)
  beats, times musical_beats/beats in musical-beat mode.  musical_beats of a signature is the
  user-supplied value for "beats/beat_type" if the table passed to `use_musical_beat` /
  `set_musical_beat_per_ts` had that key when the signature was already in the part, else the
  documented default (2 for 6/x, 3 for 9/x, 4 for 12/x, beats otherwise).
* pickup, as the code documents it: a first measure that starts at the first time point together
  with a time signature and whose length IN THE UNIT OF THE MAP is smaller than a full bar of that
  signature (beats for the notated beat map, musical_beats for the musical one, beats*4/beat_type
  quarters for the quarter map).  Then zero lies at the END of that measure ("start of the first
  full measure"); otherwise zero lies at the first time point of the part.
* "every position of the timeline": every integer time between the first and the last time point.
* a part with a single time point: its only position maps to 0 and 0 maps back to it.
* values are binary64 in the implementation; "exact" is checked to 1e-9 relative.
* "user-supplied beats per signature": any positive integer may be given for "beats/beat_type" (a divisor of the
  numerator or not, smaller or larger than it); it is used as given.  On a stretch where one signature is in force the
  beat map advances by the quarter map's advance times beat_type/4 (times musical_beats/beats in musical mode).
* "the function can take scalar values or lists/arrays of values" (docstrings of the five maps): a scalar (python or numpy
  number) gives a 0-d result, a list / tuple / array of any rank (also empty) a result of the same shape, element by
  element the scalar call; positions outside the key-point range are NaN for the four maps, quarter_duration_map
  extends its first / last value.
* "for every part": also a part that was queried while it was being built.  The maps after an (edit, query, edit, ...)
  history must be those of a part built from the same edits without the queries (clause `stale`).
* "the quarter durations in force" after a history of `set_quarter_duration` calls in ANY order of times (round 3): the
  docstring says "that value takes effect until the time of the next quarter duration; a different quarter duration
  already set at time t is replaced", the code comment "add quarter duration at time t, unless it is redundant".  Three
  readings agree on every ascending history and on most others:
    stored  - a call at a time that has an entry replaces it; a call at a time without an entry whose value is already
              in force there records nothing; any other call adds an entry (what the code does; Lean: `recorded`);
    every   - every call counts: the value in force at x is that of the last call among those with the greatest time <= x;
    minimal - a call sets its value from t up to the next CHANGE of the function (redundant entries never exist).
  They differ only after a call that changed nothing at the time it was made (e.g. q0=4, set(16,4), set(8,6): at 20 the
  code says 6, `every` says 4).  The oracle is strict where the three agree; where they differ it accepts the map of any
  one of them (and then uses that reading for all other clauses), so it never fails on a defensible behaviour.  The
  model mirrors `stored`; C02.all_calls_reading_fails_unordered records the difference to `every`.
* `Part.quarter_durations(start, end)` (round 5) is a second public view of "the divisions in force": its rows lie inside
  [start, end), are in time order, carry the duration quarter_duration_map returns at their time, and no change of the
  quarter duration inside the bounds is missing (redundant stored entries may or may not be listed).
* a first measure shorter than a bar by no more than numpy.isclose tolerates (1e-8 + 1e-5 bar; fix C02-3 made the test
  tolerant because binary64 sums cannot tell such lengths apart reliably) may be taken for a pickup or for a full bar; this
  needs more than 10^5 divisions per bar (cases of kind `near`).
* the wrapper partitura.utils.generic.interp1d called directly (kind `lin`): the oracle only states what it documents - the
  interpolant passes through its knots, one knot gives a constant function, the result has the argument's shape.
* a table argument of `use_musical_beat` / `set_musical_beat_per_ts` that is not a dict is invalid input (the docstrings say
  "dict"); the statement says nothing about it.  The oracle only requires what holds under every reading: the maps of the
  part afterwards follow the musical beats and the mode the part shows (whether a rejected `use_musical_beat` leaves the part
  in musical mode is adopted from the part - the code does switch, see Model/TimeMapApi.lean); which calls raise and the
  state afterwards are compared with the model (requests `raised`, `hist`, `mbs`).
* a first measure without an end (`part.add(Measure(), t)`) has no length, so it is no pickup measure: zero lies at the first
  time point.  When a measure with an end starts at the first time point too (two measures starting together are outside
  the statement), either may be taken for "the" first measure; the model mirrors the code (the one added first).
* `Part(id)` without `quarter_duration`: one division per quarter (the documented default of the signature).
* two parts of one score (same quarter durations, signatures, beat mode; different extents) are checked as parts; the
  difference of their maps at common positions is only compared with the model (C02.origin_common_across_parts: the
  constant shift2 - shift1) - the statement itself says nothing about it.
"""
import math
from fractions import Fraction as F

import numpy as np

import wire as W
from core import Eval

PROPERTY = "C02"
DRIVER = "drv_c02"
PROPS = ["PartituraModel.Props.C02", "PartituraModel.Props.C02Args", "PartituraModel.Props.C02Musical",
         "PartituraModel.Props.C02Origin", "PartituraModel.Props.C02History", "PartituraModel.Props.C02Calls",
         "PartituraModel.Props.C02Scipy", "PartituraModel.Props.C02Source", "PartituraModel.Props.C02Written",
         "PartituraModel.Props.C02Api", "PartituraModel.Props.C02Probed", "PartituraModel.Props.C02Toggle",
         "PartituraModel.Props.C02Compose"]
TRUSTED = [
    "numpy primitives below the interpolation stack, modelled as small Lean functions (Model/TimeMapScipy.lean): np.searchsorted "
    "/ the binary search of np.interp on a SORTED array = length of the leading run `< x` resp. `<= x` (searchLeft / searchRight), "
    "np.argsort(kind='mergesort') = stable insertion sort (sortKnots), np.clip, and `nextafter(a, -inf) < b iff a <= b` for "
    "binary64 (the shifted knots of kind='previous').  Everything ABOVE them is modelled as written - "
    "partitura.utils.generic.interp1d, scipy's interp1d constructor / _evaluate / _check_bounds, the branch structure of "
    "np.interp, _call_linear, _call_previousnext, the duplication of a single entry in quarter_duration_map - proved equal to the "
    "recursive interp / prevValue of the other theorems on every well-formed part (C02.linear_path_irrelevant: both of scipy's "
    "linear code paths, whatever segment they use at a knot; fwdS_eq_fwd, invS_eq_inv, qdMapS_eq_qdMap) and run against the real "
    "functions (requests bm qm ibm iqm qdm rt a* knots through the as-written model, n* hmap diff through the recursive one, "
    "lin = the wrapper called directly on sorted / unsorted / repeated / single knots)",
    "numpy/scipy broadcasting: np.asarray(argument) keeps the shape, a python/numpy scalar becomes 0-d, the interpolator works "
    "element by element - modelled as Model.TimeMap.Nested.map (callMap / callQD); compared on scalars, lists, tuples, integer "
    "arrays, 2-D arrays and empty sequences; NaN / +inf / -inf elements as Model.TimeMap.Arg (NaN compares false with both "
    "bounds, searchsorted puts it last)",
    "binary64 rounding of the cumulative sums and of the interpolation: the model is exact, the implementation is compared "
    "within 1e-9 relative.  The np.isclose guard of the repaired pickup test (fix C02-3) is modelled exactly on rationals with "
    "the tolerances regenerated from the source / numpy (Gen.C02.pickupTol); it changes the result only when the first measure "
    "is shorter than a bar by less than 1e-8 + 1e-5 bar, i.e. for bars of more than 10^5 divisions (C02.notNearBar_iff, "
    "tolerance_bites_at_huge_divisions); such parts are generated (kind `near`) and there the oracle accepts either origin",
    "the TimePoint list of Part.add (property C01) is modelled as a sorted set of times (Model.TimeMap.hstep); the state "
    "_time_interpolator reads (number of points, first/last point, _quarter_times/_quarter_durations, signatures with their "
    "musical beats in iter_all order, first measure at the first point, musical flag) is computed by the model from the "
    "edit/query history and compared exactly with the real object (request `hist`), and the maps of the model-built part are "
    "compared at the key points (request `hmap`); the other requests feed the model with the state read off the real object",
    "inverse maps at ARBITRARY ordinates are compared with the model strictly inside the image (a float that is not the "
    "implementation's own knot value may fall outside by one ulp: inv_beat_map(float(Fraction(-5, 3))) is NaN at the first point "
    "of a 6/8 pickup part although inv_beat_map(beat_map(0)) is 0.0); the ends of the image are compared through the round trip "
    "inv(fwd(x)) at every key point (request rt), where np.interp copies the stored knot (C02.np_copies_at_key_points, inv_at_ends)",
    "harness/translate_c02.py (gen_c02api) PROBES the live use_musical_beat / use_notated_beat / set_musical_beat_per_ts / "
    "TimeSignature() / quarter_durations / set_quarter_duration on small real parts (every combination of mode x argument kind, "
    "key in table x numerator in MUSICAL_BEATS, value before t x entry at t) and writes the decision tables to Gen/C02Api.lean; "
    "Props/C02Probed.lean proves that the model follows them for ALL states / tables / lists.  The probes cover the abstract "
    "cases of each decision, not every concrete value - the concrete values are the correspondence's job",
    "harness/translate_c02.py reads the flags of the four public properties, the initial values of the carry loop, the beat-"
    "factor and bar-length expressions, the pickup tolerance, Part.__init__ and the wrapper's keyword defaults from the live "
    "source by ast (Gen/C02Source.lean, theorems of Props/C02Source.lean); locals may be renamed and expressions rewritten "
    "algebraically (proved with `ring`), another statement structure stops those theorems from building",
]
PARTIAL = [
    "origin_plain_partial / origin_pickup_partial: zero at the first time point (resp. at the end of the pickup measure) holds "
    "exactly for the parts whose first key point is the first time point (origin_zero_iff_plain / origin_zero_iff_pickup: an "
    "equivalence, so nothing about the origin is left unproved); for every part the value there is elapsed[t0, first) "
    "(origin_value_plain / origin_value_pickup), zero lies at the unique z with elapsed[t0, z] = pickup shift "
    "(zero_characterisation, zero_unique, zero_plain, zero_pickup) and t0 = 0 for every part reachable through the API "
    "(built_first_key_zero).  The statement's wording therefore fails for late-starting parts: open finding F-C02-1, negation "
    "proved at the witness (origin_late_start_counterexample, origin_late_pickup_counterexample); it is kept because all parts "
    "of a score share the origin (origin_common_across_parts, built_common_origin)",
    "the PLACE OF ZERO of the maps as written is the one of the origin theorems only under `tolInactiveB` (the first measure "
    "is not within numpy.isclose of a full bar - decidable, true below 10^5 divisions per bar); where the guard bites the code "
    "puts zero at time 0 although the measure is (a few millionths) short - proved (origin_as_written, "
    "tolerance_bites_at_huge_divisions), accepted as the documented repair C02-3.  Every other clause (exact advance, monotone, "
    "continuity, round trip, domain, NaN) is proved for the maps as written WITHOUT that hypothesis "
    "(property_as_written_unconditional, fwdS_eq_effective)",
    "a rejected use_musical_beat(<not a dict>) leaves the part in musical mode (the switch is flipped before the argument is "
    "checked) and makes a later accepted use_musical_beat(table) a no-op: mirrored and proved as such (rejected_useMusical), "
    "not judged by the oracle - the statement does not cover invalid arguments; non-dict arguments that compare EQUAL to {} "
    "(an empty UserDict: accepted silently by use_musical_beat) are not generated",
    "musical beats are positive integers (what the docstring calls 'the number of musical beats'); non-integer table values "
    "are not modelled or generated",
    "set_quarter_duration: the model mirrors the list surgery; proved: the lists stay strictly increasing, positive and start "
    "at time 0 (built_qd), one call changes quarter_duration_map exactly on [t, next change) (setQD_law, for positions from "
    "the first entry on) and after EVERY call history (any order of times, repeated times, redundant values) the lists "
    "represent 'the last recorded call among those with the greatest time <= x' (table_represents_recorded, "
    "built_qd_represents); a call at a time without an entry whose value is already in force is not recorded, so the "
    "reading 'every call counts' holds for ascending histories and histories without such a call "
    "(table_represents_all_calls_ascending / _of_recorded) and fails otherwise (all_calls_reading_fails_unordered); the "
    "TimePoint.quarter attributes and the cached Part._quarter_map the call also updates are property C01's subject",
    "the one-knot branch of generic.interp1d is modelled for scalar and 1-d arguments (the five maps never reach it: fewer than "
    "two time points are answered by two lambdas, a single quarter duration is duplicated); for a 2-d argument it returns a 1-d "
    "result - observed, outside the statement (measure_map is C10's)",
    "two time signatures starting at the same time are not generated (iteration order is C10's subject); two measures starting "
    "at the first time point are generated only as one with and one without an end (api cases: the one added first decides, "
    "open_first_measure_zero; the oracle accepts either)",
    "non-positive divisions or signature numbers (WF / ValidOp fail) are outside the theorems and the generator",
]
RULE = ("real partitura.score.Part objects built through Part(), set_quarter_duration, add(TimeSignature/Measure/Note), "
        "use_musical_beat/use_notated_beat/set_musical_beat_per_ts: 0-8 quarter-duration changes and 0-8 signatures on and off "
        "barlines and each other, first measure absent / pickup of every length / full / overfull, notated and musical mode "
        "with default and user tables (values dividing the numerator or not, up to 200, larger than the numerator), "
        "late-starting, single-point and empty parts; three parts in eight get an arbitrary CALL HISTORY of "
        "set_quarter_duration (descending / shuffled / rotated order, calls at times that already have an entry, calls whose "
        "value is already in force, corrections back to the value before, two or three values so that A|B|A tables arise; one "
        "case in eight is a short part: a table of 2-6 entries set up on a grid of times, then 1-4 calls at earlier / later / the "
        "same times, on and off the grid); half of the parts are built by a random "
        "interleaving of their edits (the quarter-duration calls in their call order) with warm-up queries of all five maps and "
        "with gen_score.warm_readers on the half-built part; one case in eight is a pair of parts of one score (same "
        "durations/signatures, different extents); every map is called on every integer position as an array and as scalars, "
        "on 6-9 arguments of other shapes (list, tuple, int array, 2-D, empty, at change points and outside the range) and on "
        "NaN / +inf / -inf; inv(fwd(x)) at every key point and just outside; quarter_durations(start, end) for nine bound "
        "combinations; the knot arrays of the returned interpolators.  Interleaved (own generator, the sample of parts is "
        "unchanged): one direct call of partitura.utils.generic.interp1d per three parts (1-7 knots, sorted / reversed / shuffled, a "
        "repeated abscissa, float64 / int64 / float32 ordinates = both of scipy's linear code paths, kind linear / previous, "
        "default / tuple fill values, queries at, between and outside the knots, NaN and infinities) and one part in ten "
        "with 10^6-10^7 divisions per bar whose first measure is a few divisions short of a bar (inside / outside "
        "numpy.isclose), full or overfull; one API-edge part per five (own generator): Part(id) without quarter_duration, "
        "use_musical_beat / set_musical_beat_per_ts with a table argument that is not a dict (None, list, tuple, str, int, UserDict; "
        "alone, before / after accepted calls, while already musical, before / after signatures are added), a first measure "
        "without an end (alone, added before / after a measure with an end that starts with it), queries in between; "
        "distinct = distinct structural description incl. the history; non-trivial = at least two time points")
LEVEL_TEXT = ("Lean 4 theorems (all knot lists, all rationals, all histories - by induction over the key-point list resp. the "
              "edit history) about an executable model of Part._time_interpolator, the four maps, quarter_duration_map, "
              "quarter_durations, the musical-beat switches with arbitrary user tables, set_quarter_duration under arbitrary call "
              "histories and the first/last time point bookkeeping; the interpolation stack (partitura's wrapper, scipy's "
              "constructor, np.interp / _call_linear / _call_previousnext, bounds fill, pickup tolerance) is modelled as written "
              "and proved equal to the simple recursive maps on every well-formed part, so the statement is proved for the code "
              "as written (C02.property_as_written); every part reachable through the API is proved well formed, so the "
              "theorems apply to it without side conditions other than two time points - the tolerance of the pickup test only "
              "matters for the place of zero, which is characterised in both cases (C02.property_as_written_unconditional, "
              "origin_as_written); parts reached through rejected calls, the default quarter duration or end-less measures are "
              "proved to be parts of that kind (C02.xbuild_is_build, api_parts_property); switching to musical beats and back "
              "restores every map (C02.toggle_restores_maps).  The decision tables of the musical-beat switches, of the value a "
              "signature receives, of quarter_durations' bounds and of set_quarter_duration are regenerated by probing the live "
              "functions and the model is proved to follow them for all inputs (Props/C02Probed.lean).  Literal data of the source (flags of the public properties, initial values, "
              "factor and bar-length expressions, tolerance, defaults) is regenerated from the live source on every run.  The "
              "model is run against the real implementation on generated parts at every integer position (arrays, scalars, "
              "other shapes, non-finite values), the state the model computes from the edit/query history is compared exactly "
              "with the real object, and an independent Fraction oracle recomputes the statement's value on the implementation's "
              "outputs.")
SEARCH_LIMIT = 4300

DIVS = [1, 2, 3, 4, 5, 6, 7, 8, 9, 10, 12, 16, 24, 48, 96, 480, 960]
SMALL_DIVS = [1, 2, 3, 4, 5, 6, 7, 8, 9, 10, 12, 16, 24]
SIGS = [(2, 4), (3, 4), (4, 4), (5, 4), (6, 8), (9, 8), (12, 8), (7, 8), (2, 2), (3, 2), (6, 4), (5, 8), (12, 16),
        (9, 16), (3, 8), (1, 4), (15, 8), (6, 16), (4, 2), (11, 8), (1, 1), (9, 4), (12, 4), (4, 8), (3, 16), (6, 2), (13, 32)]
DEFAULT_MB = {6: 2, 9: 3, 12: 4}  # from the docstring of set_musical_beat_per_ts


# ------------------------------------------------------------------ generation
def _table(rng, sigs):
    tbl = {}
    pool = list(dict.fromkeys(sigs))
    rng.shuffle(pool)
    for (b, bt) in pool[: rng.randint(1, max(1, len(pool)))]:
        tbl["%d/%d" % (b, bt)] = _mb_value(rng, b)
    if rng.random() < 0.3:
        b, bt = rng.choice(SIGS)
        tbl.setdefault("%d/%d" % (b, bt), _mb_value(rng, b))
    return tbl


def _mb_value(rng, b):
    """a user-supplied number of musical beats: any positive integer - a divisor of the numerator, a value that does
    not divide it, the numerator itself, values larger than the numerator (also much larger)"""
    r = rng.random()
    if r < 0.30:
        return rng.choice([d for d in range(1, b + 1) if b % d == 0])
    if r < 0.55:
        nd = [d for d in range(1, b + 1) if b % d != 0]
        return rng.choice(nd) if nd else b + 1
    if r < 0.85:
        return rng.randint(b + 1, 3 * b + 5)
    if r < 0.95:
        return rng.choice([1, 2, 3, 5, 7, 11, 13, 17, 19, 23])
    return rng.randint(25, 200)


def _mode_ops(rng, ts_list):
    adds = [["ts", t, b, bt] for (t, b, bt) in ts_list]
    if rng.random() < 0.3:
        rng.shuffle(adds)
    sigs = [(b, bt) for (_, b, bt) in ts_list] or [(4, 4)]
    r = rng.random()
    if r < 0.28:
        return adds, "notated"
    if r < 0.52:
        return adds + [["mus", {}]], "musical-default"
    if r < 0.78:
        return adds + [["mus", _table(rng, sigs)]], "musical-user"
    if r < 0.84:
        k = rng.randint(0, len(adds))
        return adds[:k] + [["mus", _table(rng, sigs)]] + adds[k:], "musical-early"
    if r < 0.90:
        ops = adds + [["mus", _table(rng, sigs)], ["not"]]
        if rng.random() < 0.5:
            ops.append(["mus", {}])
        return ops, "toggle"
    if r < 0.93:
        return adds + [["set", _table(rng, sigs)]], "set-only"
    if r < 0.96:
        # values stored in notated mode are kept by use_musical_beat() without a table
        ops = adds + [["set", _table(rng, sigs)], ["mus", {}]]
        if rng.random() < 0.4:
            ops += [["not"], ["set", _table(rng, sigs)], ["mus", {}]]
        return ops, "set-then-musical"
    return adds + [["mus", {}], ["set", _table(rng, sigs)], ["mus", _table(rng, sigs)]], "musical-set"


def gen_part(rng):
    while True:
        first = 0 if rng.random() < 0.85 else rng.randint(1, 48)
        pool = DIVS if rng.random() < 0.35 else SMALL_DIVS
        q0 = rng.choice(pool)
        nts = rng.choice([0, 1, 1, 1, 2, 2, 3, 3, 4, 5, 6, 8])
        nqd = rng.choice([0, 0, 1, 1, 2, 2, 3, 3, 4, 5, 6, 8])
        ts_list, qd_list, measures = [], [], []
        cur_q, cur_ts = q0, (4, 4)
        if first == 0 and rng.random() < 0.15:
            cur_q = rng.choice(pool)
            qd_list.append((0, cur_q))
        if first > 0 and rng.random() < 0.4:
            u = rng.randint(1, first)
            cur_q = rng.choice(pool)
            qd_list.append((u, cur_q))
        if nts > 0 and rng.random() < 0.88:
            cur_ts = rng.choice(SIGS)
            ts_list.append((first,) + cur_ts)

        def barlen():
            return max(1, math.ceil(F(cur_ts[0] * 4 * cur_q, cur_ts[1])))

        t = first
        L = barlen()
        kind = rng.choices(["nomeasure", "full", "pickup", "over"], [8, 32, 50, 10])[0]
        if kind == "nomeasure":
            if rng.random() < 0.5:
                t = first + L
        else:
            ln = L if kind == "full" else (rng.randint(1, max(1, L - 1)) if kind == "pickup" else L + rng.randint(1, L))
            measures.append((first, first + ln))
            t = first + ln
        nbars = rng.choice([0, 1, 2, 3, 4, 5, 6, 8, 10])
        for _ in range(nbars):
            if len(ts_list) < nts and rng.random() < 0.4 and t not in [x[0] for x in ts_list]:
                cur_ts = rng.choice(SIGS)
                ts_list.append((t,) + cur_ts)
            if len(qd_list) < nqd and rng.random() < 0.3 and t not in [x[0] for x in qd_list]:
                cur_q = rng.choice(pool)
                qd_list.append((t, cur_q))
            L = barlen()
            if rng.random() < 0.1:
                L = rng.randint(1, 2 * L)
            measures.append((t, t + L))
            t += L
        last = t if t > first else first + rng.randint(1, 24)
        if rng.random() < 0.15:
            last += rng.randint(1, 12)
        if last - first > 2000:
            continue
        for _ in range(40):
            if len(ts_list) >= nts:
                break
            tq = [x[0] for x in qd_list if first <= x[0] <= last]
            u = rng.choice(tq) if (tq and rng.random() < 0.3) else rng.randint(first, last)
            if u not in [x[0] for x in ts_list]:
                ts_list.append((u,) + rng.choice(SIGS))
        for _ in range(40):
            if len(qd_list) >= nqd:
                break
            tt = [x[0] for x in ts_list]
            r = rng.random()
            if tt and r < 0.35:
                u = rng.choice(tt)
            elif r < 0.42:
                u = last + rng.randint(1, 10)  # a change after the last time point
            else:
                u = rng.randint(first, last)
            if u not in [x[0] for x in qd_list]:
                qd_list.append((u, rng.choice(pool)))
        ts_list.sort()
        qd_list.sort()
        ops, mode = _mode_ops(rng, ts_list)
        notes = [[first, last]]
        for _ in range(rng.randint(0, 4)):
            a = rng.randint(first, last)
            notes.append([a, rng.randint(a, last)])
        halves = [rng.randint(first, last) for _ in range(6)]
        return {"kind": "part", "q0": q0, "first": first, "last": last, "qd": [list(x) for x in qd_list], "ops": ops,
                "measures": [list(m) for m in measures], "notes": notes, "mode": mode, "halves": halves}


def gen_exact_bar(rng):
    """a first measure that is EXACTLY one bar long although quarter durations change inside it"""
    for _ in range(2000):
        q0, q1, q2 = (rng.choice(DIVS) for _ in range(3))
        beats, bt = rng.choice(SIGS)
        target = F(beats * 4, bt)
        t1 = rng.randint(1, 3 * q0)
        rem = target - F(t1, q0)
        if rem <= 0:
            continue
        d2 = rng.randint(1, 3 * q1)
        rem2 = rem - F(d2, q1)
        if rem2 <= 0:
            continue
        d3 = rem2 * q2
        if d3.denominator != 1 or q1 == q0 or q2 == q1:
            continue
        t2 = t1 + d2
        end = t2 + int(d3)
        if end > 1500:
            continue
        ops, mode = _mode_ops(rng, [(0, beats, bt)])
        last = end + rng.randint(1, 20)
        return {"kind": "part", "q0": q0, "first": 0, "last": last, "qd": [[t1, q1], [t2, q2]], "ops": ops,
                "measures": [[0, end], [end, last]], "notes": [[0, last]], "mode": mode + "+exactbar", "halves": [t1, t2]}
    return gen_part(rng)


# ---- call histories of set_quarter_duration (round 3)
def _step_fn(marks):
    """the step function of a {time: value} table as its minimal list of (time, value) changes"""
    out = []
    for t in sorted(marks):
        if not out or out[-1][1] != marks[t]:
            out.append((t, marks[t]))
    return out


def qd_readings(q0, calls):
    """{time: value} tables after Part(quarter_duration=q0) and the calls, under the three readings of the module
    docstring (plain dict bookkeeping, no sorted-list surgery)"""
    stored, every, minimal = {0: q0}, {0: q0}, {0: q0}
    for t, q in calls:
        every[t] = q
        if t in stored:
            stored[t] = q
        else:
            before = [k for k in stored if k < t]
            if not before or stored[max(before)] != q:
                stored[t] = q
        minimal[t] = q
        minimal = dict(_step_fn(minimal))
    return {"stored": stored, "every": every, "minimal": minimal}


def _in_force(marks, t, strictly_before=False):
    ks = [k for k in marks if (k < t if strictly_before else k <= t)]
    return marks[max(ks)] if ks else None


def scramble_qd(rng, d):
    """turn the ascending, one-call-per-time list d["qd"] into an arbitrary call history: other orders, few values (so
    that tables A | B | A arise), calls at times that already have an entry, calls whose value is already in force at
    their time, corrections of an entry back to the value in force before it"""
    first, last = extent(d)
    base = [list(x) for x in d["qd"]]
    vals = sorted({d["q0"]} | {q for _, q in base})
    if len(vals) < 2 or rng.random() < 0.3:
        vals.append(rng.choice([v for v in SMALL_DIVS if v not in vals]))
    if rng.random() < 0.6:
        pool = rng.sample(vals, min(len(vals), rng.choice([2, 2, 3])))
        if d["q0"] not in pool and rng.random() < 0.7:
            pool[0] = d["q0"]
        base = [[t, rng.choice(pool)] for t, _ in base]
        vals = pool
    order = rng.choice(["ascending", "descending", "shuffled", "shuffled", "rotated"])
    if order == "descending":
        base.reverse()
    elif order == "shuffled":
        rng.shuffle(base)
    elif order == "rotated" and base:
        k = rng.randrange(len(base))
        base = base[k:] + base[:k]
    calls = base
    for _ in range(rng.choice([0, 1, 1, 2, 2, 3, 4])):
        pos = len(calls) if rng.random() < 0.6 else rng.randint(0, len(calls))
        now = qd_readings(d["q0"], calls[:pos])["stored"]
        r = rng.random()
        if r < 0.4 and calls:
            t = rng.choice(calls)[0]
        elif r < 0.45:
            t = 0
        elif r < 0.6 and len(now) > 1:
            t = rng.randint(0, max(1, sorted(now)[1]))  # before the first change stored so far
        else:
            t = rng.randint(0, last + 3)
        r = rng.random()
        if r < 0.45:
            q = _in_force(now, t)  # a call that says what already holds at t
        elif r < 0.65:
            q = _in_force(now, t, True) or rng.choice(vals)  # back to the value before t
        else:
            q = rng.choice(vals)
        calls = calls[:pos] + [[t, q]] + calls[pos:]
    d["qd"] = calls
    d["mode"] += "+calls-" + order
    return d


def gen_qd_history(rng):
    """a short part whose point is the call history: a table of 2-6 entries with two or three values is set up on a grid
    of times (in any order), then 1-4 calls follow at earlier / later / the same times"""
    q0 = rng.choice(SMALL_DIVS)
    vals = [q0] + rng.sample([v for v in SMALL_DIVS if v != q0], rng.choice([1, 1, 2]))
    grid = sorted(rng.sample(range(1, 97), rng.randint(3, 6)))
    # a table first (its calls in any order, mostly real changes) ...
    first_times = rng.sample(grid, rng.randint(2, len(grid)))
    if rng.random() < 0.6:
        first_times.sort()
    calls = []
    for t in first_times:
        now = qd_readings(q0, calls)["stored"]
        other = [v for v in vals if v != _in_force(now, t)]
        calls.append([t, rng.choice(other) if rng.random() < 0.85 else rng.choice(vals)])
    # ... then calls anywhere: on the grid (entry or not), between its times, at 0, after the last entry
    for _ in range(rng.randint(1, 4)):
        r = rng.random()
        t = 0 if r < 0.06 else (rng.choice(grid) if r < 0.5 else rng.randint(0, max(grid) + 4))
        now = qd_readings(q0, calls)["stored"]
        r = rng.random()
        if r < 0.4:
            q = _in_force(now, t)
        elif r < 0.55:
            q = _in_force(now, t, True) or q0
        else:
            q = rng.choice(vals)
        calls.append([t, q])
    last = max(grid) + rng.randint(1, 12) if rng.random() < 0.8 else rng.randint(max(2, grid[0]), max(grid))
    ts_list = [(0,) + rng.choice(SIGS)] if rng.random() < 0.85 else []
    if rng.random() < 0.5:
        u = rng.choice(grid + [rng.randint(1, last)])
        if u <= last and u not in [x[0] for x in ts_list]:
            ts_list.append((u,) + rng.choice(SIGS))
    measures = []
    if rng.random() < 0.7:
        e = rng.randint(1, last)
        measures.append([0, e])
        if e < last and rng.random() < 0.5:
            measures.append([e, rng.randint(e + 1, last)])
    ops, mode = _mode_ops(rng, sorted(ts_list))
    return {"kind": "part", "q0": q0, "first": 0, "last": last, "qd": calls, "ops": ops, "measures": measures,
            "notes": [[0, last]], "mode": mode + "+callgrid", "halves": [rng.randint(0, last - 1) for _ in range(3)]}


def gen_pair(rng, scramble=False):
    """two parts of one score: same quarter durations, signatures and mode operations, different extents"""
    a = gen_part(rng)
    if scramble:
        scramble_qd(rng, a)
    fa, la = extent(a)
    b = dict(a)
    fb = rng.randint(fa, max(fa, la - 1)) if rng.random() < 0.7 else fa
    lb = rng.randint(fb + 1, la + 6)
    r = rng.random()
    if r < 0.4:
        b["measures"] = []
    elif r < 0.7:
        b["measures"] = [m for m in a["measures"] if m[0] >= fb]
    else:
        b["measures"] = [m for m in a["measures"] if m[0] > fa]
    b["notes"] = [[fb, lb]]
    b["halves"] = []
    f2, l2 = extent(b)
    b["first"], b["last"] = f2, l2
    return {"kind": "pair", "a": a, "b": b}


def gen_api(rng):
    """a short part built through the edges of the API (round 6): `Part(id)` without `quarter_duration`, musical-beat calls
    whose table argument is not a dict (rejected; alone, before / after accepted calls, while already in musical mode), a
    first measure without an end (alone, added before / after a measure with an end that starts with it); the history is
    the canonical order of the edits with queries in between (measures starting together keep their order of addition)"""
    q0_default = rng.random() < 0.4
    q0 = 1 if q0_default else rng.choice(SMALL_DIVS)
    b, bt = rng.choice(SIGS)
    qd = []
    if rng.random() < 0.5:
        qd.append([rng.choice([0, 0, rng.randint(1, 12)]), rng.choice(SMALL_DIVS)])
    qeff = qd[0][1] if qd and qd[0][0] == 0 else q0
    L = max(2, math.ceil(F(b * 4 * qeff, bt)))
    shape = rng.choice(["open", "open", "open+closed", "closed+open", "closed", "none"])
    ln = rng.randint(1, L - 1) if rng.random() < 0.75 else L
    measures = {"open": [[0, None]], "open+closed": [[0, None], [0, ln]], "closed+open": [[0, ln], [0, None]],
                "closed": [[0, ln]], "none": []}[shape]
    t = ln if shape != "none" else 0
    for _ in range(rng.randint(1, 3)):
        measures.append([t, t + L])
        t += L
    last = t
    adds = [["ts", 0, b, bt]] if rng.random() < 0.9 else []
    if rng.random() < 0.4:
        b2, bt2 = rng.choice(SIGS)
        adds.append(["ts", rng.randint(1, last - 1), b2, bt2])
    sigs = [(o[2], o[3]) for o in adds] or [(4, 4)]
    x = lambda: rng.randrange(len(BAD_ARGS))
    tbl = lambda: _table(rng, sigs)
    pattern = rng.choice([
        [["musx", x()]], [["setx", x()]], [["mus", tbl()], ["musx", x()]], [["musx", x()], ["not"]],
        [["musx", x()], ["set", tbl()]], [["setx", x()], ["mus", {}]], [["musx", x()], ["mus", tbl()]],
        [["set", tbl()], ["setx", x()], ["mus", {}]], [["mus", tbl()], ["setx", x()]], [["musx", x()], ["not"], ["musx", x()]],
        [["mus", {}], ["not"], ["musx", x()], ["set", tbl()]], [], [["mus", tbl()]]])
    k = rng.randint(0, len(adds)) if rng.random() < 0.25 else len(adds)
    ops = adds[:k] + pattern + adds[k:]
    d = {"kind": "part", "q0": q0, "first": 0, "last": last, "qd": qd, "ops": ops, "measures": measures,
         "notes": [[0, last]], "mode": "api/" + shape + ("/default-q0" if q0_default else ""),
         "halves": [rng.randint(0, last - 1) for _ in range(2)]}
    if q0_default:
        d["q0_default"] = True
    hist = []
    for st in canonical_hist(d):
        hist.append(st)
        if rng.random() < 0.3:
            hist.append(["q"])
    if rng.random() < 0.7:
        d["hist"] = hist
    return d


def cases(rng, tier):
    n = {"quick": 150, "thorough": 5000, "search": 2500}.get(tier, 150)
    for t in (0, 7):
        for what in ("ts", "note", "empty"):
            yield {"kind": "single", "t": t, "what": what, "q0": 4}
    # the direct calls of the wrapper and the almost-full first bars draw from their own generator (seeded from the state
    # of `rng` without consuming it), interleaved with the parts: the sample of parts is the one of the earlier rounds
    import random as _random

    aux = _random.Random(str(rng.getstate()[1][:16]))
    aux2 = _random.Random("api" + str(rng.getstate()[1][:16]))
    for i in range(n):
        if i % 3 == 0:
            yield gen_lin(aux)
        if i % 10 == 0:
            yield gen_near(aux)
        if i % 5 == 2:
            yield gen_api(aux2)
        if i % 8 == 7:
            d = gen_exact_bar(rng)
        elif i % 8 == 3:
            d = gen_pair(rng, scramble=(i % 16 == 11))
            if i % 16 == 3:
                d["b"]["hist"] = gen_hist(rng, d["b"])
            yield d
            continue
        elif i % 8 == 5:
            d = gen_qd_history(rng)
        else:
            d = gen_part(rng)
            if i % 8 in (1, 4, 6):
                scramble_qd(rng, d)
        if i % 2 == 1:
            d["hist"] = gen_hist(rng, d)
        yield d


# ------------------------------------------------------------------ the statement, recomputed
def extent(d):
    """(first, last) time point of the part a description builds: every start/end of an added object"""
    ts = [o[1] for o in d["ops"] if o[0] == "ts"]
    times = ts + [x for m in d["measures"] for x in m if x is not None] + [x for n in d["notes"] for x in n]
    return min(times), max(times)


class Spec:
    """exact maps from the property statement for a case description"""
    musx_seen = False

    def __init__(self, d, musx_sets=True):
        self.first, self.last = extent(d)
        # the quarter durations the call history dictates (three readings, see the module docstring); `stored` until
        # `_eval_part` finds that the part follows another admissible one
        self.readings = qd_readings(d["q0"], d["qd"])
        self.reading = "stored"
        self.ambiguous = len({tuple(_step_fn(m)) for m in self.readings.values()}) > 1
        self.qd = sorted(self.readings["stored"].items())
        # musical-beat bookkeeping of the op history
        musical = False
        ts = []  # [t, beats, bt, mb]

        def assign(tbl):
            for s in ts:
                key = "%d/%d" % (s[1], s[2])
                s[3] = tbl[key] if key in tbl else DEFAULT_MB.get(s[1], s[1])

        for op in d["ops"]:
            if op[0] == "ts":
                ts.append([op[1], op[2], op[3], DEFAULT_MB.get(op[2], op[2])])
            elif op[0] == "set":
                assign(op[1])
            elif op[0] == "mus":
                if not musical:
                    musical = True
                    if op[1]:
                        assign(op[1])
            elif op[0] == "not":
                if musical:
                    musical = False
                    assign({})
            elif op[0] == "musx":
                # use_musical_beat(<not a dict>) raises; whether the part is in musical mode afterwards is not stated
                # anywhere: `musx_sets` chooses (the caller adopts what the part shows); no table is ever applied
                if not musical:
                    self.musx_seen = True
                    musical = bool(musx_sets)
        self.musical = musical
        self.ts = sorted(ts)
        # the first measure starting at the first time point, in the order of addition; a measure without an end has no
        # length, so it is no pickup measure.  When a measure WITH an end starts there too, either may be "the" first
        # measure of the statement (two measures starting together: outside the statement) - `m1_alt` is the other one
        seq = [s for s in (d.get("hist") or []) if s[0] == "mea"] or [["mea"] + list(m) for m in d["measures"]]
        m1 = [[s[1], s[2]] for s in seq if s[1] == self.first]
        self.m1 = m1[0] if m1 else None
        self.m1_alt = None
        if self.m1 is not None and any((m[1] is None) != (self.m1[1] is None) for m in m1):
            self.m1_alt = [m for m in m1 if (m[1] is None) != (self.m1[1] is None)][0]

    def follow(self, observed_steps):
        """where the readings differ: adopt the one whose step function the part shows (if any)"""
        for name in ("stored", "every", "minimal"):
            if _step_fn(self.readings[name]) == observed_steps:
                self.reading = name
                self.qd = sorted(self.readings[name].items())
                return True
        return False

    def q_at(self, u):
        cur = self.qd[0][1]
        for t, q in self.qd:
            if t <= u:
                cur = q
        return cur

    def ts_at(self, u):
        cur = None
        for s in self.ts:
            if s[0] <= u:
                cur = s
        return cur

    def rate(self, u, unit):
        r = F(1, self.q_at(u))
        if unit == "quarter":
            return r
        s = self.ts_at(u)
        if s is None:
            return r
        r *= F(s[2], 4)
        if self.musical:
            r *= F(s[3], s[1])
        return r

    def cumulative(self, unit, lo, hi):
        """C[t] for integer t in lo..hi, C[first] = 0"""
        c = {self.first: F(0)}
        acc = F(0)
        for u in range(self.first, hi):
            acc += self.rate(u, unit)
            c[u + 1] = acc
        acc = F(0)
        for u in range(self.first - 1, lo - 1, -1):
            acc -= self.rate(u, unit)
            c[u] = acc
        return c

    def origin(self, unit, c, alt=False):
        """(time at which the map is zero, is_pickup)"""
        m1 = self.m1_alt if alt else self.m1
        if m1 is not None and m1[1] is not None:
            s = [x for x in self.ts if x[0] == self.first]
            if s:
                s = s[0]
                actual = c[m1[1]] - c[self.first]
                normal = F(s[1] * 4, s[2]) if unit == "quarter" else F(s[3] if self.musical else s[1])
                if actual < normal:
                    return m1[1], True
        return self.first, False


def close(a, b, scale=1.0, tol=1e-9):
    return a == a and abs(a - float(b)) <= tol * max(1.0, abs(float(b)), scale)


# ------------------------------------------------------------------ evaluation
BAD_ARGS = ["None", "[]", "[('6/8', 3)]", "'6/8'", "3", "UserDict({'6/8': 3})", "(('6/8', 3),)"]


def bad_arg(i):
    """an argument for `mbeats_per_ts` that is not a dict (and compares unequal to {})"""
    from collections import UserDict

    return eval(BAD_ARGS[i % len(BAD_ARGS)], {"UserDict": UserDict})


def _apply(p, S, step, counter, warm, raised=None):
    """one step of a history on a real Part"""
    k = step[0]
    if raised is not None:
        raised.append(False)
    if k == "qd":
        p.set_quarter_duration(step[1], step[2])
    elif k == "ts":
        p.add(S.TimeSignature(step[2], step[3]), step[1])
    elif k == "set":
        p.set_musical_beat_per_ts(dict(step[1]))
    elif k == "mus":
        p.use_musical_beat(dict(step[1]))
    elif k == "not":
        p.use_notated_beat()
    elif k in ("musx", "setx"):
        # a table argument that is not a dict: TypeError (any other outcome is reported through the `raised` stream)
        try:
            (p.use_musical_beat if k == "musx" else p.set_musical_beat_per_ts)(bad_arg(step[1]))
        except TypeError:
            if raised is not None:
                raised[-1] = True
    elif k == "mea":
        counter[0] += 1
        if step[2] is None:
            p.add(S.Measure(number=counter[0]), step[1])
        else:
            p.add(S.Measure(number=counter[0]), step[1], step[2])
    elif k == "note":
        counter[1] += 1
        p.add(S.Note(step="C", octave=4, voice=1, id="n%d" % counter[1]), step[1], step[2])
    elif k == "w":
        # the shared read-only views (maps, note arrays, notes_tied, ...) on the half-built part
        import gen_score

        gen_score.warm_readers(p)
    elif k == "q":
        # a warm-up query on the half-built part: all five maps, scalar and array
        try:
            n = len(p._points)
            lo = p.first_point.t if n else 0
            hi = p.last_point.t if n else 0
            xs = np.array([lo, (lo + hi) / 2.0, hi, hi + 1.0, -1.0])
            for nm in ("beat_map", "quarter_map", "quarter_duration_map"):
                f = getattr(p, nm)
                f(xs), f(float(lo))
            for nm, fw in (("inv_beat_map", "beat_map"), ("inv_quarter_map", "quarter_map")):
                ys = getattr(p, fw)(xs[:3])
                getattr(p, nm)(ys), getattr(p, nm)(float(np.atleast_1d(ys)[0]))
        except Exception as e:
            warm.append("raised: query on the half-built part after %d step(s): %r" % (counter[2], e))
    counter[2] += 1


def canonical_hist(d):
    """the edits of a description in the canonical order (no queries)"""
    if d["kind"] == "single":
        return {"ts": [["ts", d["t"], 4, 4]], "note": [["grace", d["t"]]], "empty": []}[d["what"]]
    return ([["qd", t, q] for t, q in d["qd"]] + [list(o) for o in d["ops"]]
            + [["mea", s, e] for s, e in d["measures"]] + [["note", s, e] for s, e in d["notes"]])


def build(d, hist=None, warm=None, raised=None):
    """the real Part of a description; `hist` = the steps to run (default: canonical order, no queries)"""
    import partitura.score as S

    # `q0_default`: the part is created without `quarter_duration` (the documented default is one division per quarter)
    p = S.Part("P0") if d.get("q0_default") else S.Part("P0", quarter_duration=d["q0"])
    counter = [0, -1, 0]
    warm = [] if warm is None else warm
    for step in (canonical_hist(d) if hist is None else hist):
        if step[0] == "grace":
            if raised is not None:
                raised.append(False)
            p.add(S.GraceNote(grace_type="acciaccatura", step="C", octave=4), step[1], step[1])
        else:
            _apply(p, S, step, counter, warm, raised)
    return p


def gen_hist(rng, d):
    """an interleaving of the edits of `d` with warm-up queries: the order inside the quarter-duration changes and
    inside the signature/mode operations is kept (it carries meaning), measures and notes go anywhere"""
    streams = [[["qd", t, q] for t, q in d["qd"]], [list(o) for o in d["ops"]]]
    free = [["mea", s, e] for s, e in d["measures"]] + [["note", s, e] for s, e in d["notes"]]
    rng.shuffle(free)
    k = rng.randint(1, 3)
    for i in range(k):
        streams.append(free[i::k])
    streams = [s for s in streams if s]
    out = []
    pq = rng.choice([0.1, 0.25, 0.5])
    while streams:
        s = rng.choice(streams)
        out.append(s.pop(0))
        if not s:
            streams.remove(s)
        if rng.random() < pq:
            out.append(["q"] if rng.random() < 0.75 else ["w"])
    if not any(s[0] in ("q", "w") for s in out):
        out.insert(rng.randint(1, len(out)), ["q"])
    return out


def _tbl_tokens(tbl):
    items = []
    for k, v in tbl.items():
        b, bt = k.split("/")
        items.append("%d %d %d" % (int(b), int(bt), int(v)))
    return " ".join([str(len(items))] + items)


def ops_tokens(d):
    ops = []
    src = d.get("ops", []) if d["kind"] == "part" else ([["ts", d["t"], 4, 4]] if d["what"] == "ts" else [])
    for op in src:
        if op[0] == "ts":
            ops.append("ts %d %d %d" % (op[1], op[2], op[3]))
        elif op[0] in ("set", "mus"):
            ops.append("%s %s" % (op[0], _tbl_tokens(op[1])))
        elif op[0] in ("musx", "setx"):
            ops.append(op[0])
        else:
            ops.append("not")
    return " ".join([str(len(ops))] + ops)


def first_measure(p):
    """what _time_interpolator finds: the first Measure starting at the first time point"""
    import partitura.score as S

    if not len(p._points):
        return None
    m1 = next(p.first_point.iter_starting(S.Measure), None)
    if m1 is None or m1.start is None or m1.end is None:
        return None
    return (int(m1.start.t), int(m1.end.t))


def part_tokens(p, d):
    """the model's input: the state _time_interpolator reads off the real object, the op history of the signatures"""
    n = len(p._points)
    first = p.first_point.t if n else 0
    last = p.last_point.t if n else 0
    qd = list(zip(p._quarter_times, p._quarter_durations))
    toks = ["%d %d %d" % (n, first, last), W.lst(lambda x: "%d %d" % (int(x[0]), int(x[1])), qd), ops_tokens(d)]
    m1 = first_measure(p)
    toks.append("%d %d" % m1 if m1 else "-")
    return " ".join(toks)


def hist_tokens(d, hist):
    """`<q0> <n> step*` for the model's own builder"""
    out = []
    for s in hist:
        if s[0] == "mea" and s[2] is None:
            out.append("meao %d" % s[1])
        elif s[0] in ("musx", "setx"):
            out.append(s[0])
        elif s[0] in ("qd", "mea"):
            out.append("%s %d %d" % (s[0], s[1], s[2]))
        elif s[0] == "note":
            out.append("span %d %d" % (s[1], s[2]))
        elif s[0] == "grace":
            out.append("span %d %d" % (s[1], s[1]))
        elif s[0] == "ts":
            out.append("ts %d %d %d" % (s[1], s[2], s[3]))
        elif s[0] in ("set", "mus"):
            out.append("%s %s" % (s[0], _tbl_tokens(s[1])))
        elif s[0] == "not":
            out.append("not")
        elif s[0] in ("q", "w"):
            out.append("q")
    return " ".join(["%s %d" % ("-" if d.get("q0_default") else "%d" % d["q0"], len(out))] + out)


def state_text(p):
    """canonical text of the state the model's `hist` request prints"""
    import partitura.score as S

    n = len(p._points)
    first = p.first_point.t if n else 0
    last = p.last_point.t if n else 0
    qd = list(zip(p._quarter_times, p._quarter_durations))
    sig = [(s.start.t, s.beats, s.beat_type, s.musical_beats) for s in p.iter_all(S.TimeSignature)]
    m1 = first_measure(p)
    return W.f_tuple(W.f_int(n), W.f_int(first), W.f_int(last),
                     W.f_list(lambda e: W.f_tuple(W.f_int(e[0]), W.f_int(e[1])), qd),
                     W.f_bool(p._use_musical_beat),
                     W.f_list(lambda s: W.f_tuple(*[W.f_int(x) for x in s]), sig),
                     W.f_opt(lambda m: W.f_tuple(W.f_int(m[0]), W.f_int(m[1])), m1))


def nested_tokens(a):
    if isinstance(a, (list, tuple)):
        return " ".join(["L %d" % len(a)] + [nested_tokens(x) for x in a])
    return "S " + W.q(a)


def _nan_nested(v):
    if isinstance(v, list):
        return [_nan_nested(x) for x in v]
    return None if v != v else v


def _arr(f, xs):
    return [float(v) for v in np.asarray(f(np.array([float(x) for x in xs], dtype=float)), dtype=float)]


def _nanlist(vals):
    return [None if v != v else v for v in vals]


def evaluate(d):
    if d.get("kind") == "pair":
        return evaluate_pair(d)
    if d.get("kind") == "lin":
        return evaluate_lin(d)
    if d.get("kind") == "near":
        return evaluate_near(d)
    return _eval_part(d)[0]


# ------------------------------------------------------------------ first measures that are ALMOST a full bar
ISCLOSE_RTOL, ISCLOSE_ATOL = F(1, 10 ** 5), F(1, 10 ** 8)  # numpy's defaults; the model reads them from Gen/C02Source.lean


def gen_near(rng):
    """huge divisions, one signature, a first measure a few divisions short of (or exactly, or beyond) a full bar: the
    pickup test of the repaired code (fix C02-3) ignores a shortfall within numpy.isclose of the bar; the shortfall is
    chosen clearly inside (<= 0.3 tolerance) or clearly outside (>= 3 tolerances) of it"""
    b, bt = rng.choice([(4, 4), (3, 4), (6, 8), (2, 2), (12, 8), (5, 4), (9, 8), (2, 4)])
    q0 = rng.choice([250000, 500000, 1000000, 2000000, 3000000])
    while (b * 4 * q0) % bt:
        q0 += 1
    L = b * 4 * q0 // bt
    mode = rng.choice(["notated", "musical", "musical-user"])
    tbl = {} if mode != "musical-user" else {"%d/%d" % (b, bt): _mb_value(rng, b)}
    tol_divs = float(ISCLOSE_RTOL) * L  # the relative part, in divisions (the same in every unit)
    how = rng.choice(["inside", "inside", "outside", "outside", "full", "over"])
    if how == "inside":
        short = max(1, int(rng.uniform(0.02, 0.3) * tol_divs))
    elif how == "outside":
        short = int(rng.uniform(3, 30) * tol_divs) + 1
    elif how == "full":
        short = 0
    else:
        short = -rng.randint(1, 5)
    return {"kind": "near", "q0": q0, "sig": [b, bt], "short": short, "mode": mode, "tbl": tbl, "how": how,
            "probe": [rng.randint(1, L - short - 1), rng.randint(L - short + 1, 2 * L - short - 1)]}


def evaluate_near(d):
    ev = Eval()
    b, bt = d["sig"]
    q0 = d["q0"]
    L = b * 4 * q0 // bt
    e1 = L - d["short"]
    last = e1 + L
    ops = [["ts", 0, b, bt]] + ([] if d["mode"] == "notated" else [["mus", d["tbl"]]])
    dp = {"kind": "part", "q0": q0, "first": 0, "last": last, "qd": [], "ops": ops, "measures": [[0, e1], [e1, last]],
          "notes": [[0, last]], "mode": d["mode"], "halves": []}
    try:
        p = build(dp)
        head = part_tokens(p, dp)
        maps = {"bm": p.beat_map, "qm": p.quarter_map, "ibm": p.inv_beat_map, "iqm": p.inv_quarter_map}
    except Exception as e:
        ev.oracle.append("raised: building the part / its maps: %r" % (e,))
        return ev
    sp = Spec(dp)
    xs = [0, e1, last] + d["probe"] + [F(2 * d["probe"][0] + 1, 2), -1, last + 1]
    for nm in ("bm", "qm"):
        unit = "quarter" if nm == "qm" else "beat"
        rate = sp.rate(0, unit)  # one quarter duration, one signature: the same everywhere
        s0 = sp.ts[0]
        normal = F(s0[1] * 4, s0[2]) if unit == "quarter" else F(s0[3] if sp.musical else s0[1])
        gap = normal - e1 * rate
        try:
            arr = _arr(maps[nm], xs)
            sca = [float(maps[nm](float(x))) for x in xs]
        except Exception as e:
            ev.requests.append("%s %s %s" % (nm, head, W.lst(W.q, xs)))
            ev.impl.append("err")
            ev.oracle.append("raised: %s: %r" % (nm, e))
            continue
        ev.requests.append("%s %s %s" % (nm, head, W.lst(W.q, xs)))
        ev.impl.append(("@approx", _nanlist(arr), 1e-9))
        if any(not _same(u, v, 0.0) for u, v in zip(arr, sca)):
            ev.oracle.append("scalar-vs-array: %s on %r: %r as an array, %r as scalars" % (nm, xs, arr, sca))
        scale = float(last * rate)
        for x, v in list(zip(xs, arr))[:6]:
            if not close(v - arr[0], x * rate, scale):
                ev.oracle.append("exact: %s(%s) - %s(0) = %r, the quarter duration and signature in force give %s" % (
                    nm, x, nm, v - arr[0], x * rate))
                break
        at_start, at_end = close(arr[0], 0, scale), close(arr[1], 0, scale)
        if gap <= 0:
            want, ok = "the first time point (the first measure is not shorter than a bar)", at_start
        elif gap > ISCLOSE_ATOL + ISCLOSE_RTOL * normal:
            want, ok = "the end of the pickup measure (start of the first full measure)", at_end
        else:  # shorter than a bar, but by less than binary64 arithmetic can be trusted to tell: either is defensible
            want, ok = "the first time point or the end of the first measure", at_start or at_end
        if not ok:
            ev.oracle.append("origin: %s(0) = %r, %s(%d) = %r but zero must lie at %s" % (nm, arr[0], nm, e1, arr[1], want))
        inv = "i" + nm
        try:
            back = _arr(maps[inv], arr[:6])
            for x, bk in zip(xs[:6], back):
                if not (bk == bk and abs(bk - float(x)) <= 1e-6 * max(1.0, abs(float(x)))):
                    ev.oracle.append("inverse: %s(%s(%s)) = %r" % (inv, nm, x, bk))
                    break
            ev.requests.append("rt %s %s %s" % (nm, head, W.lst(W.q, xs)))
            ev.impl.append(("@approx", _nanlist([float(maps[inv](maps[nm](float(x)))) for x in xs]), 1e-7))
        except Exception as e:
            ev.oracle.append("raised: %s: %r" % (inv, e))
    ev.key = "near|%d|%r|%d|%s|%r" % (q0, d["sig"], d["short"], d["mode"], d["tbl"])
    ev.info = {"near": d["how"]}
    return ev


# ------------------------------------------------------------------ the interpolation wrapper called directly
def gen_lin(rng):
    """knots for partitura.utils.generic.interp1d: 1-7 knots, abscissae sorted or not (scipy sorts them, stably),
    dyadic values (exact in float32 and float64), a repeated abscissa now and then (numpy path and `previous` only -
    scipy's own linear code divides by the width of the segment), y as float64 / int (-> np.interp) or float32
    (-> scipy's _call_linear); queries at the knots, between them, at the ends, outside, on a grid"""
    n = rng.choice([1, 1, 2, 2, 3, 4, 5, 7])
    den = rng.choice([1, 1, 2, 4, 8])
    kind = rng.choice(["l", "l", "l", "p"])
    ydt = rng.choice(["f8", "f8", "i8", "f4"])
    xs = rng.sample(range(-8 * den, 24 * den), n)
    dup = n >= 3 and rng.random() < 0.25 and (kind == "p" or ydt != "f4")
    if dup:
        xs[rng.randrange(1, n)] = xs[0]
    order = rng.choice(["sorted", "sorted", "shuffled", "reversed"])
    if order == "sorted":
        xs.sort()
    elif order == "reversed":
        xs.sort(reverse=True)
    ys = [rng.randint(-40, 40) * (1 if ydt == "i8" else den) for _ in xs]
    if rng.random() < 0.4:
        ys.sort()
    fill = None
    if kind == "p" or rng.random() < 0.25:
        fill = "ends" if rng.random() < 0.6 else [rng.randint(-5, 5), rng.randint(-5, 5)]
    lo, hi = min(xs), max(xs)
    q = list(xs) + [lo - den, hi + den, lo - 1, hi + 1] + [rng.randint(lo - 2, hi + 2) for _ in range(6)]
    q += [2 * a + 1 for a in xs[:3]]  # halves (in units of 1/(2*den))
    return {"kind": "lin", "den": den, "xs": xs, "ys": ys, "ydt": ydt, "ik": kind, "fill": fill, "order": order,
            "q2": [2 * a for a in q[: len(xs) + 10]] + q[len(xs) + 10:], "scalar": rng.random() < 0.3}


def evaluate_lin(d):
    """generic.interp1d(x, y, kind=..., fill_value=...) against Model.TimeMap.genericInterp1d; the oracle only states
    what the wrapper documents: the interpolant passes through its knots (distinct abscissae), one knot gives the
    constant function, the result has the shape of the argument"""
    from partitura.utils.generic import interp1d

    ev = Eval()
    den = d["den"]
    x = np.array([F(a, den) for a in d["xs"]], dtype=float)
    ydt = {"f8": np.float64, "i8": np.int64, "f4": np.float32}[d["ydt"]]
    y = np.array([float(F(b, den)) if d["ydt"] != "i8" else b for b in d["ys"]], dtype=ydt)
    yq = [F(b, den) if d["ydt"] != "i8" else F(b) for b in d["ys"]]
    xq = [F(a, den) for a in d["xs"]]
    qs = [F(a, 2 * den) for a in d["q2"]]
    nonfinite = [float("nan"), float("inf"), float("-inf")]
    kw = {}
    kind = "previous" if d["ik"] == "p" else "linear"
    fb = fa = None
    if d["fill"] == "ends":
        order = sorted(range(len(xq)), key=lambda i: xq[i])  # stable, like mergesort
        fb, fa = yq[order[0]], yq[order[-1]]
        kw["fill_value"] = (float(fb), float(fa))
    elif d["fill"] is not None:
        fb, fa = F(d["fill"][0]), F(d["fill"][1])
        kw["fill_value"] = (float(fb), float(fa))
    req = "lin %d %s %s %s %s %s" % (0 if d["ydt"] == "f4" else 1, d["ik"], W.q(fb) if fb is not None else "-",
                                    W.q(fa) if fa is not None else "-",
                                    W.lst(lambda k: "%s %s" % (W.q(k[0]), W.q(k[1])), list(zip(xq, yq))),
                                    " ".join([str(len(qs) + 3)] + [W.q(v) for v in qs] + ["nan", "inf", "-inf"]))
    try:
        with np.errstate(all="ignore"):
            f = interp1d(x, y, kind=kind, **kw)
            arg = np.array([float(v) for v in qs] + nonfinite)
            out = np.asarray(f(arg), dtype=float)
            if out.shape != arg.shape:
                ev.oracle.append("interp-wrapper: result of shape %r for an argument of shape %r" % (out.shape, arg.shape))
            got = [float(v) for v in out.ravel()]
            if d["scalar"]:
                for v, g in list(zip(qs, got))[:4]:
                    r = f(float(v))
                    if np.shape(r) != () or not _same(float(r), g, 0.0):
                        ev.oracle.append("scalar-vs-array: interp1d(...)(%s) = %r as scalar, %r in an array" % (v, r, g))
                        break
        ev.requests.append(req)
        ev.impl.append(("@approx", _nanlist(got), 1e-9))
        if len(set(xq)) == len(xq):
            for v, g in zip(qs, got):
                if len(xq) == 1 and g != float(yq[0]):
                    ev.oracle.append("interp-wrapper: one knot (%s, %s) but the function is %r at %s" % (xq[0], yq[0], g, v))
                    break
                if len(xq) > 1 and v in xq and not close(g, yq[xq.index(v)]):
                    ev.oracle.append("interp-wrapper: the %s interpolant through %r is %r at the knot %s" % (
                        kind, list(zip(xq, yq)), g, v))
                    break
    except Exception as e:
        ev.requests.append(req)
        ev.impl.append("err")
        ev.oracle.append("raised: generic.interp1d(%r, %r, kind=%r): %r" % (x.tolist(), y.tolist(), kind, e))
    ev.key = "lin|%r|%r|%s|%s|%r" % (d["xs"], d["ys"], d["ydt"], d["ik"], d["fill"])
    ev.info = {"lin": "%s/%s/%s%s" % (kind, "np.interp" if d["ydt"] != "f4" or kind == "previous" else "_call_linear",
                                     d["order"], "/dup" if len(set(xq)) < len(xq) else "")}
    return ev


def _same(a, b, tol=1e-9):
    return (a != a and b != b) or (a == a and b == b and abs(a - b) <= tol * max(1.0, abs(a), abs(b)))


def _eval_part(d):
    """-> (Eval, real part, model tokens of the part, the five maps)"""
    ev = Eval()
    warm = []
    hist = d.get("hist")
    raised = []
    p = build(d, hist, warm, raised)
    ev.oracle += warm
    head = part_tokens(p, d)
    if any(s[0] in ("musx", "setx") for s in (hist if hist is not None else canonical_hist(d))):
        # which calls were rejected (TypeError), call by call
        ev.requests.append("raised " + hist_tokens(d, hist if hist is not None else canonical_hist(d)))
        ev.impl.append(W.f_list(W.f_bool, raised))
    # the model builds the state _time_interpolator reads from the edit/query history alone
    try:
        ev.requests.append("hist " + hist_tokens(d, hist if hist is not None else canonical_hist(d)))
        ev.impl.append(state_text(p))
    except Exception as e:
        ev.impl.append("err")
        ev.oracle.append("raised: reading the state of the part: %r" % (e,))
    maps = {}
    try:
        maps = {"bm": p.beat_map, "qm": p.quarter_map, "ibm": p.inv_beat_map, "iqm": p.inv_quarter_map,
                "qdm": p.quarter_duration_map}
    except Exception as e:  # building a map must never fail
        ev.oracle.append("raised: constructing the maps: %r" % (e,))
        for nm in ("bm", "qm", "ibm", "iqm"):
            ev.requests.append("%s %s 0" % (nm, head))
            ev.impl.append("err")
        return ev, p, head, maps

    if d["kind"] == "single":
        t0 = d["t"]
        xs = [t0, t0 + 1, 0]
        for nm, inv in (("bm", "ibm"), ("qm", "iqm")):
            for f_name, args, want in ((nm, xs, [0.0] * 3), (inv, [0.0], [float(t0) if d["what"] != "empty" else 0.0])):
                try:
                    arr = _arr(maps[f_name], args)
                    sca = [float(maps[f_name](a)) for a in args]
                    ev.requests.append("%s %s %s" % (f_name, head, W.lst(W.q, args)))
                    ev.impl.append(("@approx", arr, 1e-9))
                    if arr != sca:
                        ev.oracle.append("scalar-vs-array: %s on a single-point part: array %r scalar %r" % (f_name, arr, sca))
                    if d["what"] != "empty" and f_name in (nm,) and arr[0] != 0.0:
                        ev.oracle.append("origin: %s(%d) = %r on a part whose only time point is %d" % (f_name, t0, arr[0], t0))
                    if d["what"] != "empty" and f_name == inv and arr[0] != float(t0):
                        ev.oracle.append("inverse: %s(%s(%d)) = %r on a part whose only time point is %d" % (inv, nm, t0, arr[0], t0))
                except Exception as e:
                    ev.requests.append("%s %s %s" % (f_name, head, W.lst(W.q, args)))
                    ev.impl.append("err")
                    ev.oracle.append("raised: %s on a part with %d time point(s): %r" % (f_name, len(p._points), e))
        _nested_checks(ev, maps, head, {"bm": [t0, [t0, t0 + 1], [[t0], [0]], []], "qm": [float(t0), (t0, 0)],
                                        "ibm": [0, [0.0, 1.0], []], "iqm": [0.0, [[0, 0]]], "qdm": [t0, [t0, 0, 99], []]})
        _arg_and_knot_checks(ev, maps, head, t0)
        ev.key = None
        return ev, p, head, maps

    sp = Spec(d)
    if sp.musx_seen:
        # a rejected use_musical_beat: the statement does not say whether musical beats are enabled afterwards; the part may
        # follow either reading (the mode and the musical beats it shows decide)
        import partitura.score as S

        shown = (bool(p._use_musical_beat), [[s.start.t, s.beats, s.beat_type, s.musical_beats] for s in p.iter_all(S.TimeSignature)])
        sp2 = Spec(d, musx_sets=False)
        if (sp.musical, sp.ts) != shown and (sp2.musical, sp2.ts) == shown:
            sp = sp2
    first, last = sp.first, sp.last
    tmax = max([last] + [t for t, _ in d["qd"]] + [int(t) for t in p._quarter_times])
    try:
        qobs = [float(v) for v in np.asarray(maps["qdm"](np.arange(0, tmax + 2, dtype=float)), dtype=float)]
        if sp.ambiguous:
            # the readings of the call history differ: the part may follow any of them
            sp.follow(_step_fn({t: int(v) for t, v in enumerate(qobs) if v == v}))
        # the model's list surgery and the specification (last recorded call among those with the greatest time <= x),
        # both computed by the Lean side from the call history alone
        req = "qdh %d %s %s" % (d["q0"], W.lst(lambda c: "%d %d" % (c[0], c[1]), d["qd"]),
                                W.lst(W.q, list(range(0, tmax + 2))))
        got = W.f_tuple(
            W.f_list(lambda e: W.f_tuple(W.f_int(e[0]), W.f_int(e[1])),
                     [(int(a), int(b)) for a, b in zip(p._quarter_times, p._quarter_durations)]),
            W.f_list(W.f_int, [int(v) for v in qobs]))
        ev.requests.append(req)
        ev.impl.append(got)
    except Exception as e:
        ev.oracle.append("raised: quarter_duration_map(array): %r" % (e,))
    keys = sorted(set([first, last] + [t for t, _ in sp.qd] + [s[0] for s in sp.ts]))
    # extent of the knots: redundant changes are not stored by set_quarter_duration
    stored = [first, last] + [int(t) for t in p._quarter_times]
    lo, hi = min(stored), max(stored)
    ints = list(range(first, last + 1))
    extra = sorted(set([first - 1, last + 1, lo, hi, lo - 1, hi + 1, -1, max(keys), max(keys) + 1] + [k for k in keys if k < first or k > last]))
    xs = ints + [x for x in extra if x < first or x > last] + [F(2 * h + 1, 2) for h in d["halves"] if first <= h < last]
    scal_idx = set(range(len(xs))) if len(xs) <= 320 else set(
        [i for i, x in enumerate(xs) if x in keys or not isinstance(x, int) or x < first or x > last] + list(range(0, len(xs), 9)))

    fw = {}
    for nm in ("bm", "qm"):
        unit = "quarter" if nm == "qm" else "beat"
        req = "%s %s %s" % (nm, head, W.lst(W.q, xs))
        try:
            arr = _arr(maps[nm], xs)
        except Exception as e:
            ev.requests.append(req)
            ev.impl.append("err")
            ev.oracle.append("raised: %s(array): %r" % (nm, e))
            continue
        ev.requests.append(req)
        ev.impl.append(("@approx", _nanlist(arr), 1e-9))
        fw[nm] = arr
        # scalar calls agree with the array call
        for i in sorted(scal_idx):
            try:
                v = float(maps[nm](float(xs[i])))
            except Exception as e:
                ev.oracle.append("raised: %s(scalar %s): %r" % (nm, xs[i], e))
                break
            if not (v == arr[i] or (v != v and arr[i] != arr[i])):
                ev.oracle.append("scalar-vs-array: %s(%s) = %r as scalar, %r in an array" % (nm, xs[i], v, arr[i]))
                break
        # ---- the statement
        c = sp.cumulative(unit, min(lo, first), max(keys + [hi]))
        scale = float(abs(c[last]))
        base = arr[0]  # value at the first time point
        bad = [t for i, t in enumerate(ints) if not close(arr[i] - base, c[t], scale)]
        if bad:
            t = bad[0]
            ev.oracle.append("exact: %s(%d) - %s(%d) = %r, the quarter durations and signatures in force give %s = %r" % (
                nm, t, nm, first, arr[t - first] - base, c[t], float(c[t])))
        o_t, pick = sp.origin(unit, c)
        v0 = arr[o_t - first]
        if not close(v0, 0, scale) and sp.m1_alt is not None and close(arr[sp.origin(unit, c, alt=True)[0] - first], 0, scale):
            pass  # an end-less and a closed measure start together at the first time point: either may be "the" first measure
        elif not close(v0, 0, scale):
            t0val = -c[0] if 0 in c else None  # length of [0, first) under the durations in force there
            if first > 0 and t0val is not None and close(v0, t0val, scale):
                ev.oracle.append("origin-at-time-0: %s is zero at time 0, not at %s %d (part starts at %d): %s(%d) = %r" % (
                    nm, "the end of the pickup measure" if pick else "the first time point", o_t, first, nm, o_t, v0))
            else:
                ev.oracle.append("origin: %s(%d) = %r but zero must lie at %s" % (
                    nm, o_t, v0, "the end of the pickup measure (start of the first full measure)" if pick
                    else "the first time point (the first measure is not shorter than its signature's bar)"))
        for i in range(len(ints) - 1):
            if not (arr[i + 1] >= arr[i]):
                ev.oracle.append("monotone: %s(%d) = %r > %s(%d) = %r" % (nm, ints[i], arr[i], nm, ints[i + 1], arr[i + 1]))
                break
        # ---- inverse on the forward images
        inv = "i" + nm
        ys = arr[: len(ints)]
        try:
            back = _arr(maps[inv], ys)
        except Exception as e:
            ev.oracle.append("raised: %s(array): %r" % (inv, e))
            ev.requests.append("%s %s 0" % (inv, head))
            ev.impl.append("err")
            continue
        for t, y, b in zip(ints, ys, back):
            if not (b == b and abs(b - t) <= 1e-6 * max(1.0, abs(t))):
                ev.oracle.append("inverse: %s(%s(%d)) = %r" % (inv, nm, t, b))
                break
        for i in sorted(scal_idx):
            if i >= len(ints):
                continue
            try:
                v = float(maps[inv](ys[i]))
            except Exception as e:
                ev.oracle.append("raised: %s(scalar %r): %r" % (inv, ys[i], e))
                break
            if not (v == back[i] or (v != v and back[i] != back[i])):
                ev.oracle.append("scalar-vs-array: %s(%r) = %r as scalar, %r in an array" % (inv, ys[i], v, back[i]))
                break
        # model comparison strictly inside the image, plus whole beats and points outside
        ymin, ymax = _arr(maps[nm], [lo, hi])  # the image, as the implementation sees it
        if not (ymin == ymin and ymax == ymax and ymin < ymax and abs(ymax - ymin) < 1e7):
            # the forward map is not even defined / increasing at the ends of the knot range
            ev.oracle.append("exact: %s is %r at the first and %r at the last key point (%d, %d)" % (nm, ymin, ymax, lo, hi))
            ymin, ymax = 0.0, 1.0
        eps = 1e-9 * max(1.0, abs(ymin), abs(ymax))
        qs = [y for y in ys if y == y and ymin + eps < y < ymax - eps]
        qs += [float(k) for k in range(math.ceil(ymin + eps), math.floor(ymax - eps) + 1)][:400]
        qs += [ymin - 1.0, ymax + 1.0]
        try:
            got = _arr(maps[inv], qs)
            ev.requests.append("%s %s %s" % (inv, head, W.lst(W.q, qs)))
            ev.impl.append(("@approx", _nanlist(got), 1e-9))
        except Exception as e:
            ev.oracle.append("raised: %s(array): %r" % (inv, e))

    # ---- the round trip inv(fwd(x)) as the implementation computes it, at every key point (so at both ends of the image,
    #      where only the implementation's own forward value is guaranteed to lie inside) and just outside
    rtx = sorted(set([k for k in keys if lo <= k <= hi] + [first, last, lo, hi] + [F(2 * h + 1, 2) for h in d["halves"][:2] if first <= h < last]))
    rtx += [lo - 1, hi + 1]
    for nm in ("bm", "qm"):
        if nm not in fw:
            continue
        inv = "i" + nm
        try:
            back = [float(maps[inv](maps[nm](float(x)))) for x in rtx]
            ev.requests.append("rt %s %s %s" % (nm, head, W.lst(W.q, rtx)))
            ev.impl.append(("@approx", _nanlist(back), 1e-7))
            for x, b in zip(rtx, back):
                if first <= x <= last and not (b == b and abs(b - float(x)) <= 1e-6 * max(1.0, abs(float(x)))):
                    ev.oracle.append("inverse: %s(%s(%s)) = %r (scalar calls)" % (inv, nm, x, b))
                    break
        except Exception as e:
            ev.oracle.append("raised: %s(%s(scalar)): %r" % (inv, nm, e))

    # ---- Part.quarter_durations(start, end): the stored changes with start <= time < end
    try:
        steps = _step_fn(dict(sp.qd))
        mid = keys[len(keys) // 2]
        for a, b in ((None, None), (first, last), (mid, None), (None, mid), (F(2 * mid + 1, 2), hi + 1), (0, 0), (last, first),
                     (None, hi + 1), (0, None)):
            rows = p.quarter_durations(a, b)
            rows = np.asarray(rows)
            got = [(int(r[0]), int(r[1])) for r in rows.reshape(-1, 2)]
            ev.requests.append("qds %s %s %s" % (head, "-" if a is None else W.q(a), "-" if b is None else W.q(b)))
            ev.impl.append(W.f_list(lambda e: W.f_tuple(W.f_int(e[0]), W.f_int(e[1])), got))
            inside = lambda t: (a is None or a <= t) and (b is None or t < b)
            bad = None
            if rows.ndim != 2 or rows.shape[1] != 2:
                bad = "has shape %r" % (rows.shape,)
            elif any(not inside(t) for t, _ in got):
                bad = "lists a time outside the bounds"
            elif any(t2 <= t1 for (t1, _), (t2, _) in zip(got, got[1:])):
                bad = "is not in time order"
            elif any(float(maps["qdm"](t)) != q for t, q in got):
                bad = "lists a duration that quarter_duration_map does not return at that time"
            elif any(inside(t) and (t, q) not in got for t, q in steps):
                bad = "misses a change of the quarter duration inside the bounds (changes: %r)" % (steps,)
            if bad:
                ev.oracle.append("quarter-durations: quarter_durations(%s, %s) = %r %s" % (a, b, got, bad))
                break
    except Exception as e:
        ev.oracle.append("raised: quarter_durations: %r" % (e,))

    # ---- quarter_duration_map
    qx = list(range(0, max(hi, last, tmax) + 3)) + [-1, -5] + [F(2 * h + 1, 2) for h in d["halves"]]
    how = "" if not sp.ambiguous else " (%s reading; stored-entries %r / every-call %r / minimal %r)" % (
        sp.reading, _step_fn(sp.readings["stored"]), _step_fn(sp.readings["every"]), _step_fn(sp.readings["minimal"]))
    try:
        arr = _arr(maps["qdm"], qx)
        ev.requests.append("qdm %s %s" % (head, W.lst(W.q, qx)))
        ev.impl.append(("@approx", _nanlist(arr), 0.0))
        for x, v in zip(qx, arr):
            if x >= 0 and v != sp.q_at(x):
                ev.oracle.append("quarter-duration: quarter_duration_map(%s) = %r, in force after the calls %r: %d%s" % (
                    x, v, [[0, d["q0"]]] + d["qd"], sp.q_at(x), how))
                break
        for x in [k for k in keys if k >= 0][:40] + [0, last]:
            v = float(maps["qdm"](x))
            if v != sp.q_at(x):
                ev.oracle.append("quarter-duration: quarter_duration_map(scalar %s) = %r, in force: %d" % (x, v, sp.q_at(x)))
                break
    except Exception as e:
        ev.oracle.append("raised: quarter_duration_map: %r" % (e,))

    # ---- the musical beats stored on the signatures after the op history
    try:
        import partitura.score as S

        got = [(s.start.t, s.beats, s.beat_type, s.musical_beats) for s in p.iter_all(S.TimeSignature)]
        ev.requests.append("mbs %s" % ops_tokens(d))
        ev.impl.append(W.f_tuple(W.f_bool(p._use_musical_beat), W.f_list(lambda s: W.f_tuple(*[W.f_int(x) for x in s]), got)))
        if [list(x) for x in got] != sp.ts or bool(p._use_musical_beat) != sp.musical:
            ev.oracle.append("musical-beats: signatures carry %r (musical=%r), the calls made dictate %r (musical=%r)" % (
                got, p._use_musical_beat, sp.ts, sp.musical))
    except Exception as e:
        ev.oracle.append("raised: reading musical beats: %r" % (e,))

    # ---- the beat factor of every signature, as a relation between the implementation's two forward maps:
    #      on a stretch where one signature is in force, beats = quarters * beat_type/4 (* musical_beats/beats)
    if "bm" in fw and "qm" in fw:
        starts = [s[0] for s in sp.ts]
        for i, s in enumerate(sp.ts):
            a = max(s[0], first)
            b = min(starts[i + 1] if i + 1 < len(starts) else last, last)
            if b <= a:
                continue
            fac = F(s[2], 4) * (F(s[3], s[1]) if sp.musical else 1)
            db = fw["bm"][b - first] - fw["bm"][a - first]
            dq = fw["qm"][b - first] - fw["qm"][a - first]
            if not close(db, F(*dq.as_integer_ratio()) * fac if dq == dq else 0, float(abs(sp.cumulative("beat", first, last)[last]))):
                ev.oracle.append("exact: under %d/%d (musical beats %s) from %d to %d the beat map advances by %r and the quarter "
                                 "map by %r: factor %r instead of %s" % (s[1], s[2], s[3] if sp.musical else "off", a, b, db, dq,
                                                                         db / dq if dq else None, fac))
                break

    # ---- arguments of every shape (scalar / list / tuple / integer array / 2-D / empty), at change points and outside
    kin = [k for k in keys if first <= k <= last]
    k1, k2 = kin[len(kin) // 2], kin[-1]
    args = [k1, [k1, k2], (first, k1, last + 1), np.array([[first, k1], [k2, hi + 1]]), [], [[lo - 1], [k1]],
            np.array(kin, dtype=np.int64)]
    inv_args = {}
    for nm in ("bm", "qm"):
        if nm in fw:
            ymin, ymax = _arr(maps[nm], [lo, hi])
            if ymin == ymin and ymax == ymax and ymin < ymax:
                eps = 1e-9 * max(1.0, abs(ymin), abs(ymax))
                ins = [y for y in fw[nm][: len(ints)] if y == y and ymin + eps < y < ymax - eps]
                if ins:
                    y1, y2 = ins[len(ins) // 2], ins[-1]
                    inv_args["i" + nm] = [y1, [y1, y2], (ymin - 1.0, y2), np.array([[y1, y2], [ymax + 1.0, y1]]), [], [[y2]]]
    _nested_checks(ev, maps, head, {"bm": args if "bm" in fw else [], "qm": args if "qm" in fw else [],
                                    "ibm": inv_args.get("ibm", []), "iqm": inv_args.get("iqm", []),
                                    "qdm": args + [[hi + 5, -3], np.array([[t for t, _ in sp.qd]])]})

    _arg_and_knot_checks(ev, maps, head, k1)

    # ---- the maps of the part the model builds by itself from the history (nothing read off the real object)
    steps = d.get("hist") if d.get("hist") is not None else canonical_hist(d)
    hx = sorted(set(kin + [first, last, lo, hi]))
    for nm in ("bm", "qm", "qdm"):
        if nm in fw or nm == "qdm":
            try:
                got = _arr(maps[nm], hx)
                ev.requests.append("hmap %s %s %s" % (nm, hist_tokens(d, steps), W.lst(W.q, hx)))
                ev.impl.append(("@approx", _nanlist(got), 1e-9 if nm != "qdm" else 0.0))
            except Exception as e:
                ev.oracle.append("raised: %s(array): %r" % (nm, e))

    # ---- edit / query / edit histories: the maps after the history equal those of a part built in one go
    if d.get("hist") is not None:
        try:
            p0 = build(d)
            fresh = {"bm": p0.beat_map, "qm": p0.quarter_map, "ibm": p0.inv_beat_map, "iqm": p0.inv_quarter_map,
                     "qdm": p0.quarter_duration_map}
            probes = {"bm": xs, "qm": xs, "qdm": qx, "ibm": fw.get("bm", [])[: len(ints)], "iqm": fw.get("qm", [])[: len(ints)]}
            for nm in ("bm", "qm", "ibm", "iqm", "qdm"):
                if not len(probes[nm]):
                    continue
                va, vb = _arr(maps[nm], probes[nm]), _arr(fresh[nm], probes[nm])
                badi = [i for i in range(len(va)) if not _same(va[i], vb[i])]
                if badi:
                    i = badi[0]
                    ev.oracle.append("stale: after the edit/query history %s(%s) = %r, a part built from the same edits without "
                                     "intermediate queries gives %r" % (nm, probes[nm][i], va[i], vb[i]))
            if state_text(p0) != state_text(p):
                ev.oracle.append("stale: state after the edit/query history %s differs from the state of a part built in one go %s" % (
                    state_text(p), state_text(p0)))
        except Exception as e:
            ev.oracle.append("raised: rebuilding the part without queries: %r" % (e,))

    # failures matching the open finding go last, so that a replay shows a new failure first
    ev.oracle.sort(key=lambda f: f.startswith("origin-at-time-0"))
    ev.key = "%d|%r|%r|%r|%s|%r" % (d["q0"], d["qd"], d["ops"], sp.m1, sp.first, d.get("hist"))
    ev.info = {"late": first > 0, "qd_reading": sp.reading if sp.ambiguous else "all-agree"}
    return ev, p, head, maps


def _arg_and_knot_checks(ev, maps, head, finite):
    """NaN / +inf / -inf arguments (and one finite one) to all five maps, array and scalar; the knot arrays of the
    forward interpolators where the returned object shows them (scipy's interp1d has .x / .y)"""
    aargs = [float("nan"), float("inf"), float("-inf"), float(finite)]
    toks = "4 nan inf -inf %s" % W.q(finite)
    for nm in ("bm", "qm", "ibm", "iqm", "qdm"):
        try:
            with np.errstate(all="ignore"):
                got = [float(v) for v in np.asarray(maps[nm](np.array(aargs)), dtype=float)]
                sca = [float(maps[nm](a)) for a in aargs]
        except Exception as e:
            ev.oracle.append("raised: %s on NaN / infinite arguments: %r" % (nm, e))
            continue
        ev.requests.append("a%s %s %s" % (nm, head, toks))
        ev.impl.append(("@approx", _nanlist(got), 0.0 if nm == "qdm" else 1e-9))
        if any(not _same(u, v, 0.0) for u, v in zip(got, sca)):
            ev.oracle.append("scalar-vs-array: %s(nan, inf, -inf, %s) = %r in an array, %r as scalars" % (nm, finite, got, sca))
    for nm in ("bm", "qm"):
        f = maps[nm]
        try:
            if hasattr(f, "x") and hasattr(f, "y") and np.ndim(f.x) == 1 and np.shape(f.x) == np.shape(f.y):
                ev.requests.append("knots %s %s" % (nm, head))
                ev.impl.append(("@approx", [[float(a), float(b)] for a, b in zip(f.x, f.y)], 1e-9))
        except Exception:
            pass  # the knots are not part of the interface; only compared when visible


def _nested_checks(ev, maps, head, plan):
    """call every map on arguments of several shapes: the result has the argument's shape, every element equals the
    scalar call on that element, and the model (which maps the argument pointwise) agrees"""
    for nm, args in plan.items():
        f = maps[nm]
        for a in args:
            desc = "%s(%r)" % (nm, a.tolist() if isinstance(a, np.ndarray) else a)
            try:
                r = f(a)
                arr = np.asarray(r, dtype=float)
            except Exception as e:
                ev.oracle.append("raised: %s: %r" % (desc, e))
                continue
            want_shape = np.shape(a)
            if arr.shape != want_shape:
                ev.oracle.append("scalar-vs-array: %s has shape %r, the argument has shape %r" % (desc, arr.shape, want_shape))
                continue
            flat = [float(x) for x in np.asarray(a, dtype=float).ravel()]
            try:
                single = [float(f(x)) for x in flat]
            except Exception as e:
                ev.oracle.append("raised: %s element by element: %r" % (desc, e))
                continue
            got = [float(x) for x in arr.ravel()]
            if any(not (u == v or (u != u and v != v)) for u, v in zip(got, single)):
                ev.oracle.append("scalar-vs-array: %s = %r, element by element %r" % (desc, got, single))
            nested = np.asarray(a, dtype=float).tolist()
            ev.requests.append("n%s %s %s" % (nm, head, nested_tokens(nested)))
            ev.impl.append(("@approx", _nan_nested(arr.tolist()), 0.0 if nm == "qdm" else 1e-9))


def evaluate_pair(d):
    """two parts of one score: the same quarter durations, signatures and beat mode, different extents.  Both are
    checked as parts; the difference of their maps at common positions is compared with the model
    (C02.origin_common_across_parts: it is the constant shift2 - shift1, 0 without pickups)."""
    ea, pa, ha, ma = _eval_part(d["a"])
    eb, pb, hb, mb = _eval_part(d["b"])
    ev = Eval(ea.requests + eb.requests, ea.impl + eb.impl, ea.oracle + eb.oracle)
    ev.info = {"late": bool(ea.info.get("late") or eb.info.get("late"))}
    ev.key = None if ea.key is None or eb.key is None else "pair|%s|%s" % (ea.key, eb.key)
    try:
        fa, la = extent(d["a"])
        fb, lb = extent(d["b"])
        xs = list(range(max(fa, fb), min(la, lb) + 1))
        if xs and len(pa._points) > 1 and len(pb._points) > 1:
            for which, nm in (("b", "bm"), ("q", "qm")):
                va, vb = _arr(ma[nm], xs), _arr(mb[nm], xs)
                ev.requests.append("diff %s %s %s %s" % (which, ha, hb, W.lst(W.q, xs)))
                ev.impl.append(("@approx", _nanlist([u - v for u, v in zip(va, vb)]), 1e-9))
    except Exception as e:
        ev.oracle.append("raised: maps of two parts of one score: %r" % (e,))
    ev.oracle.sort(key=lambda f: f.startswith("origin-at-time-0"))
    return ev


def finding_key(d, failure):
    return failure.split(":")[0]


def shrink(d):
    if d.get("kind") == "pair":
        # a failure of one of the two parts alone is the smaller case
        yield d["a"]
        yield d["b"]
        return
    if d.get("kind") != "part" or extent(d)[0] > 0:
        # a late-starting part always shows the open finding F-C02-1: shrinking it with the predicate
        # "some oracle failure" would drift to that finding, so such cases are kept as found
        return
    if d.get("hist") is not None:
        c = dict(d)
        del c["hist"]
        yield c  # the failure does not need the history
        h = d["hist"]
        for i in range(len(h) - 1, -1, -1):
            if h[i][0] in ("q", "w"):
                c = dict(d)
                c["hist"] = h[:i] + h[i + 1:]
                yield c
        return
    for k in ("qd", "ops", "notes", "halves", "measures"):
        for i in range(len(d[k]) - 1, -1, -1):
            c = dict(d)
            c[k] = d[k][:i] + d[k][i + 1:]
            if not c["notes"]:
                continue
            f, l = extent(c)
            if f != 0 or l <= f:
                continue
            c["first"], c["last"] = f, l
            c["halves"] = [h for h in c["halves"] if f <= h < l]
            yield c


def _call_shape(d):
    """what kind of set_quarter_duration history a description holds"""
    ts = [t for t, _ in d["qd"]]
    if not ts:
        return "none"
    tags = []
    tags.append("ascending" if all(a <= b for a, b in zip(ts, ts[1:])) else "unordered")
    if len(set(ts)) < len(ts) or 0 in ts:
        tags.append("overwrite")
    now, redundant = {0: d["q0"]}, False
    for i, (t, q) in enumerate(d["qd"]):
        if _in_force(now, t) == q:
            redundant = True
        now = qd_readings(d["q0"], d["qd"][: i + 1])["stored"]
    if redundant:
        tags.append("redundant")
    st = [q for _, q in _step_fn(now)]
    if any(st[i] == st[i + 2] for i in range(len(st) - 2)):
        tags.append("A|B|A")
    return "+".join(tags)


def distribution(descs, results):
    from collections import Counter

    pairs = [d for d in descs if d.get("kind") == "pair"]
    parts = [d for d in descs if d.get("kind") == "part"] + [d[k] for d in pairs for k in ("a", "b")]
    user = [v for d in parts for o in d["ops"] if o[0] in ("mus", "set") for v in o[1].items()]

    def rel(key, v):
        b = int(key.split("/")[0])
        return "divides" if b % v == 0 else ("larger" if v > b else "non-divisor")

    return {
        "parts": len(parts),
        "pairs_of_one_score": len(pairs),
        "single_or_empty": len([d for d in descs if d.get("kind") == "single"]),
        "wrapper_called_directly": dict(Counter((r.get("info") or {}).get("lin") for r in results
                                                if isinstance(r, dict) and (r.get("info") or {}).get("lin"))),
        "wrapper_knot_counts": dict(Counter(len(d["xs"]) for d in descs if d.get("kind") == "lin")),
        "api_edges": dict(Counter(d["mode"] for d in parts if d["mode"].startswith("api/"))),
        "rejected_table_arguments": dict(Counter(o[0] + ":" + BAD_ARGS[o[1] % len(BAD_ARGS)] for d in parts for o in d["ops"]
                                                 if o[0] in ("musx", "setx"))),
        "almost_full_first_bar": dict(Counter(d["how"] for d in descs if d.get("kind") == "near")),
        "with_edit_query_history": sum(1 for d in parts if d.get("hist") is not None),
        "warm_up_queries": sum(sum(1 for s in d["hist"] if s[0] in ("q", "w")) for d in parts if d.get("hist") is not None),
        "qd_call_histories": dict(Counter(_call_shape(d) for d in parts)),
        "qd_readings_followed": dict(Counter((r.get("info") or {}).get("qd_reading", "-") for r in results
                                             if isinstance(r, dict))),
        "user_table_values": dict(Counter(rel(k, v) for k, v in user)),
        "modes": dict(Counter(d["mode"] for d in parts)),
        "n_qd_changes": dict(Counter(len(d["qd"]) for d in parts)),
        "n_signatures": dict(Counter(sum(1 for o in d["ops"] if o[0] == "ts") for d in parts)),
        "late_start": sum(1 for d in parts if extent(d)[0] > 0),
        "first_measure": dict(Counter(
            "none" if not [m for m in d["measures"] if m[0] == extent(d)[0]] else "present" for d in parts)),
        "timeline_length_max": max([extent(d)[1] - extent(d)[0] for d in parts] or [0]),
        "qd_and_ts_coincide": sum(1 for d in parts if set(t for t, _ in d["qd"]) & set(o[1] for o in d["ops"] if o[0] == "ts")),
    }
