"""C15 - merging parts keeps every note at the same musical time in disjoint voices.

Reading
* "same musical time": Fraction(start.t, divisions of the part) is unchanged (same for the end); the merged part
  has exactly one divisions value, the least common multiple of the inputs' values, at every time point.
* "notes ... never share a voice (staff)": every GenericNote counts (notes, grace notes, unpitched notes and rests),
  a missing staff counts as staff 1, voice and staff numbers start from 1.  In `voice` mode voices are disjoint and
  staves untouched, in `staff` mode the converse, in `auto` mode both are renumbered; there the code documents "4 voices
  per staff": with more than 4 * (number of staves) voices in one part the voice numbers of the next part overlap
  (proposed open finding F-C15-6, signature `auto-voice-overflow`).
* "structural elements listed in the documentation": the TimedObject class names that occur in the first paragraphs of
  `merge_parts.__doc__` (before "Parameters").  They must come from the first part only - except that a Clef of a later
  part is kept in `staff` and `auto` mode, where every staff of the result needs its clef (the docstring says so after
  fixes/C15-5).  Everything else of every input must be in the result: the very same object (merge_parts re-registers
  its inputs' objects, it is documented to modify them, so no frame check is applied to the inputs).
* "returned as is": `merge_parts(x) is part` for a Part, a group or list (or Score) holding exactly one part.
* "sounding notes equal those of the score-level note array": the (onset_div, duration_div, pitch) rows of
  `merged.note_array()` are, as a multiset, those of `note_array_from_part_list` applied to fresh copies of the inputs.
* "every ... element of every input": every object registered on the timeline of an input - by its start, or by its end
  only (a slur or tuplet whose start is not in the score; fixes/C15-9).  References between objects (ties, slurs,
  tuplets, beams, grace chains, fermatas) are not mentioned by the property: the oracle only demands that they are the same
  objects as before and that a referenced object which must be in the merged part is on ITS timeline; a reference to a
  dropped structural object of a later part (note.fermata) may dangle - the model says exactly which do (`dangling`).
* "one divisions value each": `_quarter_durations` has one entry with a positive integer value (6.0 counts, fixes/C15-7);
  a part with several entries must make merge_parts raise (two or more parts) or is returned as is (alone).
* Domain: notes carry a voice >= 1 and staves are >= 1; other inputs are only compared with the model (no oracle claim).
* `load_score_as_part(f)` is `merge_parts(load_score(f).parts)` in voice mode; it is run on the multi-part scores of the
  implementation's tests/data, as are merge_parts(Score), (score.parts), (score.part_structure) and (first PartGroup).
* "the parts of a score": the parts the caller sees when merge_parts is called - `score.parts` of a Score object AS IT IS
  THEN (after `score[i] = part`, `score.parts = [...]`, append / pop / reverse, or in the Score returned by
  unfold_part_maximal / unfold_part_minimal, which replace `.parts` only), the Part objects reached through `.children`
  from a group / list / tuple.  `Score.part_structure` is never updated by the implementation and is not "the parts".
* "every input" / "a list holding one": the inputs are the different Part OBJECTS reachable in the argument.  A part
  that is reachable twice (listed twice, or on its own and inside its group) is one input (fixes/C15-11); parts that
  carry the same `id` ("P1" of two separately loaded files), no id, or equal contents are different inputs.  For an
  argument that lists a part twice the score-level note array is taken over the different parts.
* `reassign`: the three modes; any other value must be rejected whatever the argument is (the oracle only demands
  rejection, the model says that it happens before the argument is looked at); left out it is "voice".  An argument
  that holds an object that is neither a Part nor a PartGroup (None, a nested list, a Score inside a list) or no part
  at all is outside the property: only compared with the model (both reject).
* "every ... element": the very same object with every instance attribute other than start / end / voice / staff as it
  was (an attribute `_xxx` that did not exist before is book-keeping of the implementation, not of the element).
* "rescaled to the least common multiple": the multiplier of a part must be the exact quotient lcm / divisions
  (oracle clause `multiplier`, on the expression of the live source; demanded below 2**53, beyond it only when the
  proposed finding F-C15-12 `float-multiplier` is registered - numpy's int64 / float64 arithmetic is the documented
  range of the note arrays).  "sounding notes equal": additionally compared in quarters (`sounding-time`) whenever any
  part has a sounding note, also when another part has none.
* "All scores ...": the property quantifies over the STATE of the inputs at the time of the call, whatever history led
  to it: every voice, staff, pitch, tie and divisions value is the one the objects carry then (attributes assigned in
  place after the part was built and after any read-only view of it was computed: `note.staff = 2` ...), and an
  object that is on a timeline by its end only counts with its staff like any other.
"""
import math
import random
import re
import zlib
from fractions import Fraction

import wire as W
from core import Eval
import gen_score as G

PROPERTY = "C15"
DRIVER = "drv_c15"
PROPS = ["PartituraModel.Props.C15", "PartituraModel.Props.C15Ext", "PartituraModel.Props.C15Hist",
         "PartituraModel.Props.C15Call", "PartituraModel.Props.C15Timeline", "PartituraModel.Props.C15Float"]
TRUSTED = [
    "Part.iter_all() / TimePoint registries as the source of the abstract element lists (their order is what the model "
    "sorts by: time point, class walk of Gen/Classes.lean, insertion); objects that only have an end are read from the "
    "ending registries",
    "Note.duration_tied equals the duration of the note plus those of its tie_next_notes (the recursion over object "
    "references is unfolded by the harness and re-checked on every generated note)",
    "np.unique / np.lcm.reduce / max(default=1) as sorted distinct values, least common multiple (int64: below 2**63) "
    "and maximum; `lcm / d` of a numpy int64 by a Python int as the IEEE-754 double division of the two numbers "
    "converted to double (53 bits, round to nearest even) and `int()` as truncation - Model/MergeFloat.lean (toDouble, "
    "floatQuot), run against the multiplier expression compiled from the live source on (lcm, d) pairs up to 2**63",
    "harness/translate_c15arith.py (Gen/C15Arith.lean): the ast reading of the multiplier expression, of the uses of "
    "the multipliers, of `Part(parts[0].id, quarter_duration=lcm)` and of the rescaling in note_array_from_part_list; a "
    "source it cannot read yields arithOk = false and breaks C15.arith_source",
    "identity of Python objects is represented by a number per object - per element and per Part (merge_parts moves "
    "objects, never copies them; `{id(p): p for p in parts}` keeps the first occurrence of every identity); "
    "the references of an object are the TimedObjects found in its instance attributes (directly or in a list); all its "
    "other instance attributes (except start / end / voice / staff) travel as one crc32 of their plain values",
    "Part.add / get_or_add_point / _add_point of the NEW part as Model.Merge.addObject / getOrAddPoint (np.searchsorted "
    "= number of earlier points, np.insert = insertion at that index, quarter of a new point = the constant quarter map "
    "of Part(id, quarter_duration=lcm)); prev / next links and the registries of the points are C01's subject",
    "exceptions are compared as accepted / rejected only: which check raises (MergeErr: reassign, argument, divisions, "
    "other) is the model's reading of the order of the statements, observable through which inputs are accepted (an "
    "invalid reassign with a single part, a single part with several divisions ...)",
    "harness/translate_c15.py (Gen/C15Call.lean): inspect.signature of merge_parts and the ast of iter_parts / "
    "load_score_as_part; a source it cannot read yields callOk = false and breaks C15.call_source",
    "parts with other than exactly one quarter duration are sent to the model as divisions 0 through Model.Merge.divsOf "
    "(rejected there: multi_division_rejected)",
    "harness/translate_c15.py: the ast reading of merge_parts (class tuples per mode, isinstance guards of the voice / "
    "staff assignments, sources of the unique voices / staves, the constant 4, class names of the docstring); a source "
    "it cannot read yields extractionOk = false and breaks C15.source_tables",
    "histories of a PART (reads, in-place attribute edits) are not modelled: the model is a function of the state of "
    "the parts at the time of the call, which the harness reads from the objects after the history; that merge_parts "
    "depends on nothing else is what the differential run over generated histories checks",
    "Score.__setitem__ / list operations on Score.parts as ScoreOp.run of Model/Merge.lean; unfold_part_maximal / "
    "unfold_part_minimal of a Score are modelled as an assignment to .parts of whatever parts they produce",
    "load_score_as_part: the loaders are not modelled; the score it loads is observed through a wrapper of "
    "partitura.io.load_score that calls the original and records the result before merge_parts modifies it",
]
PARTIAL = [
    "auto mode: disjoint voices are proved under the documented assumption of at most 4 voices per staff "
    "(voices_disjoint_auto_partial); the negation is proved at a witness and proposed as open finding F-C15-6",
    "int(lcm / d): PROVED exact for every divisor of every lcm below 2**53 (float_multiplier_exact, multipliers_as_coded); "
    "the other theorems use the integer quotient, so they describe the code for parts whose lcm is below 2**53 - beyond "
    "it the multiplier of the code is wrong (float_multiplier_witness: divisions 403979, 104607, 282917 merge a quarter "
    "rest to 29595098618/29595098619 of a quarter; proposed open finding F-C15-12, signature `float-multiplier`, "
    "fixes/C15-12.md; the repair `lcm // d` is accepted by theorems and model as they are)",
    "sounding rows = score-level note array NUMBER BY NUMBER is proved when every part has a sounding note "
    "(sounding_equal + score_sound_all_sounding); a part without notes does not constrain the grid of the score-level "
    "array, then equality is proved at the same musical time (score_sound_same_musical_time) and the oracle compares "
    "position / divisions",
    "the identifier of the new part (that of the first part: new_part_id) is compared with the model but not demanded "
    "by the oracle - the property does not mention it",
    "a note without voice: the model rejects (mergeParts = none) where staff / auto mode of the code accept parts ALL of "
    "whose notes lack a voice; outside the domain of the property, not generated",
    "load_score_as_part is modelled from the loaded score on (loadScoreAsPart = merge in voice mode); that the loaders "
    "deliver parts in the domain of the property is only observed on the scores of tests/data",
]
RULE = ("corpus + seeded scores / part groups / nested groups / lists of 1-4 parts over division tuples such as (3,4), "
        "(2,3,5), (4,4), (480,960), 1-4 (sparse) voices, 1-3 staves, parts or notes without staff, rest-only voices, "
        "clefs on staves without notes, ties, grace and unpitched notes, slurs / tuplets / beams / fermatas that refer "
        "to notes, slurs that only have an end, parts whose first time point is later than 0 (each at its own offset), "
        "one element of every TimedObject class in every part, x the three reassign modes (+ rejected modes and "
        "multi-division parts) + multi-part scores of tests/data (MusicXML, MEI, kern, MIDI) through "
        "load_score_as_part, merge_parts(Score), (score.parts), (part_structure), (first PartGroup); "
        "x HISTORIES: parts built with interleaved read-only views and re-added notes (gen_score `warm` masks), then "
        "read (number_of_staves, clef_map, note arrays, MusicXML export, every map) and edited IN PLACE before the merge "
        "(staff / voice of a note, of all notes of a voice, of a clef / direction raised above the highest one, staff "
        "removed, pitch, tie removed, divisions multiplied), end-only directions that carry the highest staff; "
        "x every input FORM: list, tuple, group, nested groups, Score, and Score objects whose parts were replaced "
        "after construction (score[i] = p, score.parts = [...], append, pop, reverse, unfold_part_maximal / _minimal "
        "of generated scores with a repeat and of the test files); "
        "x IDENTITY of the parts: all / some parts sharing an id, ids None, a part built twice from one description "
        "(equal contents, another object), a part listed twice / again at the end / on its own and inside a group, one "
        "part reachable two or three times, Score histories that put a part into score.parts twice; "
        "x the CALL: reassign left out, rejected values of reassign (both, Voice, '', None, ...) with several parts, one "
        "part, no part, a bad argument; arguments that hold None / a nested list / a tuple / a Score / a string / a "
        "number at top level, inside the list, inside nested groups; arguments without any part; "
        "x the ARITHMETIC: the multiplier expression of the live source of merge_parts and note_array_from_part_list on "
        "the (lcm, d) pairs of division tuples of every magnitude up to lcm < 2**63 (a third beyond 2**53); parts "
        "without any sounding note (rests only) next to sounding ones in every mode; distinct = distinct "
        "request line; trivial = rejected input or an input outside the domain (a note without voice ...)")
LEVEL_TEXT = ("Lean 4 theorems over all lists of abstract parts: exact time preservation under lcm rescaling, sounding rows "
              "equal to the rescaled rows of the inputs, voice/staff disjointness across and preservation within parts by "
              "induction over the part list with the running offsets (elements and end-only objects alike), structural "
              "classes from the first part only with the class tuples regenerated from the source of merge_parts "
              "(discard_table, source_tables, doc_table), single part returned as is, dispatch on Score / nested groups / "
              "lists (dispatch_*), load_score_as_part = voice-mode merge, references between objects preserved and "
              "characterised (refs_preserved, dangling_iff, no_dangling), end-only objects transferred, order of "
              "iteration (merged_order), several divisions values rejected, a Score is merged through the parts it holds at "
              "the time of the call after any history of replacements (score_sees_parts, score_merged_contents, "
              "score_assign_last, stale_structure_witness), renumbered voices / staves of later parts lie strictly "
              "above those of earlier parts and the offsets are the least possible, so that every element - also one "
              "that is on the timeline by its end only - must be counted as it is at the time of the call "
              "(staves_ordered, staff_offset_tight, voices_ordered, voice_offset_tight); the CALL as a whole (Props/C15Call: "
              "reassign validated first and defaulting to voice, objects that are neither parts nor groups rejected at any "
              "depth, order of the checks - single part before divisions before the rest -, mergeCall refines mergeArg: "
              "call_agrees; parts told apart by identity: distinct_parts_spec, equal_parts_stay_apart, listed_twice_once; "
              "load_score_as_part = the default call on score.parts, with the literal facts regenerated from the sources: "
              "call_source); the timeline of the merged part built by Part.add in the order of the loop is the sorted union "
              "of the rescaled start / end times of the transferred objects with quarter lcm at every point, independent of "
              "the insertion order (Props/C15Timeline: timeline_built, merged_timeline, timeline_union, first_part_points), "
              "the divisions are the LEAST common multiple (lcm_least), every other attribute of a transferred object is "
              "untouched and no object is copied or registered twice (attrs_untouched, no_copies); "
              "the arithmetic as it is coded (Props/C15Float: arith_source regenerated from the sources; `int(lcm / d)` "
              "modelled as IEEE double division and proved exact for every lcm below 2**53 - float_multiplier_exact, "
              "multipliers_as_coded - with the counter-example beyond, float_multiplier_witness), the identifier of the new "
              "part (new_part_id), the score-level note array as it is computed - a part without notes counting with "
              "divisions 1 - equal to the reference when every part sounds and at the same musical time always "
              "(score_sound_all_sounding, score_sound_same_musical_time); "
              "the model is tied to merge_parts and "
              "load_score_as_part by a differential run on generated scores and on the multi-part scores of tests/data "
              "(every kept object's identity, class, times, voice, staff, references, fingerprint of all other "
              "attributes; time points and their quarter; identifier of the new part; note arrays; the score-level note "
              "array with its divisions; the multiplier expression; accepted / rejected for every form of call).")

MODES = ("voice", "staff", "auto")
STEPS = "CDEFGAB"
DIV_SETS = [(3, 4), (2, 3, 5), (4, 4), (1, 1), (2, 3), (4, 6), (6, 8, 12), (5, 7), (1, 2, 4, 8), (3, 3, 3), (12, 16),
            (1, 7), (10, 4), (480, 960), (24, 16, 10), (2, 2, 2, 2), (9, 6), (3, 4, 5, 7), (8, 12), (1, 2), (16, 24, 36)]
TS_POOL = [(4, 4), (3, 4), (2, 4), (6, 8), (5, 4), (2, 2), (3, 8), (9, 8)]

DIR_CLASSES = ["Direction", "LoudnessDirection", "ConstantLoudnessDirection", "DynamicLoudnessDirection",
               "IncreasingLoudnessDirection", "DecreasingLoudnessDirection", "ImpulsiveLoudnessDirection",
               "TempoDirection", "ConstantTempoDirection", "ResetTempoDirection", "DynamicTempoDirection",
               "IncreasingTempoDirection", "DecreasingTempoDirection", "ArticulationDirection",
               "ConstantArticulationDirection", "PedalDirection", "SustainPedalDirection", "ConstantDirection",
               "DynamicDirection", "ImpulsiveDirection"]
# class -> (kwargs, has an end)
OTHER_CLASSES = {
    "Beam": ({}, True), "Page": ({"number": 2}, False), "System": ({"number": 3}, False), "Slur": ({}, True),
    "Tuplet": ({}, True), "Repeat": ({}, True), "DaCapo": ({}, False), "Fine": ({}, False), "DalSegno": ({}, False),
    "Segno": ({}, False), "ToCoda": ({}, False), "Coda": ({}, False), "Fermata": ({}, False),
    "Ending": ({"number": 1}, True), "Barline": ({"style": "light-heavy"}, False), "Tempo": ({"bpm": 90}, False),
    "Staff": ({"number": 1}, False), "Transposition": ({"diatonic": 1, "chromatic": 2}, False),
    "Harmony": ({"text": "C"}, False), "RomanNumeral": ({"text": "V"}, False),
    "ChordSymbol": ({"root": "C", "kind": "major"}, False), "Cadence": ({"text": "PAC"}, False), "Phrase": ({}, True),
    "Segment": ({"id": "s", "to": [], "await_to": []}, True),
}


# ---------------------------------------------------------------------------------------------- generation
def gen_part(rng, pid, divs, bars, voices, staves, opts):
    """bars: [(start_q, end_q)] in quarters (Fractions as [n, d] avoided: bar lengths are multiples of 1/2)"""
    d = {"id": pid, "divs": divs, "ts": [[0, opts["ts"][0], opts["ts"][1]]], "ks": [[0, rng.randint(-7, 7), rng.choice(["major", "minor", None])]],
         "clefs": [], "notes": [], "measures": [], "extras": []}
    nostaff = opts.get("nostaff", "no")  # no | all | some
    bar_div = [(int(a * divs), int(b * divs)) for a, b in bars]
    for i, (a, b) in enumerate(bar_div):
        d["measures"].append([a, b, i + 1])
    end = bar_div[-1][1]
    if nostaff != "all":
        for s in range(1, staves + 1):
            d["clefs"].append([0, s, rng.choice(["G", "F", "C"]), rng.choice([2, 3, 4]), 0])
        if rng.random() < 0.25:  # a clef on a staff that has no notes
            d["clefs"].append([0, staves + 1, "F", 4, 0])
        if rng.random() < 0.3:   # clef change inside the piece
            d["clefs"].append([rng.randrange(0, end), rng.randint(1, staves), "G", 2, rng.choice([0, 1, -1])])
    elif rng.random() < 0.5:
        d["clefs"].append([0, None, "G", 2, 0])
    nid = 0
    for v in voices:
        staff = rng.randint(1, staves)
        rest_only = rng.random() < opts.get("p_rest_voice", 0.1) and len(voices) > 1
        prev = None
        for (bs, be) in bar_div:
            pos = bs
            while pos < be:
                unit = rng.choice([1, max(1, divs // 4), max(1, divs // 2), divs])
                dur = max(1, min(rng.choice([1, 1, 2, 2, 3, 4]) * unit, be - pos))
                st = staff
                if nostaff == "all" or (nostaff == "some" and rng.random() < 0.4):
                    st = None
                if rest_only or rng.random() < 0.12:
                    d["notes"].append({"id": "%sr%d" % (pid, nid), "t": pos, "dur": dur, "kind": "rest", "voice": v, "staff": st})
                    nid += 1
                    prev = None
                    pos += dur
                    continue
                if rng.random() < 0.08:
                    d["notes"].append({"id": "%sg%d" % (pid, nid), "t": pos, "dur": 0, "kind": "grace", "step": rng.choice(STEPS),
                                       "alter": rng.choice([-1, 0, 0, 1]), "oct": rng.randint(2, 6), "voice": v, "staff": st,
                                       "grace_type": rng.choice(["grace", "acciaccatura", "appoggiatura"])})
                    nid += 1
                nchord = 1 + (rng.random() < 0.25) + (rng.random() < 0.1)
                used = set()
                first = None
                for c in range(nchord):
                    if prev is not None and c == 0:
                        step, alter, octv = prev["step"], prev["alter"], prev["oct"]
                    else:
                        for _ in range(10):
                            step, alter, octv = rng.choice(STEPS), rng.choice([-1, 0, 0, 0, 1]), rng.randint(2, 6)
                            if (step, octv) not in used:
                                break
                    used.add((step, octv))
                    kind = "unp" if rng.random() < opts.get("p_unp", 0.04) else "note"
                    n = {"id": "%sn%d" % (pid, nid), "t": pos, "dur": dur, "kind": kind, "step": step, "alter": alter,
                         "oct": octv, "voice": v, "staff": st}
                    nid += 1
                    if prev is not None and c == 0:
                        if kind == "note":
                            prev["tie"] = n["id"]
                    d["notes"].append(n)
                    if c == 0:
                        first = n
                prev = first if (first["kind"] == "note" and pos + dur < end and rng.random() < opts.get("p_tie", 0.2)) else None
                pos += dur
    # elements that refer to notes: slurs and tuplets between two notes of a voice, beams over runs of notes, fermatas
    if opts.get("p_refs", 0) and rng.random() < opts["p_refs"]:
        d["spans"], d["beams"], d["fermatas"] = [], [], []
        for v in voices:
            ns = [n for n in d["notes"] if n["voice"] == v and n["kind"] in ("note", "grace")]
            for _ in range(rng.randint(0, 2)):
                if len(ns) >= 2:
                    i = rng.randrange(0, len(ns) - 1)
                    j = rng.randrange(i + 1, min(len(ns), i + 5))
                    d["spans"].append([rng.choice(["Slur", "Slur", "Tuplet"]), ns[i]["id"], ns[j]["id"]])
            plain = [n for n in ns if n["kind"] == "note"]
            if len(plain) >= 2 and rng.random() < 0.5:
                i = rng.randrange(0, len(plain) - 1)
                d["beams"].append([n["id"] for n in plain[i:i + rng.randint(2, 4)]])
            if plain and rng.random() < 0.4:
                d["fermatas"].append(rng.choice(plain)["id"])
        if ns and opts.get("end_only") and rng.random() < 0.5:
            d["spans"].append(["Slur", None, rng.choice(ns)["id"]])   # a slur whose start is not in the score
    if opts.get("end_only") and nostaff != "all" and rng.random() < 0.6:
        # a direction whose start is not in the score (a wedge / octave line that began before the excerpt): it is on
        # the timeline by its end only and carries a staff - often the highest of the part, or one no other element has
        d["endonly"] = []
        for _ in range(rng.choice([1, 1, 2])):
            cn = rng.choice(["DecreasingLoudnessDirection", "IncreasingLoudnessDirection", "OctaveShiftDirection",
                             "SustainPedalDirection", "DynamicTempoDirection"])
            st = rng.choice([staves + 1, staves + 1, staves + 2, staves, 1])
            kw = {"staff": st} if cn == "SustainPedalDirection" else {"shift_type": "up", "staff": st} \
                if cn == "OctaveShiftDirection" else {"text": "x", "staff": st}
            d["endonly"].append([cn, rng.randrange(1, end + 1), kw])
    # other elements
    nx = rng.choice([0, 0, 1, 2, 4, 8]) if not opts.get("allclasses") else 0
    for _ in range(nx):
        d["extras"].append(gen_extra(rng, end, staves, nostaff))
    if opts.get("allclasses"):
        for cn in DIR_CLASSES + ["Words", "OctaveShiftDirection"] + sorted(OTHER_CLASSES):
            d["extras"].append(gen_extra(rng, end, staves, nostaff, cn))
        d["ks"].append([rng.randrange(0, end), 2, "minor"])
    if opts.get("shift"):
        shift_part(d, opts["shift"] * divs)
    return d


def shift_part(d, k):
    """move everything `k` divisions later: the first time point of the part is then > 0"""
    for key in ("ts", "ks", "clefs"):
        for x in d[key]:
            x[0] += k
    for n in d["notes"]:
        n["t"] += k
    for m in d["measures"]:
        m[0] += k
        m[1] += k
    for x in d["extras"]:
        x[1] += k
        if x[2] is not None:
            x[2] += k


def gen_extra(rng, end, staves, nostaff, cn=None):
    cn = cn or rng.choice(DIR_CLASSES + ["Words", "Words", "OctaveShiftDirection", "Direction"] + sorted(OTHER_CLASSES))
    st = rng.randrange(0, end)
    staff = None if nostaff == "all" or rng.random() < 0.3 else rng.randint(1, staves + (rng.random() < 0.15))
    if cn in DIR_CLASSES:
        kw = {"staff": staff} if cn == "SustainPedalDirection" else {"text": "x", "staff": staff}
        en = rng.choice([None, rng.randrange(st, end + 1)])
    elif cn == "Words":
        kw, en = {"text": "dolce", "staff": staff}, None
    elif cn == "OctaveShiftDirection":
        kw, en = {"shift_type": "up", "staff": staff}, rng.randrange(st, end + 1)
    else:
        kw, has_end = OTHER_CLASSES[cn]
        kw = dict(kw)
        en = rng.randrange(st, end + 1) if has_end else None
    return [cn, st, en, kw]


def gen_shape(rng, n, single_kind=None):
    """tree over part indices 0..n-1 (each exactly once, in a shuffled order)"""
    order = list(range(n))
    rng.shuffle(order)
    leaves = [["P", i] for i in order]
    if n == 1:
        kind = single_kind or rng.choice(["part", "list", "group", "score_list", "score_part", "list_group", "score_group", "nested"])
        leaf = leaves[0]
        return {"part": {"score": False, "shape": ["one", leaf]},
                "list": {"score": False, "shape": ["many", [leaf]]},
                "group": {"score": False, "shape": ["one", ["G", [leaf]]]},
                "score_list": {"score": True, "shape": ["many", [leaf]]},
                "score_part": {"score": True, "shape": ["one", leaf]},
                "list_group": {"score": False, "shape": ["many", [["G", [leaf]]]]},
                "score_group": {"score": True, "shape": ["one", ["G", [leaf]]]},
                "nested": {"score": False, "shape": ["many", [["G", [["G", [leaf]], ["G", []]]]]]}}[kind]
    kind = rng.choice(["list", "list", "score", "score", "group", "score_group", "nested", "nested", "tuple"])
    if kind == "tuple":
        return {"score": False, "tuple": True, "shape": ["many", leaves]}
    if kind in ("list", "score"):
        return {"score": kind == "score", "shape": ["many", leaves]}
    if kind in ("group", "score_group"):
        return {"score": kind == "score_group", "shape": ["one", ["G", leaves]]}
    # random nesting
    def nest(xs):
        if len(xs) <= 1 or rng.random() < 0.3:
            return xs
        k = rng.randint(1, len(xs) - 1)
        a, b = xs[:k], xs[k:]
        out = []
        for part in (a, b):
            part = nest(part)
            out += [["G", part]] if rng.random() < 0.6 else part
        return out
    return {"score": rng.random() < 0.5, "shape": ["many", nest(leaves)]}


BAD_KINDS = ["none", "list", "tuple", "score", "str", "int"]


def add_identity(rng, d, kind=None):
    """IDENTITY vs EQUALITY of the parts of the argument (the parts are different objects unless the shape names the
    same index twice):
      same_id      every part carries the same `id` ("P1", as the only parts of separately loaded files do)
      some_id      two of the parts share an id, the others have their own
      none_id      the ids are None
      equal        part 1 is built from the description of part 0: equal id, note ids, contents - another object
      twice        a part is listed twice in the list          back    ... the first part again at the end
      in_group     a part on its own and inside a group (before or after it)
      only_twice   ONE part, reachable two or three times (list, group, both): it is returned as is"""
    import copy

    n = len(flat_order(d["arg"]))
    kind = kind or rng.choice(["same_id", "same_id", "some_id", "none_id", "equal", "twice", "back", "in_group",
                               "in_group", "only_twice"])
    d["ident"] = kind
    parts = d["parts"]
    if kind == "same_id":
        for pd in parts:
            pd["id"] = "P1"
    elif kind == "some_id":
        i, j = rng.sample(range(len(parts)), 2) if len(parts) > 1 else (0, 0)
        parts[j]["id"] = parts[i]["id"]
    elif kind == "none_id":
        for pd in parts:
            pd["id"] = None
    elif kind == "equal" and len(parts) > 1:
        parts[1] = copy.deepcopy(parts[0])
    elif kind in ("twice", "back", "in_group") and not d["arg"].get("ops"):
        order = flat_order(d["arg"])
        leaves = [["P", i] for i in order]
        k = rng.randrange(len(order))
        if kind == "twice":
            leaves.insert(rng.randrange(len(leaves) + 1), ["P", order[k]])
        elif kind == "back":
            leaves.append(["P", order[0]])
        else:
            g = ["G", [["P", order[k]]] + ([["P", order[(k + 1) % n]]] if rng.random() < 0.5 else [])]
            leaves.insert(rng.choice([0, k, k + 1, len(leaves)]), g)
        d["arg"] = {"score": d["arg"]["score"], "shape": ["many", leaves]}
        if d["arg"]["score"] and rng.random() < 0.5:
            d["arg"]["score"] = False
    elif kind == "only_twice":
        i = flat_order(d["arg"])[0]
        d["arg"] = {"score": False, "shape": rng.choice([
            ["many", [["P", i], ["P", i]]], ["many", [["P", i], ["G", [["P", i]]]]], ["one", ["G", [["P", i], ["P", i]]]],
            ["many", [["G", [["P", i]]], ["P", i], ["G", [["G", [["P", i]]]]]]]])}
    return d


def add_call(rng, d, kind):
    """the CALL: values of `reassign` that are rejected (whatever the argument is), the argument left out, objects in
    the argument that are neither parts nor groups"""
    d["callkind"] = kind
    if kind == "omit":
        d["mode"], d["omit"] = "voice", True
    elif kind == "badmode":
        d["mode"] = rng.choice(["both", "Voice", "", "voices", "staff ", "AUTO", None, "none", "-"])
    elif kind == "badarg":
        sh = d["arg"]["shape"]
        x = ["X", rng.choice(BAD_KINDS)]
        if sh[0] == "one" or rng.random() < 0.2:
            # (at top level a Score or a list is a valid form of the argument, not a foreign object)
            top = ["X", rng.choice(["none", "str", "int"])]
            d["arg"] = {"score": False, "shape": rng.choice([["one", top], ["many", [x]], ["one", ["G", [x]]]])}
        else:
            leaves = list(sh[1])
            leaves.insert(rng.randrange(len(leaves) + 1), x if rng.random() < 0.7 else ["G", [["G", [x]]]])
            d["arg"] = {"score": False, "shape": ["many", leaves]}
    elif kind == "nothing":
        d["arg"] = {"score": False, "shape": rng.choice([["many", []], ["one", ["G", []]], ["many", [["G", []], ["G", [["G", []]]]]]])}
        if rng.random() < 0.3:
            d["arg"]["tuple"] = True
    return d


def make_silent(d, which):
    """parts without any sounding note: every note becomes a rest (grace notes and whatever refers to notes go)"""
    for i in which:
        pd = d["parts"][i]
        pd["notes"] = [dict({k: v for k, v in n.items() if k not in ("tie", "step", "alter", "oct", "grace_type")}, kind="rest")
                       for n in pd["notes"] if n["kind"] != "grace"]
        for k in ("spans", "beams", "fermatas"):
            pd.pop(k, None)
    d["silent"] = sorted(set(d.get("silent", [])) | set(which))
    return d


def gen_case(rng, mode=None, nparts=None, divs=None, **o):
    if divs is None:
        divs = list(rng.choice(DIV_SETS))
        rng.shuffle(divs)
        if nparts:
            divs = (divs * 4)[:nparts]
    n = len(divs)
    # parts that are not in the argument when it is built (they replace parts of a Score later)
    divs = list(divs) + [rng.choice(divs) for _ in range(o.get("spare", 0))]
    pool = [ts for ts in TS_POOL if all((Fraction(4 * ts[0], ts[1]) * dv).denominator == 1 for dv in divs)]
    ts = rng.choice(pool)
    blen = Fraction(4 * ts[0], ts[1])
    nb = 1 if o.get("small") else rng.choice([1, 1, 2, 2, 3])
    bars = [(blen * i, blen * (i + 1)) for i in range(nb)]
    parts = []
    for i, dv in enumerate(divs):
        maxv = o.get("maxv", 2 if o.get("small") else 4)
        nv = rng.randint(1, maxv)
        voices = sorted(rng.sample(range(1, maxv + 1 + (rng.random() < 0.3)), nv))
        staves = rng.randint(1, 3)
        opts = {"ts": ts, "nostaff": rng.choice(["no", "no", "no", "all", "some"]), "allclasses": o.get("allclasses", False),
                "p_rest_voice": 0.12, "p_tie": 0.25, "p_refs": o.get("p_refs", 0.5), "end_only": o.get("end_only", False)}
        if o.get("shift"):
            # parts that start later than 0, each at its own musical time (whole quarters, so that every divisions
            # value represents it)
            opts["shift"] = rng.choice([0, 1, 1, 2, 3, 5])
        if o.get("nostaff"):
            opts["nostaff"] = o["nostaff"]
        parts.append(gen_part(rng, "P%d" % i, dv, bars, voices, staves, opts))
    d = {"k": "merge", "mode": mode or rng.choice(MODES), "arg": gen_shape(rng, n, o.get("single_kind")), "parts": parts}
    if o.get("silent"):
        make_silent(d, o["silent"])
    if o.get("shape_kind"):
        leaves = [["P", i] for i in range(n)]
        rng.shuffle(leaves)
        d["arg"] = {"score": o["shape_kind"] in ("score", "score_group"), "shape": ["many", leaves]}
        if o["shape_kind"] == "tuple":
            d["arg"]["tuple"] = True
        if o["shape_kind"] == "score_group":
            d["arg"]["shape"] = ["one", ["G", leaves]]
    return d


# ---------------------------------------------------------------------------------------------- histories
NAV = {"Repeat", "Ending", "DaCapo", "Fine", "DalSegno", "Segno", "ToCoda", "Coda", "Segment"}
READS = ["staves", "staves", "clef_map", "clef_map", "xml", "xml", "na", "na", "views", "full"]
EDIT_KINDS = ["staff", "staff", "staff", "voice", "voice", "voiceall", "xstaff", "nostaff", "pitch", "untie", "divs"]


def add_history(rng, d, force=None, nsteps=None, first=False):
    """What happens to the parts between their construction and the merge: read-only views interleaved with the
    construction (gen_score `warm` masks), then steps `read` (a view is computed: whatever it memoises is now
    warm) and in-place edits of attributes, without any Part.add / Part.remove:
      ["read", part, kind]                       kind in READS
      ["staff", part, k, v]                      the k-th note or rest (mod their number) gets staff v; v = ["max", n]
                                                 stands for (highest staff of the part as it is then) + n; None = no staff
      ["voice", part, k, v] / ["voiceall", ...]  the same for the voice of that note / of every note of its voice
      ["xstaff", part, k, v]                     the same for the k-th clef / direction / words
      ["pitch", part, k, n]                      the k-th pitched note is moved n octaves
      ["untie", part, k]                         the k-th tie is removed
      ["divs", part, n]                          the divisions value of the part is multiplied by n
    The property speaks about the parts as they are when merge_parts is called."""
    order = flat_order(d["arg"])
    for pd in d["parts"]:
        if rng.random() < 0.4:
            pd["warm"] = rng.choice([16, 16, 48, 31, 64 | 16, rng.randrange(1, 128)])
    edits = []
    for step in range(nsteps or rng.choice([1, 1, 2, 3])):
        early = order[:-1] if len(order) > 1 else order
        pi = order[0] if first else rng.choice(early) if rng.random() < 0.75 else rng.choice(order)
        if force:
            # every cheap view, so that whichever of them leaves a memo behind has done so before the edit
            edits += [["read", pi, kind] for kind in ("staves", "clef_map", "xml", "na")]
        elif rng.random() < 0.85:
            edits.append(["read", pi, rng.choice(READS)])
        kind = force or rng.choice(EDIT_KINDS)
        k = rng.randrange(0, 1000)
        # (highest + 1 is the number the next part starts from: a count that misses the edit makes the two collide)
        up = ["max", 1] if force else rng.choice([["max", 1], ["max", 1], ["max", 1], ["max", 2], ["max", 3]])
        if kind in ("staff", "xstaff"):
            edits.append([kind, pi, k, up if force else rng.choice([up, up, up, 1, rng.randint(1, 4)])])
        elif kind == "nostaff":
            edits.append(["staff", pi, k, None])
        elif kind in ("voice", "voiceall"):
            edits.append([kind, pi, k, up if force else rng.choice([up, up, rng.randint(1, 6)])])
        elif kind == "pitch":
            edits.append(["pitch", pi, k, rng.choice([-1, 1, 2])])
        elif kind == "untie":
            edits.append(["untie", pi, k])
        elif kind == "divs":
            edits.append(["divs", pi, rng.choice([2, 3, 5])])
        if not force and rng.random() < 0.25:
            edits.append(["read", pi, rng.choice(READS)])
    d["edits"] = edits
    return d


def prepare_unfold(d):
    """make the parts unfoldable: no stray navigation marks, one repeat over the first measure of every part"""
    for pd in d["parts"]:
        pd["extras"] = [x for x in pd["extras"] if x[0] not in NAV]
        if pd["measures"]:
            pd["repeat"] = [pd["measures"][0][0], pd["measures"][0][1]]


def add_score_ops(rng, d, kinds=None):
    """A history of the Score object between `Score(x)` and `merge_parts(score)`; d["arg"]["score"] must be set and
    the parts that are not in the shape are spare.
      ["setitem", i, k]   score[i] = part k          ["assign", [k ...]]  score.parts = [those parts]
      ["append", k]       score.parts.append(part k) ["pop", i]  ["reverse"]   (list operations on score.parts)
      ["read"]            score.note_array()
      ["grow", k]         part k is appended to the children of the first group the score was built from (the list
                          `score.parts` stays as it is: the part is not one of "the parts of the score")
      ["unfold", "max" | "min"]   score = unfold_part_maximal(score) / unfold_part_minimal(score)   (last step only)"""
    arg = d["arg"]
    cur = flat_order(arg)
    allp = list(range(len(d["parts"])))
    ops = []
    todo = list(kinds) if kinds else [rng.choice(["setitem", "setitem", "setitem", "assign", "assign", "append", "pop",
                                                  "reverse", "unfold", "unfold", "grow"]) for _ in range(rng.choice([1, 1, 2, 3]))]
    for kind in todo:
        out = [k for k in allp if k not in cur]
        if rng.random() < 0.3:
            ops.append(["read"])
        if rng.random() < 0.12 and kind in ("setitem", "append"):
            out = list(allp)    # a part that is already there: score.parts then lists a Part object twice
        if kind == "grow" and out:
            ops.append(["grow", rng.choice(out)])
        elif kind == "setitem" and out and cur:
            i = rng.randrange(len(cur))
            k = rng.choice(out)
            ops.append(["setitem", i, k])
            cur[i] = k
        elif kind == "append" and out:
            k = rng.choice(out)
            ops.append(["append", k])
            cur.append(k)
        elif kind == "pop" and len(cur) >= 2:
            i = rng.randrange(len(cur))
            ops.append(["pop", i])
            cur.pop(i)
        elif kind == "assign":
            new = rng.sample(allp, rng.randint(1, len(allp)))
            if new == cur:
                new = new[::-1]
            ops.append(["assign", new])
            cur = list(new)
        elif kind == "unfold":
            prepare_unfold(d)
            ops.append(["unfold", rng.choice(["max", "max", "min"])])
            break
        else:
            ops.append(["reverse"])
            cur.reverse()
    arg["ops"] = ops
    return d


# scores of the implementation's own test data with two or more parts (and some with one part inside groups), by cost
FILES_SMALL = [
    "tests/data/musicxml/test_merge_voices1.xml", "tests/data/musicxml/test_merge_voices2.xml",
    "tests/data/musicxml/test_multi_part.xml", "tests/data/musicxml/test_multi_part_change_divs.xml",
    "tests/data/musicxml/test_clef.musicxml", "tests/data/musicxml/test_clefs_tss.xml",
    "tests/data/musicxml/test_length_pianoroll.xml", "tests/data/musicxml/test_part_group.xml",
    "tests/data/musicxml/test_pianoroll_sum_reduced.xml",
    "tests/data/mei/test_clefs_tss.mei", "tests/data/mei/test_merge_voices2.mei", "tests/data/mei/test_metrical_position.mei",
    "tests/data/mei/test_parts_duration.mei", "tests/data/mei/test_parts_duration2.mei",
    "tests/data/kern/double_repeat_example.krn", "tests/data/kern/fine_with_repeat.krn", "tests/data/kern/long_example.krn",
    "tests/data/kern/spline_splitting.krn", "tests/data/kern/voice_duplication.krn", "tests/data/kern/single_voice_example.krn",
]
FILES_LARGE = [
    "tests/data/kern/chor228.krn", "tests/data/kern/variable_length_pr_bug.krn",
    "tests/data/musicxml/test_score_object.musicxml", "tests/data/musicxml/test_pianoroll_sum.xml",
    "tests/data/musicxml/test_ts_map_ts_starts_not_at_zero.xml", "tests/data/musicxml/test_merge_interpolation.xml",
    "tests/data/mei/test_cross_staff_voices.mei", "tests/data/mei/Mozart_k265_v1.mei",
    "tests/data/mei/Beethoven_Op119_Nr02-Breitkopf.mei", "tests/data/mei/Beethoven_Op119_Nr01-Breitkopf.mei",
    "tests/data/mei/Bach_Prelude.mei", "tests/data/mei/CRIM_Mass_0030_4.mei",
    "tests/data/midi/mozart_k265_var1_quantized.mid",
]
VIAS = ["load", "score", "parts", "structure", "group"]


def file_case(f, via, mode, ops=None, edits=None):
    d = {"k": "file", "file": f, "via": via, "mode": "voice" if via == "load" else mode}
    if ops:
        d["ops"] = ops
    if edits:
        d["edits"] = edits
    return d


# histories of a loaded Score (symbolic: see concrete_ops) and files with repeats, for the unfold functions
FILE_OPS = [[["swapends"]], [["rotate"]], [["droplast"]], [["reverse"]], [["read"], ["rotate"]],
            [["unfold", "max"]], [["unfold", "min"]]]
FILES_REPEAT = ["tests/data/kern/double_repeat_example.krn", "tests/data/kern/fine_with_repeat.krn",
                "tests/data/musicxml/test_multi_part.xml", "tests/data/mei/test_merge_voices2.mei"]
FILE_EDITS = [[["read", 0, "staves"], ["staff", 0, 0, ["max", 1]]], [["read", 0, "xml"], ["voiceall", 0, 1, ["max", 2]]],
              [["read", 0, "views"], ["xstaff", 0, 0, ["max", 1]], ["read", 0, "clef_map"]]]


def file_cases(rng, tier):
    # (the scores of the two loaders that merge_parts used to reject, fixes/C15-7 and C15-8, are in corpus/C15/w8)
    yield file_case("tests/data/musicxml/test_merge_voices2.xml", "structure", "auto")   # [[[P, P]], P]
    if tier == "quick":
        for _ in range(5):
            yield file_case(rng.choice(FILES_SMALL), rng.choice(VIAS), rng.choice(MODES))
        yield file_case(rng.choice(FILES_SMALL), "score", rng.choice(MODES), ops=rng.choice(FILE_OPS[:5]))
        yield file_case(rng.choice(FILES_REPEAT), "score", rng.choice(MODES), ops=rng.choice(FILE_OPS[5:]))
        yield file_case(rng.choice(FILES_SMALL), rng.choice(VIAS[1:]), "staff", edits=rng.choice(FILE_EDITS))
        return
    for f in FILES_SMALL:
        for ops in FILE_OPS:
            yield file_case(f, "score", rng.choice(MODES), ops=ops)
        for via in VIAS[1:]:
            yield file_case(f, via, rng.choice(MODES), edits=rng.choice(FILE_EDITS))
    for f in FILES_SMALL:
        yield file_case(f, "load", "voice")
        for via in VIAS[1:]:
            for mode in MODES:
                yield file_case(f, via, mode)
    for f in FILES_LARGE:
        yield file_case(f, "load", "voice")
        yield file_case(f, rng.choice(["score", "structure"]), rng.choice(["staff", "auto"]))
        yield file_case(f, rng.choice(["group", "parts"]), rng.choice(MODES))


def gen_mult(rng, tuples=None, big=True):
    """the multiplier expression of the live source on division tuples whose least common multiple is far beyond what
    a generated score reaches: (lcm, d) pairs for every d of the tuple, below 2**53 (exactness is demanded) and - when
    `big` - between 2**53 and 2**63 (float rounding: compared with the model of IEEE double division)"""
    pairs, tups = [], []
    for ds in tuples or []:
        L = math.lcm(*ds)
        tups.append(list(ds))
        pairs += [[L, x] for x in ds]
    while len(tups) < 12:
        kind = rng.choice(["small", "medium", "large", "huge"] if big else ["small", "medium", "large"])
        hi = {"small": 1000, "medium": 2 ** 16, "large": 2 ** 22, "huge": 2 ** 31}[kind]
        ds = [rng.randrange(1, hi) | (1 if rng.random() < 0.7 else 0) or 1 for _ in range(rng.randint(2, 4))]
        L = math.lcm(*ds)
        if L >= 2 ** 63 or (not big and L >= 2 ** 53):
            continue
        tups.append(ds)
        pairs += [[L, x] for x in ds]
    return {"k": "mult", "mode": "voice", "tuples": tups, "pairs": pairs}


MULT_CORPUS = [(403979, 104607, 282917), (264621, 216743, 254243), (1886958959, 1789959961), (480, 960), (3, 4),
               (94906267, 94906269), (2 ** 26, 3 ** 16), (1, 2 ** 52 + 1)]


def eval_mult(d):
    """`time_multiplier_per_part = [int(lcm / d) ...]`: the expression of the LIVE source of merge_parts and of
    note_array_from_part_list (compiled from their ast by harness/translate_c15arith.py) against the model
    Model/MergeFloat.lean; the property demands the exact quotient"""
    import numpy as np
    import translate_c15arith as TA

    ev = Eval()
    f, g = TA.mult_fn(), TA.ref_mult_fn()
    big = _finding_registered("float-multiplier")
    nbig = 0
    for L, x in d["pairs"]:
        v, e = call(f, np.int64(L), int(x))
        w, e2 = call(g, np.int64(L), int(x))
        ev.requests.append("mult %d %d" % (L, x))
        ev.impl.append("err" if e is not None else W.f_int(v))
        if e is None and (e2 is not None or int(w) != int(v)):
            ev.oracle.append("multiplier: note_array_from_part_list computes the multiplier %r for divisions %d of "
                             "lcm %d where merge_parts computes %r" % (w, x, L, v))
        if e is not None or int(v) * x != L:
            if L < 2 ** 53:
                ev.oracle.append("multiplier: the time multiplier for divisions %d under the common divisions %d is "
                                 "%r, not the exact quotient %d" % (x, L, v, L // x))
            elif big:
                ev.oracle.append("float-multiplier: int(lcm / d) = %r for lcm %d >= 2**53, d = %d: not the exact "
                                 "quotient %d" % (v, L, x, L // x))
            nbig += 1
    ev.key = "mult|%08x" % zlib.crc32(repr(d["pairs"]).encode())
    ev.info = {"pairs": len(d["pairs"]), "beyond_2_53": sum(1 for L, _ in d["pairs"] if L >= 2 ** 53), "inexact": nbig}
    return ev


def _finding_registered(sig):
    try:
        from core import load_known
        return any(k.get("property") == PROPERTY and k.get("status") == "open" and k.get("signature") == sig for k in load_known())
    except Exception:
        return False


def cases(rng, tier):
    n = {"quick": 30, "thorough": 1700, "search": 5000}.get(tier, 30)
    # deterministic block: every class in every part, every mode; the division tuples of the property text
    for mode in MODES:
        yield gen_case(rng, mode, divs=[3, 4], allclasses=True)
        yield gen_case(rng, mode, divs=[2, 3, 5])
        yield gen_case(rng, mode, divs=[4, 4], nostaff="all")
        yield gen_case(rng, mode, divs=[6], single_kind=rng.choice(["part", "group", "list", "score_list"]))
    for kind in ["part", "list", "group", "score_list", "score_part", "list_group", "score_group", "nested"]:
        yield gen_case(rng, divs=[rng.choice([1, 3, 4, 480])], single_kind=kind)
    # rejected inputs
    c = gen_case(rng, "both", divs=[2, 3])
    yield c
    c = gen_case(rng, "voice", divs=[2, 4])
    c["parts"][1]["qd"] = [[c["parts"][1]["measures"][0][1] // 2 or 1, 8]]
    yield c
    c = gen_case(rng, "staff", divs=[4], single_kind="list")
    c["parts"][0]["qd"] = [[1, 8]]
    yield c
    # parts whose first time point is later than 0 (each part at its own offset), in every mode
    for mode in MODES:
        yield gen_case(rng, mode, divs=[3, 4], shift=True)
    # objects that are on a timeline by their end only (a slur whose start is not in the score), in every mode
    for mode in MODES:
        yield gen_case(rng, mode, divs=[2, 3], end_only=True, p_refs=1.0)
    # histories: a view of the first part is computed (number of staves, clef map, export ...), then the highest staff
    # / voice of that part is raised in place, then the parts are merged - in every mode, through every kind of edit
    for mode in MODES:
        yield add_history(rng, gen_case(rng, mode, divs=[2, 3], shape_kind="list", small=True), force="staff", nsteps=1, first=True)
        # (no note carries a staff: every part is on staff 1, and the edited note is alone on staff 2)
        yield add_history(rng, gen_case(rng, mode, divs=[3, 2], shape_kind="list", small=True, nostaff="all"), force="staff", nsteps=1, first=True)
        yield add_history(rng, gen_case(rng, mode, divs=[4, 3], small=True), force=rng.choice(["voice", "voiceall"]), nsteps=1, first=True)
        yield add_history(rng, gen_case(rng, mode, divs=[2, 2, 3], end_only=True, p_refs=1.0, small=True), force="xstaff", nsteps=2)
    for kind in ("nostaff", "pitch", "untie", "divs"):
        yield add_history(rng, gen_case(rng, divs=[3, 4], small=True), force=kind, nsteps=2)
    # Score objects whose parts were replaced after construction, every kind of replacement once
    for kinds in (["setitem"], ["assign"], ["append"], ["pop"], ["reverse"], ["unfold"], ["setitem", "pop"], ["append", "unfold"]):
        yield add_score_ops(rng, gen_case(rng, divs=[rng.choice([2, 4]), 3], spare=2, shape_kind="score", small=True), kinds)
    yield add_score_ops(rng, gen_case(rng, divs=[4, 6], spare=0, shape_kind="score", small=True), ["pop"])   # one part is left
    yield add_score_ops(rng, gen_case(rng, divs=[2, 3], spare=1, shape_kind="score_group", small=True), ["grow"])
    yield gen_case(rng, divs=[3, 4, 6], shape_kind="tuple", small=True)
    # identity, not equality, of the parts: equal ids / contents, a part that is reachable twice - every kind once
    for kind, dv in (("same_id", [2, 3]), ("same_id", [4, 4, 6]), ("some_id", [2, 3, 3]), ("none_id", [3, 4]),
                     ("equal", [2, 2]), ("equal", [3, 3, 4]), ("twice", [2, 3]), ("back", [3, 4]), ("in_group", [2, 3]),
                     ("in_group", [4, 6, 3]), ("only_twice", [4]), ("only_twice", [3])):
        yield add_identity(rng, gen_case(rng, divs=dv, shape_kind=rng.choice(["list", "list", "tuple", "score"]), small=True), kind)
    c = add_identity(rng, gen_case(rng, "voice", divs=[2, 3], shape_kind="list", small=True), "same_id")
    c["omit"] = True     # merge_parts([part of one file, part of another]) as it is usually written
    yield c
    # the call: rejected values of reassign x (several parts, one part, nothing, a bad argument); reassign left out;
    # objects that are neither parts nor groups
    for k in range(3):
        yield add_call(rng, gen_case(rng, divs=[2, 3], small=True, shape_kind="list"), "badmode")
    yield add_call(rng, gen_case(rng, divs=[4], single_kind="list"), "badmode")
    yield add_call(rng, add_call(rng, gen_case(rng, divs=[2], single_kind="part"), "nothing"), "badmode")
    yield add_call(rng, add_call(rng, gen_case(rng, divs=[2, 2], small=True, shape_kind="list"), "badarg"), "badmode")
    for k in range(3):
        yield add_call(rng, gen_case(rng, divs=list(rng.choice([(2, 3), (4, 4, 6)])), small=True, shape_kind="list"), "badarg")
    yield add_call(rng, gen_case(rng, divs=[3], single_kind="part"), "badarg")
    yield add_call(rng, gen_case(rng, divs=[3], single_kind="part"), "nothing")
    yield add_call(rng, gen_case(rng, divs=[3, 4], small=True), "omit")
    yield add_call(rng, gen_case(rng, divs=[5], single_kind="group"), "omit")
    yield from file_cases(rng, tier)
    # the arithmetic of the multipliers on divisions far beyond those of a generated score
    yield gen_mult(rng, MULT_CORPUS)
    for _ in range({"quick": 3, "thorough": 40}.get(tier, 60)):
        yield gen_mult(rng)
    # parts without any sounding note (rests only / nothing) next to sounding ones: the score-level note array ignores
    # their divisions
    for mode in MODES:
        yield gen_case(rng, mode, divs=[rng.choice([2, 4]), rng.choice([3, 5, 7])], small=True, silent=[1])
        yield gen_case(rng, mode, divs=[5, 2, 3], small=True, silent=[0])
    overflow = _finding_registered("auto-voice-overflow")
    for i in range(n):
        r = rng.random()
        if r < 0.06:
            c = gen_case(rng, nparts=1)
        elif r < 0.2:
            c = gen_case(rng, shift=True)
        elif r < 0.3:
            c = gen_case(rng, end_only=True, p_refs=1.0)
        elif r < 0.12:
            c = gen_case(rng, allclasses=True)
        elif r < 0.16 and overflow:
            c = gen_case(rng, "auto", maxv=7)
        elif r < 0.45:
            c = gen_case(rng, spare=rng.choice([0, 1, 2]), small=rng.random() < 0.6)
            if not c["arg"]["score"]:
                c["arg"] = {"score": True, "shape": c["arg"]["shape"]}
            add_score_ops(rng, c)
        else:
            c = gen_case(rng)
        if rng.random() < 0.08 and len(c["parts"]) > 1:
            make_silent(c, [rng.randrange(len(c["parts"]))])
        if rng.random() < 0.35:
            add_history(rng, c)
        r = rng.random()
        if r < 0.22 and len(c["parts"]) >= 1:
            add_identity(rng, c)
        elif r < 0.30 and not c["arg"]["score"]:
            add_call(rng, c, rng.choice(["badmode", "badarg", "badarg", "omit", "omit", "nothing"]))
        yield c


# ---------------------------------------------------------------------------------------------- building
def build_one(pd):
    """G.build_part + the elements that refer to notes: slurs / tuplets (start and end note), beams (their notes),
    fermatas (the note they apply to), slurs that only have an end"""
    import partitura.score as S

    p = G.build_part(pd)
    for cn, en, kw in pd.get("endonly", []):
        p.add(getattr(S, cn)(**kw), None, en)
    if pd.get("repeat"):
        p.add(S.Repeat(), pd["repeat"][0], pd["repeat"][1])
    if not (pd.get("spans") or pd.get("beams") or pd.get("fermatas")):
        return p
    byid = {n.id: n for n in p.iter_all(S.GenericNote, include_subclasses=True)}
    for cn, a, b in pd.get("spans", []):
        na, nb = byid.get(a), byid.get(b)
        o = getattr(S, cn)(na, nb)
        p.add(o, None if na is None else na.start.t, None if nb is None else nb.end.t)
    for ids in pd.get("beams", []):
        ns = [byid[i] for i in ids if i in byid]
        if ns:
            bm = S.Beam()
            p.add(bm, min(n.start.t for n in ns))
            for n in ns:
                n.assign_beam(bm)
    for i in pd.get("fermatas", []):
        if i in byid:
            f = S.Fermata(byid[i])
            p.add(f, byid[i].start.t)
            byid[i].fermata = f
    return p


def build_parts(desc):
    return [build_one(pd) for pd in desc["parts"]]


def build_arg(spec, parts):
    import partitura.score as S

    def tree(t):
        if t[0] == "P":
            return parts[t[1]]
        if t[0] == "X":
            # an object that is neither a Part nor a PartGroup
            if t[1] == "score":
                q = S.Part("Q", quarter_duration=1)
                q.add(S.Note(step="C", octave=4, voice=1, id="q0"), 0, 1)
                return S.Score([q])
            return {"none": None, "list": [], "tuple": (), "str": "P1", "int": 3}[t[1]]
        g = S.PartGroup(group_symbol="bracket", group_name="g")
        g.children = [tree(c) for c in t[1]]
        for c in g.children:
            if isinstance(c, (S.Part, S.PartGroup)):
                c.parent = g
        return g

    sh = spec["shape"]
    x = tree(sh[1]) if sh[0] == "one" else [tree(c) for c in sh[1]]
    if spec.get("tuple") and sh[0] == "many":
        x = tuple(x)
    return S.Score(x) if spec["score"] else x


def quiet(f):
    try:
        return f()
    except Exception:
        return None


def do_read(p, kind):
    """a read-only view of a part (exceptions are swallowed: the view may legitimately refuse the part)"""
    import partitura

    if kind == "staves":
        quiet(lambda: p.number_of_staves)
    elif kind == "clef_map":
        quiet(lambda: p.clef_map(0))
    elif kind == "xml":
        quiet(lambda: partitura.save_musicxml(p))
    elif kind == "na":
        quiet(lambda: p.note_array(include_staff=True))
        quiet(lambda: p.notes_tied)
    else:
        G.warm_readers(p, kind == "full")


def _staffed(p, S):
    """the clefs, words and directions of a part, end-only ones included"""
    out = []
    for cls in (S.Clef, S.Words, S.Direction):
        out += list(p.iter_all(cls, include_subclasses=True))
    out += [e for e in end_only_objects(p) if isinstance(e, (S.Clef, S.Words, S.Direction))]
    return out


def apply_edits(edits, parts, S):
    """the steps of `add_history` on the built parts: attribute assignments only (no Part.add / Part.remove)"""
    for ed in edits:
        kind, p = ed[0], parts[ed[1]]
        if kind == "read":
            do_read(p, ed[2])
            continue
        if kind == "divs":
            p.set_quarter_duration(0, int(p._quarter_durations[0]) * ed[2])
            continue
        notes = list(p.iter_all(S.GenericNote, include_subclasses=True))
        if not notes:
            continue
        k = ed[2]

        def value(v, attr):
            if isinstance(v, list):
                top = max([getattr(e, attr, None) or 1 for e in notes + (_staffed(p, S) if attr == "staff" else [])])
                return top + v[1]
            return v

        if kind == "staff":
            notes[k % len(notes)].staff = value(ed[3], "staff")
        elif kind == "voice":
            notes[k % len(notes)].voice = value(ed[3], "voice")
        elif kind == "voiceall":
            old = notes[k % len(notes)].voice
            new = value(ed[3], "voice")
            for n in notes:
                if n.voice == old:
                    n.voice = new
        elif kind == "xstaff":
            xs = _staffed(p, S)
            if xs:
                xs[k % len(xs)].staff = value(ed[3], "staff")
        elif kind == "pitch":
            ns = [n for n in notes if type(n) is S.Note]
            if ns:
                n = ns[k % len(ns)]
                n.octave = n.octave + ed[3]
        elif kind == "untie":
            ns = [n for n in notes if isinstance(n, S.Note) and n.tie_next is not None]
            if ns:
                n = ns[k % len(ns)]
                n.tie_next.tie_prev = None
                n.tie_next = None


def part_leaves(x, S):
    """the Part objects under a part / group / list of them: plain recursion through `.children`"""
    if isinstance(x, S.Part):
        return [x]
    kids = x if isinstance(x, (list, tuple)) else x.children
    return [p for c in kids for p in part_leaves(c, S)]


def concrete_ops(ops, n):
    """symbolic steps of the file cases, for a score with n parts"""
    out = []
    for op in ops:
        if op[0] == "swapends":
            out += [["setitem", 0, n - 1], ["setitem", n - 1, 0]] if n > 1 else []
        elif op[0] == "rotate":
            out.append(["assign", list(range(1, n)) + [0]])
        elif op[0] == "droplast":
            out += [["pop", n - 1]] if n > 1 else []
        else:
            out.append(op)
    return out


def apply_score_ops(arg, spec, ops, parts, S):
    """run the history `ops` (see add_score_ops) on the Score `arg`.  Returns (arg, spec, parts, order, mops, ok):
    the Score to merge, the description of what it was built from, the universe of Part objects, the indices of the
    parts the caller now sees (computed from the description of the steps, not read from the object), the steps as
    the model takes them, and whether `arg.parts` holds exactly those parts."""
    order = flat_order(spec)
    mops = []
    for op in ops:
        k = op[0]
        if k == "read":
            quiet(lambda: arg.note_array())
            continue
        if k == "grow":
            # a part is added to the first group the score was built from: `score.parts` is not affected
            gs = [g for g in arg.part_structure if isinstance(g, S.PartGroup)]
            if gs:
                gs[0].children.append(parts[op[1]])
                parts[op[1]].parent = gs[0]
            continue
        if k == "unfold":
            u = (S.unfold_part_maximal if op[1] == "max" else S.unfold_part_minimal)(arg)
            seen = list(u.parts)
            if len(seen) != len(order) or any(not isinstance(p, S.Part) for p in seen):
                raise RuntimeError("unfolding changed the number of parts")
            stale = [p for p in part_leaves(list(u.part_structure), S)]
            parts = stale + [p for p in seen if not any(p is q for q in stale)]
            index = {id(p): i for i, p in enumerate(parts)}
            spec = {"score": True, "shape": ["many", [structure_tree(x, index, S) for x in u.part_structure]]}
            order = [index[id(p)] for p in seen]
            return u, spec, parts, order, [["assign", list(order)]], True
        if k == "setitem":
            arg[op[1]] = parts[op[2]]
            order[op[1]] = op[2]
        elif k == "assign":
            arg.parts = [parts[i] for i in op[1]]
            order = list(op[1])
        elif k == "append":
            arg.parts.append(parts[op[1]])
            order.append(op[1])
        elif k == "pop":
            arg.parts.pop(op[1])
            order.pop(op[1])
        elif k == "reverse":
            arg.parts.reverse()
            order.reverse()
        else:
            raise RuntimeError("unknown step %r" % (op,))
        mops.append(op)
    now = list(arg.parts)
    ok = len(now) == len(order) and all(a is parts[i] for a, i in zip(now, order))
    return arg, spec, parts, order, mops, ok


class Input:
    pass


def build_input(d, S):
    """everything of a generated case up to the call: parts, their history, the argument, its history"""
    x = Input()
    parts = build_parts(d)
    apply_edits(d.get("edits") or [], parts, S)
    spec = d["arg"]
    x.arg = build_arg(spec, parts)
    x.spec, x.parts, x.order, x.mops, x.parts_ok = spec, parts, flat_order(spec), [], True
    if spec.get("score"):
        x.arg, x.spec, x.parts, x.order, x.mops, x.parts_ok = apply_score_ops(x.arg, spec, spec.get("ops") or [], parts, S)
    return x


def flat_order(spec):
    """part indices in the order the parts are merged (plain recursion over the description)"""
    def rec(t):
        return [t[1]] if t[0] == "P" else [] if t[0] == "X" else [i for c in t[1] for i in rec(c)]
    sh = spec["shape"]
    return rec(sh[1]) if sh[0] == "one" else [i for c in sh[1] for i in rec(c)]


def has_bad(spec):
    """the description holds an object that is neither a Part nor a PartGroup"""
    def rec(t):
        return t[0] == "X" or (t[0] == "G" and any(rec(c) for c in t[1]))
    sh = spec["shape"]
    return rec(sh[1]) if sh[0] == "one" else any(rec(c) for c in sh[1])


def distinct(order):
    """the different parts of a listing (the entries are indices into the list of Part objects, which are all
    different objects), each at its first position"""
    out = []
    for i in order:
        if i not in out:
            out.append(i)
    return out


def structure_tree(x, index, S):
    """description tree of a real part structure (Part / PartGroup objects); index: id(part) -> part number"""
    if isinstance(x, S.Part):
        return ["P", index[id(x)]]
    return ["G", [structure_tree(c, index, S) for c in x.children]]


def starting_objects(part):
    """objects registered as starting on the part's time points (read from the registries, not via iter_all)"""
    out = []
    for tp in part._points:
        for cls, objs in tp.starting_objects.items():
            out.extend(objs)
    return out


def end_only_objects(part):
    """objects registered only as ending on a time point of the part (they have no start)"""
    out = []
    for tp in part._points:
        for cls, objs in tp.ending_objects.items():
            out.extend(o for o in objs if o.start is None)
    return out


_ORDER = None


def input_elements(part):
    """the elements of an input part in the order `part.iter_all()` yields them, computed from the time point
    registries and ONE walk of iter_subclasses(object) per process (iter_all() repeats that walk over every loaded
    class at every time point, which dominates the run time).  A wrong order here would show up as a disagreement on
    the order of the merged part, which is read with the real iter_all()."""
    global _ORDER
    import partitura.score as S
    from partitura.utils.generic import iter_subclasses

    if _ORDER is None:
        _ORDER = [c for c in iter_subclasses(object) if isinstance(c, type) and issubclass(c, S.TimedObject)]
    out = []
    for tp in part._points:
        reg = tp.starting_objects
        if any(c not in _ORDER for c in reg):
            return list(part.iter_all())
        for c in _ORDER:
            if c in reg:
                out.extend(reg[c])
    return out


def call(f, *a, **k):
    try:
        return f(*a, **k), None
    except BaseException as e:
        if isinstance(e, (KeyboardInterrupt, SystemExit)):
            raise
        return None, e


def ref_objects(e, S):
    """the timed objects the attributes of `e` refer to (tie_prev/next, slur_starts/stops, tuplet_starts/stops, beam,
    fermata, grace_prev/next; start and end note of a slur or tuplet; notes of a beam; referent of a fermata), in a
    fixed order: attribute name, then position"""
    out = []
    dd = vars(e)
    for k in sorted(dd):
        if k in ("start", "end"):
            continue
        v = dd[k]
        if isinstance(v, S.TimedObject):
            out.append(v)
        elif isinstance(v, (list, tuple)):
            out.extend(x for x in v if isinstance(x, S.TimedObject))
    return out


# ---------------------------------------------------------------------------------------------- evaluation
class Oids:
    """a number per Python object: elements of the inputs get 0, 1, 2 ... in order of iteration, any other object
    that is referred to gets a number from 10**6 on when it is first asked for"""

    def __init__(self):
        self.d = {}
        self.n = 0
        self.x = {}
        self.keep = []

    def new(self, o):
        self.d[id(o)] = self.n
        self.n += 1

    def get(self, o):
        return self.d.get(id(o))

    def of(self, o):
        k = self.d.get(id(o))
        if k is None:
            k = self.x.get(id(o))
            if k is None:
                k = self.x[id(o)] = 10**6 + len(self.x)
                self.keep.append(o)
        return k


def enc_elem(e, oid, S):
    isg = isinstance(e, S.GenericNote)
    isn = isinstance(e, S.Note)
    chain = [oid.of(x) for x in e.tie_next_notes] if isn and e.start is not None else []
    return "%d %s %d %s %s %s %s %s %s %s %d" % (
        oid.get(e), W.s(type(e).__name__), 0 if e.start is None else e.start.t,
        W.opt(W.i, None if getattr(e, "end", None) is None else e.end.t),
        W.opt(W.i, e.voice if isg else None), W.opt(W.i, getattr(e, "staff", None)),
        W.opt(W.i, e.midi_pitch if isn else None), W.b(isg and e.tie_prev is not None), W.lst(W.i, chain),
        W.lst(W.i, [oid.of(x) for x in ref_objects(e, S)]), attr_crc(e, S))


def norm_value(v, S, depth=0):
    """a plain value for an attribute value: numbers, strings, None, and lists / tuples / dicts of these; an object
    of the score is not followed (references are compared by identity elsewhere), anything else counts by its type"""
    import numpy as np

    if v is None or isinstance(v, (bool, int, float, str)):
        return v
    if isinstance(v, np.generic):
        return v.item()
    if isinstance(v, (S.TimedObject, S.TimePoint, S.Part)):
        return "<%s>" % type(v).__name__
    if depth > 4:
        return "<...>"
    if isinstance(v, (list, tuple)):
        return [norm_value(x, S, depth + 1) for x in v]
    if isinstance(v, dict):
        return sorted((str(k), norm_value(x, S, depth + 1)) for k, x in v.items())
    if isinstance(v, np.ndarray):
        return ["nd"] + v.tolist()
    return "<%s>" % type(v).__name__


def attr_state(e, S):
    """every instance attribute of an object except the four merge_parts assigns (start / end through Part.add,
    voice, staff)"""
    return {k: norm_value(v, S) for k, v in vars(e).items() if k not in ("start", "end", "voice", "staff")}


def attr_crc(e, S):
    return zlib.crc32(repr(sorted(attr_state(e, S).items())).encode())


def enc_shape(spec, enc_part):
    def tree(t):
        if t[0] == "P":
            return "P " + enc_part[t[1]]
        if t[0] == "X":
            return "X"
        return "G " + W.lst(tree, t[1])
    sh = spec["shape"]
    return "one " + tree(sh[1]) if sh[0] == "one" else "many " + W.lst(tree, sh[1])


def enc_arg(spec, mops, enc_part):
    """a Score goes to the model as what it was built from plus its history (Model.Merge.Arg)"""
    base = enc_shape(spec, enc_part)
    if not spec.get("score"):
        return base

    def op(o):
        if o[0] == "setitem":
            return "setitem %d P %s" % (o[1], enc_part[o[2]])
        if o[0] == "assign":
            return "assign " + W.lst(lambda i: "P " + enc_part[i], o[1])
        if o[0] == "append":
            return "append P " + enc_part[o[1]]
        if o[0] == "pop":
            return "pop %d" % o[1]
        return "reverse"
    return "score " + base + " " + W.lst(op, mops)


def f_tail(e, oid, S):
    return W.f_tuple(W.f_opt(W.f_int, oid.get(e)), type(e).__name__, W.f_opt(W.f_int, None if e.end is None else e.end.t),
                     W.f_opt(W.f_int, getattr(e, "voice", None)), W.f_opt(W.f_int, getattr(e, "staff", None)),
                     W.f_list(W.f_int, [oid.of(x) for x in ref_objects(e, S)]), W.f_int(attr_crc(e, S)))


def f_elem(e, oid, S):
    return W.f_tuple(W.f_opt(W.f_int, oid.get(e)), type(e).__name__, W.f_int(e.start.t),
                     W.f_opt(W.f_int, None if e.end is None else e.end.t),
                     W.f_opt(W.f_int, getattr(e, "voice", None)), W.f_opt(W.f_int, getattr(e, "staff", None)),
                     W.f_list(W.f_int, [oid.of(x) for x in ref_objects(e, S)]), W.f_int(attr_crc(e, S)))


def doc_structural(S):
    """TimedObject class names in the description part of merge_parts.__doc__"""
    from partitura.utils.generic import iter_subclasses

    doc = (S.merge_parts.__doc__ or "").split("Parameters")[0]
    names = {c.__name__ for c in iter_subclasses(S.TimedObject)}
    return {w for w in re.findall(r"\b[A-Z][A-Za-z]+\b", doc) if w in names}


def qd_list(p):
    """`_quarter_durations` as the model sees them: an entry that is not an integer value becomes 0 (rejected)"""
    return [int(q) if float(q).is_integer() and q >= 0 else 0 for q in p._quarter_durations]


class Prep:
    pass


def prepare(parts, spec, S, order=None, mops=()):
    """abstract description of the inputs, taken BEFORE the call (merge_parts modifies the objects); `order`: the parts
    the caller sees, when that is not what the description `spec` flattens to (a Score with a history `mops`)"""
    pr = Prep()
    pr.parts = parts
    pr.spec = spec
    pr.listed = flat_order(spec) if order is None else list(order)   # as the argument lists them
    pr.order = distinct(pr.listed)                                     # the different parts: the inputs
    oid = pr.oid = Oids()
    pr.elems = {}
    pr.tails = {}
    for pi in range(len(parts)):
        es = input_elements(parts[pi])
        if len({id(e) for e in es}) != len(es):
            raise RuntimeError("iter_all yields an object twice")
        pr.elems[pi] = es
        for e in es:
            oid.new(e)
        pr.tails[pi] = end_only_objects(parts[pi])
        for e in pr.tails[pi]:
            oid.new(e)
    enc_part = {}
    for pi, p in enumerate(parts):
        enc_part[pi] = "%d %s %s %s %s" % (pi, W.opt(W.s, p.id), W.lst(W.i, qd_list(p)),
                                           W.lst(lambda e: enc_elem(e, oid, S), pr.elems[pi]),
                                           W.lst(lambda e: enc_elem(e, oid, S), pr.tails[pi]))
        for e in pr.elems[pi]:
            if isinstance(e, S.Note):
                if e.duration_tied != e.duration + sum(x.duration for x in e.tie_next_notes):
                    raise RuntimeError("duration_tied is not the sum over tie_next_notes")
    pr.shape_txt = enc_arg(spec, list(mops), enc_part)
    pr.snap = snapshot(parts, S)
    pr.fp_before = {pi: G.fingerprint_part(p, with_ids=True) for pi, p in enumerate(parts)} if len(pr.order) == 1 else None
    # ---- is the input in the domain of the property?
    pr.multi = [i for i in pr.order if len(parts[i]._quarter_durations) != 1]
    pr.outside = None
    for i in pr.order:
        p = parts[i]
        if any(not float(q).is_integer() or q <= 0 for q in p._quarter_durations):
            pr.outside = "a divisions value is not a positive integer"
        for e in pr.elems[i] + pr.tails[i]:
            if isinstance(e, S.GenericNote) and (e.voice is None or e.voice < 1):
                pr.outside = "a note without voice (or with a voice below 1)"
            elif getattr(e, "staff", None) is not None and e.staff < 1:
                pr.outside = "a staff number below 1"
    return pr


def repo_root():
    import os

    return os.environ.get("VERIF_REPO", "/repo")


def evaluate(d):
    import os
    import numpy as np
    import partitura.score as S
    from partitura.utils.music import note_array_from_part_list

    if d.get("k") == "mult":
        return eval_mult(d)
    ev = Eval()
    mode = d["mode"]
    op = "merge"
    extra = {"score": False, "parts_ok": True, "twin": None}
    if d.get("k", "merge") == "merge":
        try:
            x = build_input(d, S)
            tw = build_input(d, S)
        except Exception as e0:
            if not any(o[0] == "unfold" for o in d["arg"].get("ops") or []):
                raise
            ev.key = None   # the generated score cannot be unfolded: nothing to merge
            ev.info = {"unfold": repr(e0)[:100]}
            return ev
        parts, fresh, arg = x.parts, tw.parts, x.arg
        if tw.order != x.order or len(tw.parts) != len(x.parts):
            raise RuntimeError("the two builds of the input differ")
        extra = {"score": bool(x.spec.get("score")), "parts_ok": x.parts_ok, "twin": tw.arg}
        pr = prepare(parts, x.spec, S, x.order, x.mops)
        if d.get("omit"):
            res, err = call(S.merge_parts, arg)    # reassign is left at its default
        else:
            res, err = call(S.merge_parts, arg, mode)
    else:
        import partitura.io as IO

        path = os.path.join(repo_root(), d["file"])
        via = d["via"]

        def spec_of(scr, parts):
            index = {id(p): i for i, p in enumerate(parts)}
            st = list(scr.part_structure)
            groups = [x for x in st if isinstance(x, S.PartGroup)]
            if via == "group" and groups:
                return {"score": False, "shape": ["one", structure_tree(groups[0], index, S)]}, groups[0]
            sp = {"score": via == "score", "shape": ["many", [structure_tree(x, index, S) for x in st]]}
            if via == "parts":
                sp = {"score": False, "shape": ["many", [["P", i] for i in range(len(parts))]]}
            return sp, (scr if via == "score" else list(parts) if via == "parts" else st)

        def with_history(scr):
            """the loaded score after the steps of the case (in-place edits of its parts, replacements of its parts)"""
            x = Input()
            x.parts = list(scr.parts)
            apply_edits(d.get("edits") or [], x.parts, S)
            x.spec, x.arg = spec_of(scr, x.parts)
            x.order, x.mops, x.parts_ok = flat_order(x.spec), [], True
            if via == "score":
                x.arg, x.spec, x.parts, x.order, x.mops, x.parts_ok = apply_score_ops(
                    x.arg, x.spec, concrete_ops(d.get("ops") or [], len(x.parts)), x.parts, S)
            return x

        fscr, e0 = call(IO.load_score, path)
        if e0 is not None:
            ev.key = None  # the file does not load: nothing to merge
            ev.info = {"file": d["file"], "load": repr(e0)[:100]}
            return ev
        fresh = list(fscr.parts)
        if via == "load":
            # load_score_as_part(filename): the score it loads is observed (not changed) through a wrapper of
            # partitura.io.load_score, so that the inputs can be described before merge_parts modifies them
            op = "load"
            mode = "voice"
            hold = {}
            orig = IO.load_score

            def spy(*a, **k):
                scr = orig(*a, **k)
                ps = list(scr.parts)
                # the model is given the Score object that was loaded (what it was built from, no history)
                hold["pr"] = prepare(ps, dict(spec_of(scr, ps)[0], score=True), S)
                return scr

            IO.load_score = spy
            try:
                res, err = call(IO.load_score_as_part, path)
            finally:
                IO.load_score = orig
            if "pr" not in hold:
                raise RuntimeError("load_score_as_part did not call load_score")
            pr = hold["pr"]
            parts = pr.parts
        else:
            scr, e1 = call(IO.load_score, path)
            if e1 is not None:
                raise RuntimeError("second load failed")
            try:
                x = with_history(scr)
                tw = with_history(fscr)
            except Exception as e0:
                if not any(o[0] == "unfold" for o in d.get("ops") or []):
                    raise
                ev.key = None   # the loaded score cannot be unfolded: nothing to merge
                ev.info = {"file": d["file"], "unfold": repr(e0)[:100]}
                return ev
            parts, fresh, arg = x.parts, tw.parts, x.arg
            if tw.order != x.order or len(tw.parts) != len(x.parts):
                raise RuntimeError("the two loads of the input differ")
            extra = {"score": bool(x.spec.get("score")), "parts_ok": x.parts_ok, "twin": tw.arg}
            pr = prepare(parts, x.spec, S, x.order, x.mops)
            res, err = call(S.merge_parts, arg, mode)
    oid, order, shape_txt, snap = pr.oid, pr.order, pr.shape_txt, pr.snap
    res_elems = None
    # the token for `reassign`: its value, or `-` when the argument is left out (the model then takes the default
    # of the signature, and for load_score_as_part what the source of that function passes)
    rtok = "-" if d.get("omit") or op == "load" else W.s(mode)

    # ---- correspondence
    if extra["score"]:
        # the parts a Score holds after its history, as the caller reads them from the object
        ev.requests.append("parts %s %s" % (rtok, shape_txt))
        index = {id(p): i for i, p in enumerate(parts)}
        ev.impl.append(W.f_list(W.f_int, [index.get(id(q), -1) for q in list(arg.parts)]))
    ev.requests.append("%s %s %s" % (op, rtok, shape_txt))
    if err is not None:
        ev.impl.append("err")
    elif any(res is p for p in parts):
        ev.impl.append("same %d" % [i for i, p in enumerate(parts) if res is p][0])
    else:
        qd = list(res._quarter_durations)
        L = int(qd[0]) if len(qd) == 1 else -1
        res_elems = list(res.iter_all())
        ev.impl.append(W.f_tuple(W.f_int(L), W.f_list(lambda e: f_elem(e, oid, S), res_elems),
                                 W.f_list(lambda tp: W.f_int(tp.t), res._points)))
        ev.requests.append("newid %s %s" % (rtok, shape_txt))
        ev.impl.append("-" if res.id is None else str(res.id))
        ev.requests.append("quarters %s %s" % (rtok, shape_txt))
        ev.impl.append(W.f_list(lambda tp: W.f_opt(W.f_int, tp.quarter), res._points))
        res_tails = end_only_objects(res)
        here = {id(e) for e in starting_objects(res)} | {id(e) for e in res_tails}
        dang = sorted((oid.of(e), oid.of(x)) for e in res_elems + res_tails for x in ref_objects(e, S) if id(x) not in here)
        ev.requests.append("dangling %s %s" % (rtok, shape_txt))
        ev.impl.append(W.f_list(lambda t: W.f_tuple(W.f_int(t[0]), W.f_int(t[1])), dang))
        if any(pr.tails[i] for i in order) or res_tails:
            ev.requests.append("tails %s %s" % (rtok, shape_txt))
            ev.impl.append(W.f_list(lambda e: f_tail(e, oid, S), sorted(res_tails, key=oid.of)))
    if err is None:
        na, e2 = call(res.note_array, include_staff=True)
        ev.requests.append("rows %s %s" % (rtok, shape_txt))
        if e2 is not None:
            ev.impl.append("err:note_array")
        else:
            # a row is identified with the note object it describes (ids may be missing or repeat across parts in real
            # files): same id, onset, pitch, duration, voice, staff; notes that agree in all of these are interchangeable
            bucket = {}
            for n in res.notes_tied:
                k = (str(n.id), n.start.t, n.midi_pitch, n.duration_tied, n.voice, n.staff if n.staff else 0)
                bucket.setdefault(k, []).append(oid.of(n))
            for v in bucket.values():
                v.sort(reverse=True)
            rows = []
            for r in na:
                k = (str(r["id"]), int(r["onset_div"]), int(r["pitch"]), int(r["duration_div"]), int(r["voice"]), int(r["staff"]))
                b = bucket.get(k)
                rows.append((k[1], k[2], b.pop() if b else -1, k[3], k[4], k[5]))
            rows.sort()
            ev.impl.append(W.f_list(lambda r: W.f_tuple(W.f_int(r[2]), W.f_int(r[0]), W.f_int(r[3]), W.f_int(r[1]), W.f_int(r[4]), W.f_int(r[5])), rows))
    ref_rows = None
    sna = e3 = None
    all_sounding = all(len(fresh[i].notes_tied) > 0 for i in order)
    bad_arg = d.get("k", "merge") == "merge" and has_bad(d["arg"])
    if order and not bad_arg and all_sounding and pr.outside is None and all(len(fresh[i]._quarter_durations) == 1 for i in order):
        sna, e3 = call(note_array_from_part_list, [fresh[i] for i in order])
        ev.requests.append("ref %s %s" % (rtok, shape_txt))
        if e3 is not None:
            ev.impl.append("err:score_note_array")
        else:
            ref_rows = sorted((int(r["onset_div"]), int(r["pitch"]), int(r["duration_div"])) for r in sna)
            ev.impl.append(W.f_list(lambda r: W.f_tuple(W.f_int(r[0]), W.f_int(r[2]), W.f_int(r[1])), ref_rows))

    ref_quarters = None
    if order and not bad_arg and pr.outside is None and all(len(fresh[i]._quarter_durations) == 1 for i in order) \
            and any(len(fresh[i].notes_tied) > 0 for i in order):
        # the score-level note array as it is computed, whether or not every part has a sounding note: its own common
        # divisions (column divs_pq) and its rows
        sna3, e5 = (sna, e3) if (sna is not None or e3 is not None) else call(note_array_from_part_list, [fresh[i] for i in order])
        ev.requests.append("scoreref %s %s" % (rtok, shape_txt))
        if e5 is not None:
            ev.impl.append("err:score_note_array")
        else:
            dq = sorted({int(r["divs_pq"]) for r in sna3})
            rws = sorted((int(r["onset_div"]), int(r["pitch"]), int(r["duration_div"])) for r in sna3)
            ev.impl.append(W.f_tuple(W.f_int(dq[0] if len(dq) == 1 else -1),
                                     W.f_list(lambda r: W.f_tuple(W.f_int(r[0]), W.f_int(r[2]), W.f_int(r[1])), rws)))
            if len(dq) == 1 and dq[0] > 0:
                ref_quarters = sorted((Fraction(int(r["onset_div"]), dq[0]), int(r["pitch"]),
                                       Fraction(int(r["duration_div"]), dq[0])) for r in sna3)

    # ---- oracle (independent of the model)
    valid_mode = mode in MODES
    if not valid_mode:
        if err is None:
            ev.oracle.append("rejects: reassign=%r was accepted" % (mode,))
        ev.key = None
        return ev
    if bad_arg:
        ev.key = None   # an object that is neither a part nor a group: outside the property, only compared
        ev.info = {"outside": "bad argument"}
        return ev
    if len(order) == 0:
        ev.key = None   # nothing to merge
        ev.info = {"outside": "no parts"}
        return ev
    if len(order) > 1 and pr.multi:
        if err is None:
            ev.oracle.append("rejects: parts with several divisions values were merged")
        ev.key = None
        return ev
    if len(order) > 1 and pr.outside:
        ev.key = None   # outside the domain of the property: only compared with the model
        ev.info = {"outside": pr.outside}
        return ev
    ev.key = "%s|%s|%08x" % (op, mode, zlib.crc32(shape_txt.encode()))
    ev.info = {"mode": mode, "nparts": len(order), "divs": [int(parts[i]._quarter_durations[0]) for i in order]}
    if err is not None:
        ev.oracle.append("raises: %s(%d parts, reassign=%r) raised %r" % (
            "load_score_as_part" if op == "load" else "merge_parts", len(order), mode, err))
        return ev
    if not extra["parts_ok"]:
        ev.oracle.append("scoreparts: Score.parts does not hold the parts that were put there (item assignment / list "
                         "operations on score.parts)")
    ref_score = None
    if extra["score"] and ref_rows is not None and extra["twin"] is not None and len(pr.listed) == len(order):
        # the score-level note array as the Score object itself gives it
        sna2, e4 = call(extra["twin"].note_array)
        if e4 is None:
            ref_score = sorted((int(r["onset_div"]), int(r["pitch"]), int(r["duration_div"])) for r in sna2)
    ev.oracle += oracle(d, parts, order, snap, res, res_elems, mode, pr.fp_before, ref_rows, S, np, ref_score)
    if ref_quarters is not None and len(order) > 1 and not any(res is p for p in parts):
        # sounding notes at the same MUSICAL time as in the score-level note array (also when a part without notes makes
        # the two grids differ: position / divisions is compared)
        na4, e6 = call(res.note_array)
        qd = list(res._quarter_durations)
        if e6 is None and len(qd) == 1 and int(qd[0]) > 0:
            L = int(qd[0])
            mine = sorted((Fraction(int(r["onset_div"]), L), int(r["pitch"]), Fraction(int(r["duration_div"]), L)) for r in na4)
            if mine != ref_quarters:
                diff = [x for x in mine if x not in ref_quarters][:3], [x for x in ref_quarters if x not in mine][:3]
                ev.oracle.append("sounding-time: (onset, pitch, duration) in quarters of the merged part differ from the "
                                 "score-level note array: only merged %r, only score %r" % (
                                     [tuple(map(str, x)) for x in diff[0]], [tuple(map(str, x)) for x in diff[1]]))
    return ev


def snapshot(parts, S):
    snap = {}
    for pi, p in enumerate(parts):
        qd = p._quarter_durations
        dv = int(qd[0]) or 1
        for e in starting_objects(p) + end_only_objects(p):
            isg = isinstance(e, S.GenericNote)
            snap[id(e)] = {
                "obj": e, "part": pi, "cls": type(e),
                "start": None if e.start is None else Fraction(e.start.t, dv),
                "end": None if getattr(e, "end", None) is None else Fraction(e.end.t, dv),
                "voice": e.voice if isg else None, "staff": getattr(e, "staff", None),
                "pitch": e.midi_pitch if isinstance(e, S.Note) else None,
                "symdur": (e.symbolic_duration if isg and len(qd) == 1 else None),
                "name": "%s %s" % (type(e).__name__, getattr(e, "id", None) or ""),
                "refs": ref_objects(e, S) if isinstance(e, S.TimedObject) else [],
                "attrs": attr_state(e, S),
            }
    return snap


def oracle(d, parts, order, snap, res, res_elems, mode, fp_before, ref_rows, S, np, ref_score=None):
    fails = []
    # ---- single part: returned as is, untouched
    if len(order) == 1:
        p = parts[order[0]]
        if res is not p:
            fails.append("single: merge_parts of one part did not return that part itself")
        elif G.fingerprint_part(p, with_ids=True) != fp_before[order[0]]:
            fails.append("single: the single part was modified")
        return fails
    if any(res is p for p in parts):
        fails.append("merged: an input part was returned for %d parts" % len(order))
        return fails
    held = {id(e) for e in starting_objects(res)} | {id(e) for e in end_only_objects(res)}
    strangers = [s for key, s in snap.items() if s["part"] not in order and key in held]
    if strangers:
        fails.append("notinput: the merged part holds %d objects of parts that are not among the parts of the argument at the "
                     "time of the call (first: %s of part %s)" % (len(strangers), strangers[0]["name"], parts[strangers[0]["part"]].id))
    divs = [int(parts[i]._quarter_durations[0]) for i in order]
    L = math.lcm(*divs)
    qd = list(res._quarter_durations)
    if len(qd) != 1 or int(qd[0]) != L:
        fails.append("lcm: divisions of the merged part are %r, lcm of %r is %d" % (qd, divs, L))
        return fails
    bad_q = [(tp.t, tp.quarter) for tp in res._points if tp.quarter != L]
    if bad_q:
        fails.append("quarter: time points of the merged part carry quarter %r instead of %d (first (t, quarter) = %r)" % (
            sorted({q for _, q in bad_q}, key=repr), L, bad_q[0]))
    got = {}
    for e in starting_objects(res):
        if id(e) in got:
            fails.append("twice: %s is registered twice on the merged part" % type(e).__name__)
        got[id(e)] = e
        if id(e) not in snap:
            fails.append("foreign: the merged part holds a %s that is in no input" % type(e).__name__)
    via_iter = {id(e) for e in (res_elems if res_elems is not None else res.iter_all())}
    if via_iter != set(got):
        fails.append("registry: iter_all() of the merged part and its time point registries disagree")
    # objects that are on the merged part by their end only
    for e in end_only_objects(res):
        if id(e) in got:
            fails.append("twice: %s is registered twice on the merged part" % type(e).__name__)
        got[id(e)] = e
        if id(e) not in snap:
            fails.append("foreign: the merged part holds a %s that is in no input" % type(e).__name__)
    doc = doc_structural(S)
    first = order[0]
    for key, s in snap.items():
        if s["part"] not in order:
            continue
        e = s["obj"]
        structural = [c.__name__ for c in s["cls"].__mro__ if c.__name__ in doc]
        expect_in = True
        if s["part"] != first and structural:
            expect_in = (structural == ["Clef"] and mode in ("staff", "auto"))
        if expect_in and key not in got and s["start"] is None:
            fails.append("endonly: %s of part %d, which is on the timeline by its end only, is not in the merged part" % (
                s["name"], order.index(s["part"])))
            continue
        if expect_in and key not in got:
            what = "structural" if structural else "non-structural"
            fails.append("missing: %s element %s of part %d is not in the merged part (documented as taken from the first part only: %s)" % (
                what, s["name"], order.index(s["part"]), sorted(doc)))
            continue
        if not expect_in:
            if key in got:
                fails.append("structural: %s of part %d (not the first) is in the merged part" % (s["name"], order.index(s["part"])))
            continue
        st = None if e.start is None else Fraction(e.start.t, L)
        en = None if e.end is None else Fraction(e.end.t, L)
        if st != s["start"] or en != s["end"]:
            fails.append("time: %s of part %d moved from (%s, %s) to (%s, %s) quarters" % (
                s["name"], order.index(s["part"]), s["start"], s["end"], st, en))
        if s["start"] is not None and (e.start is None or res.get_point(e.start.t) is not e.start):
            fails.append("time: %s does not start on a time point of the merged part" % s["name"])
        if s["start"] is None and (e.end is None or res.get_point(e.end.t) is not e.end):
            fails.append("time: %s does not end on a time point of the merged part" % s["name"])
        if isinstance(e, S.Note) and e.midi_pitch != s["pitch"]:
            fails.append("pitch: %s changed pitch" % s["name"])
        if isinstance(e, S.GenericNote) and s["symdur"] != e.symbolic_duration:
            fails.append("symdur: %s had symbolic duration %r, in the merged part %r" % (s["name"], s["symdur"], e.symbolic_duration))
        # the element itself: every other attribute it carried (id, step, alter, octave, articulations, text ...) is
        # as before (an attribute that merging adds for its own book-keeping, named _xxx, is not an attribute of the
        # element)
        now_attrs = attr_state(e, S)
        changed = sorted(k for k in set(now_attrs) | set(s["attrs"])
                         if now_attrs.get(k, "<absent>") != s["attrs"].get(k, "<absent>")
                         and not (k.startswith("_") and k not in s["attrs"]))
        if changed:
            fails.append("attrs: %s of part %d is in the merged part with other attributes than before: %s" % (
                s["name"], order.index(s["part"]), ", ".join("%s %r -> %r" % (k, s["attrs"].get(k, "<absent>"), now_attrs.get(k, "<absent>")) for k in changed[:3])))
        # references (ties, slurs, tuplets, beams, grace chains ...): the very same objects, and a referenced object
        # that the merged part must hold is registered on it
        now = ref_objects(e, S)
        if [id(x) for x in now] != [id(x) for x in s["refs"]]:
            fails.append("refs: %s of part %d refers to other objects than before merging" % (s["name"], order.index(s["part"])))
        for x in s["refs"]:
            sx = snap.get(id(x))
            if sx is None or sx["part"] != s["part"]:
                continue  # the input itself refers outside its part
            tp = x.start if x.start is not None else x.end
            if id(x) in got and (tp is None or res.get_point(tp.t) is not tp):
                fails.append("refs: %s refers to %s, which is not on the timeline of the merged part" % (s["name"], sx["name"]))
    # ---- voices / staves of all notes and rests
    gn = [(s, s["obj"]) for k, s in snap.items() if s["part"] in order and isinstance(s["obj"], S.GenericNote) and k in got]

    def st1(x):
        return 1 if x is None else int(x)

    checks = []
    if mode in ("voice", "auto"):
        checks.append(("voice", lambda s: s["voice"], lambda e: e.voice))
    if mode in ("staff", "auto"):
        checks.append(("staff", lambda s: st1(s["staff"]), lambda e: st1(e.staff)))
    for what, old, new in checks:
        owner = {}
        overflow = False
        if what == "voice" and mode == "auto":
            for pi in order:
                vs = {s["voice"] for s, e in gn if s["part"] == pi}
                ss = {st1(s["staff"]) for k, s in snap.items() if s["part"] == pi and isinstance(s["obj"], (S.GenericNote, S.Words, S.Direction, S.Clef))}
                if len(vs) > 4 * max(1, len(ss)):
                    overflow = True
        for s, e in gn:
            owner.setdefault(int(new(e)), set()).add(s["part"])
        shared = {v: ps for v, ps in owner.items() if len(ps) > 1}
        if shared:
            tag = "auto-voice-overflow" if overflow else "shared-" + what
            fails.append("%s: %s numbers %r are used by notes of several inputs (mode %s)" % (tag, what, sorted(shared), mode))
        for pi in order:
            mp = {}
            inv = {}
            for s, e in gn:
                if s["part"] != pi:
                    continue
                mp.setdefault(old(s), set()).add(int(new(e)))
                inv.setdefault(int(new(e)), set()).add(old(s))
            if any(len(x) > 1 for x in mp.values()) or any(len(x) > 1 for x in inv.values()):
                fails.append("kept-%s: notes of part %d that shared a %s no longer do, or the converse (%r)" % (what, order.index(pi), what, mp))
    if mode == "voice":
        for s, e in gn:
            if e.staff != s["staff"]:
                fails.append("untouched: voice mode changed the staff of %s" % s["name"])
                break
    if mode == "staff":
        for s, e in gn:
            if e.voice != s["voice"]:
                fails.append("untouched: staff mode changed the voice of %s" % s["name"])
                break
    # ---- sounding notes = score-level note array of fresh copies
    if ref_rows is not None:
        na, e2 = call(res.note_array)
        if e2 is not None:
            fails.append("notearray: note_array() of the merged part raised %r" % (e2,))
        else:
            rows = sorted((int(r["onset_div"]), int(r["pitch"]), int(r["duration_div"])) for r in na)
            if rows != ref_rows:
                diff = [x for x in rows if x not in ref_rows][:3], [x for x in ref_rows if x not in rows][:3]
                fails.append("sounding: (onset, pitch, duration) rows of the merged part differ from the score-level note array: only merged %r, only score %r" % diff)
            if ref_score is not None and rows != ref_score:
                diff = [x for x in rows if x not in ref_score][:3], [x for x in ref_score if x not in rows][:3]
                fails.append("sounding: (onset, pitch, duration) rows of merge_parts(score) differ from score.note_array(): only merged %r, only score %r" % diff)
    return fails


def finding_key(d, f):
    return f.split(":")[0]


def _prune_refs(pd):
    """after notes were removed: drop the slurs / tuplets / beams / fermatas that referred to them"""
    ids = {n["id"] for n in pd["notes"]}
    if "spans" in pd:
        pd["spans"] = [x for x in pd["spans"] if (x[1] is None or x[1] in ids) and (x[2] is None or x[2] in ids)]
    if "beams" in pd:
        pd["beams"] = [[i for i in b if i in ids] for b in pd["beams"]]
        pd["beams"] = [b for b in pd["beams"] if b]
    if "fermatas" in pd:
        pd["fermatas"] = [i for i in pd["fermatas"] if i in ids]


def final_order(spec):
    """the parts a described argument holds at the call (None when a step replaces them by new objects: unfold)"""
    cur = flat_order(spec)
    for op in (spec.get("ops") or []) if spec.get("score") else []:
        if op[0] == "unfold":
            return None
        if op[0] == "setitem":
            if op[1] >= len(cur):
                return None
            cur[op[1]] = op[2]
        elif op[0] == "assign":
            cur = list(op[1])
        elif op[0] == "append":
            cur.append(op[1])
        elif op[0] == "pop":
            if op[1] >= len(cur):
                return None
            cur.pop(op[1])
        elif op[0] == "reverse":
            cur.reverse()
    return cur


def shrink(d):
    import copy

    if d.get("k") == "mult":
        for i in range(len(d["pairs"])):
            yield dict(d, pairs=[d["pairs"][i]], tuples=[])
        return
    if d.get("k", "merge") != "merge":
        # a file of the test data is a case as it is; its history may get shorter
        for key in ("edits", "ops"):
            for i in range(len(d.get(key) or [])):
                c = copy.deepcopy(d)
                del c[key][i]
                yield c
        return
    n = len(d["parts"])
    # ---- a shorter history first: fewer steps, no interleaved views
    for i in range(len(d.get("edits") or [])):
        c = copy.deepcopy(d)
        del c["edits"][i]
        yield c
    ops = d["arg"].get("ops") or []
    for i in range(len(ops)):
        c = copy.deepcopy(d)
        del c["arg"]["ops"][i]
        if final_order(c["arg"]) is not None or any(o[0] == "unfold" for o in c["arg"]["ops"]):
            fo = final_order(c["arg"])
            if fo is None or len(set(fo)) == len(fo):
                yield c
    for pi in range(n):
        if d["parts"][pi].get("warm"):
            c = copy.deepcopy(d)
            del c["parts"][pi]["warm"]
            yield c
    order = final_order(d["arg"])
    has_edits = bool(d.get("edits"))
    # flat list argument of the parts that are merged
    if order is not None and (d["arg"]["score"] or d["arg"]["shape"][0] != "many" or any(t[0] != "P" for t in d["arg"]["shape"][1])):
        c = copy.deepcopy(d)
        c["arg"] = {"score": False, "shape": ["many", [["P", i] for i in order]]}
        yield c
    if order is not None and not ops and not has_edits and n > 2:
        for drop in range(n):
            c = copy.deepcopy(d)
            keep = [i for i in order if i != drop]
            c["parts"] = [c["parts"][i] for i in keep]
            c["arg"] = {"score": False, "shape": ["many", [["P", i] for i in range(len(keep))]]}
            yield c
    for pi in range(n):
        p = d["parts"][pi]
        if p["extras"]:
            for cut in (len(p["extras"]) // 2, len(p["extras"]) - 1):
                c = copy.deepcopy(d)
                c["parts"][pi]["extras"] = p["extras"][:cut]
                yield c
        if len(p["notes"]) > 1:
            for cut in (len(p["notes"]) // 2, len(p["notes"]) - 1):
                c = copy.deepcopy(d)
                kept = p["notes"][:cut]
                ids = {x["id"] for x in kept}
                c["parts"][pi]["notes"] = [{k: v for k, v in x.items() if k != "tie" or v in ids} for x in kept]
                _prune_refs(c["parts"][pi])
                yield c
            for j in range(len(p["notes"]) - 1):
                c = copy.deepcopy(d)
                kept = p["notes"][:j] + p["notes"][j + 1:]
                ids = {x["id"] for x in kept}
                c["parts"][pi]["notes"] = [{k: v for k, v in x.items() if k != "tie" or v in ids} for x in kept]
                _prune_refs(c["parts"][pi])
                yield c
        for key in ("spans", "beams", "fermatas"):
            if p.get(key):
                c = copy.deepcopy(d)
                c["parts"][pi][key] = p[key][:-1]
                yield c
        if p["clefs"]:
            c = copy.deepcopy(d)
            c["parts"][pi]["clefs"] = p["clefs"][:-1]
            yield c
        if len(p["measures"]) > 1:
            c = copy.deepcopy(d)
            c["parts"][pi]["measures"] = p["measures"][:1]
            yield c


def distribution(descs, results):
    from collections import Counter

    mults = [d for d in descs if d.get("k") == "mult"]
    files = [d for d in descs if d.get("k", "merge") not in ("merge", "mult")]
    descs = [d for d in descs if d.get("k", "merge") == "merge"]
    modes = Counter(str(d["mode"]) for d in descs)
    nparts = Counter(len(d["parts"]) for d in descs)
    divs = Counter(str(tuple(p["divs"] for p in d["parts"])) for d in descs)
    shapes = Counter(("score:" if d["arg"]["score"] else "") + d["arg"]["shape"][0] for d in descs)
    nostaff = sum(1 for d in descs for p in d["parts"] if any(n.get("staff") is None for n in p["notes"]))
    classes = Counter(x[0] for d in descs for p in d["parts"] for x in p["extras"])
    refs = Counter(x[0] for d in descs for p in d["parts"] for x in p.get("spans", []))
    refs["Beam"] = sum(len(p.get("beams", [])) for d in descs for p in d["parts"])
    refs["Fermata(note)"] = sum(len(p.get("fermatas", [])) for d in descs for p in d["parts"])
    late = sum(1 for d in descs if any(p["measures"] and p["measures"][0][0] > 0 for p in d["parts"]))
    steps = Counter(e[0] + (":" + str(e[2]) if e[0] == "read" else "") for d in descs + files for e in d.get("edits") or [])
    sops = Counter(o[0] for d in descs for o in d["arg"].get("ops") or [])
    sops.update(o[0] for d in files for o in d.get("ops") or [])
    return {"modes": dict(modes), "parts_per_case": dict(nparts), "division_tuples": dict(divs.most_common(30)),
            "argument_shapes": dict(shapes), "parts_with_missing_staves": nostaff,
            "classes_of_other_elements": len(classes), "elements_with_references": dict(refs),
            "cases_with_a_part_starting_after_0": late,
            "cases_with_a_part_history": sum(1 for d in descs + files if d.get("edits")),
            "parts_built_with_interleaved_views": sum(1 for d in descs for p in d["parts"] if p.get("warm")),
            "history_steps": dict(steps), "score_history_steps": dict(sops),
            "end_only_directions_with_staff": sum(len(p.get("endonly", [])) for d in descs for p in d["parts"]),
            "tuple_arguments": sum(1 for d in descs if d["arg"].get("tuple")),
            "identity_kinds": dict(Counter(d["ident"] for d in descs if d.get("ident"))),
            "arguments_listing_a_part_twice": sum(1 for d in descs if len(flat_order(d["arg"])) != len(set(flat_order(d["arg"])))),
            "cases_with_parts_sharing_an_id": sum(1 for d in descs if len({str(p["id"]) for p in d["parts"]}) < len(d["parts"])),
            "call_kinds": dict(Counter(d["callkind"] for d in descs if d.get("callkind"))),
            "reassign_left_out": sum(1 for d in descs if d.get("omit")),
            "file_cases": dict(Counter(d["via"] for d in files)), "files": len({d["file"] for d in files}),
            "multiplier_pairs": sum(len(d["pairs"]) for d in mults),
            "multiplier_pairs_with_lcm_beyond_2_53": sum(1 for d in mults for L, _ in d["pairs"] if L >= 2 ** 53),
            "multiplier_pairs_inexact_in_float": sum((r.get("info") or {}).get("inexact", 0) for r in results),
            "parts_without_sounding_notes": sum(len(d.get("silent") or []) for d in descs),
            "rejected_inputs": sum(1 for r in results if r.get("key") is None)}
