"""C11 - adding measures and tying notes normalise notation without changing what sounds.

Reading (how the words of the property are taken; the oracle below implements exactly this)
* "time signature in force": the last TimeSignature starting at or before a position; before the first one
  (or on a stretch the code has to cover without one) 4 beats of one quarter - the code's documented default.
  A part without any time signature has no bar length: nothing is added (the code warns), nothing is judged.
* existing measures are pairwise non-overlapping, non-empty and do not straddle a time-signature change
  (otherwise "cuts them" has no reading); bars must be realisable on the integer timeline: the bar length
  beats*4/beat_type*quarter_duration is integral on every stretch and quarter-duration changes coincide with
  time-signature changes.  Outside these preconditions only the correspondence with the model is checked.
* "numbers all measures consecutively": numbers 1..n in time order after the call.
* "the note array": one row (onset_div, duration_div incl. ties, midi pitch, voice, id) per note without tie_prev,
  compared as a sorted multiset before/after each normalisation.
* "every tie chain is contiguous, of one pitch, voice and staff": for every tie link in either direction
  (n.tie_next, n.tie_prev) the two notes are adjacent in time and agree in SOUNDING pitch (midi_pitch: alter None
  and 0 both mean unaltered, G#4 and Ab4 are one pitch), voice and staff.  A link that was ENTERED between notes of
  different voice or staff cannot be made 'of one voice and staff' without untying it (which would change what
  sounds): such a link is judged for contiguity and pitch only; every link the library creates is judged in full.
* "every symbolic duration the library assigns": every non-empty `symbolic_duration` of a note or rest of the part
  after the call (the generator never presets one); `{}` = no value assigned.  It is evaluated with the quarter
  duration in force at the note's start (`note.start.quarter`), tolerance 1e-9 relative for the binary64 product.
* "filling rests": fill_rests has to complete on every part of the quantifier (an exception is reported as
  fill_rests/raises - repair C11-7: a measure in which nothing starts); the rests it adds are judged like notes
  (note array unchanged; symbolic duration = numeric duration).  The code evaluates all members of a composite rest
  with the divisions in force at the start of the stretch it fills, so a member is judged only when no
  quarter-duration change lies strictly inside the measure it was filled into (a measure that straddles a
  quarter-duration change is outside the Reading's preconditions anyway).  WHERE rests are put (exactly the gaps of
  each voice within each measure) is not part of the property's statement: it is proved for the model
  (rests_fill_gaps) and compared, not judged by the oracle.
* the estimator "reports that no single notated value exists" by returning an empty dict.
* sanitising: in the pipeline of kind "part" the structures are well formed (contiguous ties, grace notes with a main
  note) and the note array must not change.  Removal of INCOMPLETE structures is the documented purpose of
  sanitize_part; on the parts of kind "sanit", which contain such structures, the oracle judges exactly that purpose:
  a grace note that has a main note, a tuplet / slur with both notes and a tie chain whose extent equals its summed
  duration up to the tolerance (default 0, "ideally") are kept; a grace note is never kept without a main note, an
  incomplete tuplet / slur and a chain beyond the tolerance never stay; when no chain is beyond the tolerance the note
  array may only lose the rows of grace notes that had no main note.  WHICH note adopts an orphan grace note is not
  part of the property (compared with the model only).
"""
import json
import math
import traceback
from fractions import Fraction

import wire as W
from core import Eval

PROPERTY = "C11"
DRIVER = "drv_c11"
PROPS = ["PartituraModel.Props.C11", "PartituraModel.Props.C11Rests", "PartituraModel.Props.C11Bar", "PartituraModel.Props.C11Rows",
         "PartituraModel.Props.C11Tuplets", "PartituraModel.Props.C11Sound", "PartituraModel.Props.C11Grace",
         "PartituraModel.Props.C11Compose", "PartituraModel.Props.C11Conv", "PartituraModel.Props.C11Decide"]
TRUSTED = [
    "Part.remove takes an object off the timeline and touches no reference other objects hold to it; iter_all(cls, start=t, "
    "end=t+1) yields the objects starting at t in insertion order (sanitize_part's search for a main note)",
    "np.searchsorted(side='left') on the sorted duration tables = number of entries < value",
    "binary64 evaluation of dur/div, eps/div and n*straight/qdur: for integer dur, div every comparison of the "
    "estimator is separated from its threshold by >= 1/(1024 div), so exact rationals decide identically "
    "(confirmed exhaustively for div 1..960, dur 1..8 div)",
    "Part.beat_map / inv_beat_map are C02's exact maps (Model/TimeMap.lean, checked by property C02)",
    "Part.iter_all yields objects in time order, insertion order within a time point; Part.add/remove keep it",
    "np.arange on integers",
    "np.unique on a column = sorted distinct values, on rows (axis=0) and np.setdiff1d on row views = lexicographically "
    "sorted distinct rows; np.argmin/np.argmax return the first extremal index",
    "np.argsort in _fill_rests_within_measure is modelled as a stable sort: the choice among equal start (end) times only "
    "selects which note of the voice lends its staff to a rest (compared on generated voices that wander between staves)",
    "binary64 evaluation of st + symbolic_to_numeric_duration(sd, divs) for the members of a composite rest is exact "
    "(checked for every composite answer of the estimator, div 1..960; the model uses exact rationals and the harness "
    "compares the exact binary value of every time)",
    "binary64 evaluation of float(divs) * LABEL_DURS[type] * DOT_MULTIPLIERS[dots] * (normal / actual) in "
    "symbolic_to_numeric_duration (duration_from_symbolic): the model is exact, the stream dfsl compares within 1e-12 relative",
]
PARTIAL = [
    "estimate_back / estimate_total are proved for integer durations (all div >= 1, all dur); for non-integer float "
    "durations the tolerance makes the claim false by design; estimate_back_composite needs div <= 2^40 (binary64 table)",
    "measures_tile / numbers_consecutive / measure_lengths hold for every bar-end map that is Integral; for add_measures "
    "itself (C02's beat maps) they are proved as *_real under BarsIntegral: positive divisions and signature numbers, and "
    "every stretch of one time signature free of quarter-duration changes with a whole number L = 4*quarter_duration/"
    "beat_type of divisions per beat. TsOK / ExistingOK (the Reading's preconditions) and BarsIntegral are decided together by "
    "the executable readingOKB (Model/MeasuresDec.lean; readingOKB p = true implies all three: measures_checked, "
    "measure_lengths_checked, pipeline_checked), which the driver evaluates on every generated part (stream rok, compared "
    "with a Python port; the evidence counts the parts that pass); reading_ok_exact: the test holds exactly when the three "
    "conditions do. Parts "
    "outside it (a beat that is not a whole number of divisions, a quarter-duration change inside a stretch, overlapping or "
    "straddling existing measures) are only compared",
    "tie_notes_note_array_same / normalise_note_array_same (the LIST `sounding` of the model, which the driver prints and the "
    "harness compares with duration_tied / midi_pitch of the real notes, is identical before and after tie_notes, "
    "find_tuplets and sanitize_part) hold for note lists with distinct keys whose ties point at notes with a back link "
    "and whose chains end (Walkable: duration_tied terminates; Python does not return on a cyclic chain) - validity of the "
    "input, not side conditions on the code; Walkable follows from conditions on single notes and links (chains_end_from_local: "
    "distinct keys, back links, every tie joins a note of positive length to one that starts where it ends) and "
    "pipeline_normalises(_local) composes add_measures, tie_notes, find_tuplets and sanitize_part (note array kept, every "
    "note of positive length inside the timeline within ONE measure - the measure order tie_notes_within_measures assumed is "
    "proved from add_measures -, ties adjacent) under TsOK / ExistingOK / BarsIntegral; the pitch column is the spelling token, evaluated to the MIDI number by "
    "midiOfToken (compared on every generated spelling, alter None/0 and enharmonic respellings included)",
    "tie_notes stage 2 (find_tie_split + split_note) and find_tuplets are unreachable in the current code because "
    "estimate_symbolic_duration returns {} instead of None (theorems stage2_dead, tuplet_candidates_empty, tuplets_dead). "
    "Decision of round 2: not repaired - no input violates the property as the code stands, and the one-line repair "
    "(`not symbolic_duration`) would make find_tuplets overwrite guessed tuplet ratios (theorem tuplet_relabels_guess: "
    "10-division notes at 24 per quarter labelled quarter 3:2 = 16 divisions). Both are modelled in full "
    "(split_note; find_tuplets steps 1-3 in Model/Tuplets.lean), proved not to change what sounds (tie_sound_same/"
    "split_sound; tuplets_sound_same) and compared with the code through a Note subclass whose symbolic_duration may be "
    "None (a plain Note never reaches them); the labels find_tuplets writes are right when it starts from a straight "
    "value (tuplet_label_straight) and are not judged otherwise",
    "fill_rests (Model/Rests.lean, both modes): rests_sound_same(_global) and rest_symdur hold for all inputs of the model; "
    "rests_fill_gaps / rests_fill_staves are per measure, for integer times and quarter durations <= 2^40, and speak about "
    "objects that START in the measure, grouped by voice (as the code does; not by voice and staff); for the whole part "
    "(fill_rests_decomposes, rests_fill_gaps_all) the measures must be pairwise disjoint and non-empty - proved for the "
    "measures add_measures returns (add_measures_then_fill_rests, under TsOK / ExistingOK / BarsIntegral), assumed for "
    "measures entered by hand since overlapping measures do see each other's rests; global mode fills only "
    "before the first / after the last object of a (voice, staff) by design, so there is no gap theorem for it; the later "
    "members of a composite rest are evaluated with the divisions at the start of the stretch, which are the divisions in "
    "force at their own start only if no quarter-duration change lies inside the stretch",
    "sanitize_part is modelled in full (Model/Sanitize.lean: grace notes adopted by the last note of their voice or removed, "
    "incomplete tuplets / slurs removed, tie check) and compared on generated INCOMPLETE structures; proved: identity on "
    "complete structures (sanitize_complete_noop), no plain note ever removed / moved / altered (sanitize_keeps_notes), the "
    "tie check cannot see spellings, voices, staves or ids (sanitize_reads_sound_not_spelling), it is discharged for the "
    "output of tie_notes (tie_then_sanitize, from tie_notes_links_kept); for the grace-note loop as written, on every "
    "part (sequences, dangling / cyclic grace links, equal keys): a grace note that has a main note is never removed and "
    "whatever is removed had none when the call began (sanitize_complete_grace_kept, sanitize_removes_only_incomplete), "
    "every grace note still in the part has a main note afterwards (sanitize_kept_grace_has_main: with one key per grace "
    "note; sanitize_kept_grace_has_main_lk: by lookup, without that condition), no grace note is moved, "
    "revoiced or reordered and an adopting note starts where a grace note starts and has its voice (sanitize_grace_links). "
    "WHICH of several candidate notes adopts is proved per turn of the loop (grace_adopter_is_last: the last plain note in "
    "iteration order of the grace note's voice that starts with it, put on the last grace note of its sequence), not as a "
    "closed form of the whole loop; a grace note listed for removal may be completed by a later turn of the loop and is "
    "removed all the same (example exLate), so 'removed => no main note afterwards' is not claimed; the "
    "links are followed with fuel = number of grace notes + 1 (Python does not return on a cyclic sequence); a removed "
    "grace note leaves the note array by the function's documented purpose",
    "format_symbolic_duration / GenericNote.duration_from_symbolic (Model/SymConv.lean) are compared on stored values of "
    "every shape (None, {}, plain, dotted, tuplet, half a tuplet, unknown type, too many dots, tuples); proved: "
    "duration_from_symbolic on an estimated value is None or exactly the numeric duration and never raises "
    "(duration_from_symbolic_back / _note / _after_tie, integer durations); that the formatted string names the value "
    "(type, dots, tuplet or not, ratio) is proved for all type names without '.' and '_' - which every name of the "
    "regenerated LABEL_DURS is -, all dot counts and all ratios (format_names_value, label_names_plain; the example "
    "'quarter.' shows the condition is needed); a dict holding a tuplet key with value None is not generated",
    "Gen/C11Consts.lean: tupletFirstNormal is the observed first guess (a search starting at 1 instead of 2 is not "
    "observable); tieNotesMaxSplits and addMeasuresSnap are read from the syntax tree (literal or constant expression, "
    "possibly through a local) - another way of writing them stops consts_extracted from building",
]
RULE = ("(a) estimator: every div 1..960 x every integer dur 1..8 div (thorough) or a stratified sample of ~210 durs "
        "per div containing all exact table/composite hits and their +-1 neighbours (quick), plus singles with "
        "return_com_durations, zero and large divs; (b) find_tie_split/order_splits/find_smallest_unit/_make_tied_note_id "
        "on random arguments; (c) generated parts: divisions from {1..960}, 1-6 bars from 13 signatures, optional late "
        "first signature, offset start, quarter-duration change, existing measures none/all/some/irregular "
        "(pickup, partial, split bars), notes with arbitrary integer onsets/durations (plain, dotted, tuplet, odd, "
        "multi-bar, across signature changes), chords, ties, slurs, rests, grace notes, odd ids, voices on one staff or "
        "wandering between three staves; fill_rests measure-wise (70 %) or global; (d) find_tuplets on runs of 1-12 "
        "equal-duration adjacent notes (triplet, quintuplet, septuplet, composite and odd durations, chords, gaps) of a "
        "Note subclass without estimated symbolic duration; (e) tie chains whose members SOUND alike but are written "
        "differently (alter None / 0, enharmonic respelling, other voice, other staff, id None at the head or inside; half of "
        "all entered ties); (f) sanitize_part on parts with incomplete structures: grace notes and grace sequences without "
        "main note (with / without a note of their voice starting with them), tuplets and slurs lacking a note, ties between "
        "non-adjacent notes (gaps, overlaps, backwards), tie_tolerance default / 0 / 1 / 2 / 5; (g) format_symbolic_duration "
        "and Note.duration_from_symbolic on 8-30 notes per case storing None / {} / () / one value (every label of LABEL_DURS and "
        "unknown ones, 0..5 dots, whole, half and degenerate tuplet ratios) / a tuple of values, divisions 1..960. distinct = distinct "
        "request text; non-trivial = estimator returned a value / a note was split / a measure was added / a tuplet was found")
LEVEL_TEXT = ("Lean 4 theorems (all durations and divisions, all measure layouts and split lists, whole regenerated "
              "tables by kernel decision) about executable models of the estimator, the split search, add_measures (also over "
              "C02's concrete beat maps), tie_notes, find_tuplets, fill_rests and sanitize_part, up to the end-to-end statement "
              "that the executable note array of the model is the same list before and after tie_notes / find_tuplets / "
              "sanitize_part (normalise_note_array_same) and its composition with add_measures (pipeline_normalises: note array kept, "
              "every note within one measure, ties adjacent), the grace-note loop of sanitize_part (kept <=> has a main note) and "
              "duration_from_symbolic; the literal constants of the source are regenerated into the model "
              "on every run; the models are tied to the code by an exhaustive differential sweep of the "
              "estimator over div 1..960 and a differential run over generated parts (note arrays compared row by row).")

STEPS = "CDEFGAB"
DIVS = [1, 2, 3, 4, 5, 6, 7, 8, 10, 12, 16, 24, 48, 96, 480, 960]
TS_POOL = [(4, 4), (3, 4), (2, 4), (6, 8), (5, 4), (2, 2), (3, 8), (9, 8), (12, 8), (6, 4), (7, 8), (1, 4), (4, 2)]
ROW = 256
SEARCH_LIMIT = 8000


# ---------------------------------------------------------------------------------------------- tables (oracle side)
def _tables():
    import partitura.utils.globals as G

    return G


def fmt_sym(d):
    return W.f_tuple(str(d.get("type")), W.f_int(d.get("dots", 0) or 0), W.f_opt(W.f_int, d.get("actual_notes")),
                     W.f_opt(W.f_int, d.get("normal_notes")))


def fmt_est(e):
    if isinstance(e, tuple):
        return W.f_list(fmt_sym, e)
    if not e:
        return "-"
    return fmt_sym(e)


def call(f, *a, **kw):
    try:
        return f(*a, **kw), None
    except BaseException as e:
        if isinstance(e, (KeyboardInterrupt, SystemExit)):
            raise
        return None, e


# ---------------------------------------------------------------------------------------------- case generation
def _strat_durs(rng, div, n=210):
    hi = 8 * div
    if hi <= n:
        return list(range(1, hi + 1))
    G = _tables()
    s = set()
    for D in list(G.DURS) + list(G.COMPOSITE_DURS) + list(G.STRAIGHT_DURS):
        x = Fraction(*float(D).as_integer_ratio()) * div
        for k in (math.floor(x), math.ceil(x), round(float(D) * div)):
            for dd in (-1, 0, 1):
                if 1 <= k + dd <= hi:
                    s.add(k + dd)
    s = set(rng.sample(sorted(s), min(len(s), n // 2)))
    bands = [(1, div), (div + 1, 2 * div), (2 * div + 1, 4 * div), (4 * div + 1, 8 * div)]
    while len(s) < n:
        lo, hi2 = bands[rng.randrange(4)]
        s.add(rng.randint(lo, hi2))
    return sorted(s)


ODD_IDS = ["n0", "n0a", "n0-1", "n0a-1", "x", "a", "z", "note", "N", "n-", "-n", "", "n9", "n0_", "n0`", "n0-1-2", "Z9"]


def cases(rng, tier):
    thorough = tier != "quick"
    # the estimator sweep comes last: the extended search of the runner takes the first SEARCH_LIMIT cases
    # (b) split search and helpers
    ns = 1500 if thorough else 160
    for _ in range(ns):
        div = rng.choice(DIVS + [rng.randint(1, 64)])
        unit = div
        while unit % 2 == 0:
            unit //= 2
        start = rng.randint(0, 6 * div)
        mode = rng.random()
        if mode < 0.6:
            length = rng.randint(1, 9 * div)
        elif mode < 0.85:
            length = rng.randint(1, 40) * unit  # on the grid: splits exist
        else:
            length = rng.randint(4 * div, 20 * div)
        # keep the breadth-first search small: at most ~60 grid points per level
        if length // unit > 60:
            length = 60 * unit + rng.randint(0, unit)
        yield {"k": "split", "start": start, "end": start + length, "div": div, "max": rng.choice([3, 3, 3, 2, 1, 0, None, None])}
    for _ in range(400 if thorough else 40):
        # deep searches: more than 30 quarters need two or three splits (or have no solution)
        div = rng.choice([1, 1, 2, 3])
        start = rng.choice([0, 0, 1, 2, 3, 4]) * (div if rng.random() < 0.7 else 1)
        yield {"k": "split", "start": start, "end": start + rng.randint(31, 44) * div + rng.choice([0, 0, 0, 1]), "div": div, "max": rng.choice([3, 3, 2, None])}
    for _ in range(600 if thorough else 80):
        a = rng.randint(0, 200)
        yield {"k": "osplits", "start": a, "end": a + rng.randint(0, 120), "unit": rng.choice([1, 1, 2, 3, 4, 5, 7, 15, 16])}
    for d in list(range(1, 130)) + [480, 960, 1000, 1024, 7 * 64]:
        yield {"k": "unit", "div": d}
    for i in ODD_IDS + ["n%d%s" % (rng.randint(0, 99), rng.choice(["", "a", "b", "-1", "a-2", "y", "z"])) for _ in range(40)]:
        yield {"k": "tid", "id": i}
    # (c) parts
    npart = 4000 if thorough else 150
    for i in range(npart):
        yield gen_part(rng)
    for i in range(1500 if thorough else 60):
        d = gen_part(rng)
        d["k"] = "splitnote"
        d["which"] = rng.randint(0, 50)
        yield d
    for i in range(1200 if thorough else 50):
        yield gen_tuplet_part(rng)
    for i in range(2000 if thorough else 110):
        yield gen_sanit(rng)
    for i in range(400 if thorough else 40):
        yield gen_conv(rng)
    for i in range(1500 if thorough else 120):
        yield gen_qdord(rng)
    # (a) estimator
    if thorough:
        for div in range(1, 961):
            for lo in range(1, 8 * div + 1, ROW):
                yield {"k": "estr", "div": div, "lo": lo, "hi": min(lo + ROW, 8 * div + 1)}
    else:
        for div in range(1, 961):
            yield {"k": "estl", "div": div, "com": False, "durs": _strat_durs(rng, div)}
    for div in [1, 2, 3, 4, 6, 12, 16, 24, 48, 96, 480, 960]:
        yield {"k": "estl", "div": div, "com": True, "durs": list(range(0, min(8 * div, 400) + 1))}
    n1 = 3000 if thorough else 300
    for _ in range(n1):
        div = rng.choice([rng.randint(1, 960), rng.randint(961, 100000), rng.choice([1024, 4096, 10080, 65536])])
        dur = rng.choice([rng.randint(0, 8 * div), rng.randint(0, 40 * div)])
        yield {"k": "estl", "div": div, "com": rng.random() < 0.5, "durs": [dur]}


CONV_ODD_TYPES = ["", "x", "Quarter", "quarter.", "1024th", "maxima"]


def gen_conv(rng):
    """(g) format_symbolic_duration / GenericNote.duration_from_symbolic on stored values of every shape"""
    G = _tables()
    labels = sorted(G.LABEL_DURS)
    ndots = len(G.DOT_MULTIPLIERS)

    def one_sd():
        sd = {"type": rng.choice(labels) if rng.random() < 0.85 else rng.choice(CONV_ODD_TYPES)}
        r = rng.random()
        if r < 0.6:
            sd["dots"] = rng.randrange(ndots)
        elif r < 0.7:
            sd["dots"] = ndots + rng.randrange(2)   # beyond DOT_MULTIPLIERS: raises
        r = rng.random()
        if r < 0.35:
            sd["actual_notes"], sd["normal_notes"] = rng.choice([(3, 2), (5, 4), (7, 4), (6, 4), (2, 3), (13, 12), (0, 2), (3, 0), (1, 1)])
        elif r < 0.42:
            sd["actual_notes"] = rng.choice([3, 5])
        elif r < 0.49:
            sd["normal_notes"] = rng.choice([2, 4])
        return sd

    q = rng.choice(DIVS + [rng.randint(1, 960)])
    items = []
    for _ in range(rng.randint(8, 30)):
        r = rng.random()
        dur = rng.choice([rng.randint(1, 8 * q), q, 2 * q, max(1, q // 2), 3 * q])
        if r < 0.25:
            v = None      # nothing stored: the property estimates from the numeric duration
        elif r < 0.32:
            v = {}
        elif r < 0.85:
            v = one_sd()
        elif r < 0.9:
            v = []        # an empty tuple
        else:
            v = [one_sd() for _ in range(rng.randint(1, 3))]
        items.append({"dur": dur, "v": v})
    return {"k": "conv", "q": q, "items": items}


STEP_PC = {"C": 0, "D": 2, "E": 4, "F": 5, "G": 7, "A": 9, "B": 11}


def midi_of(step, alter, octv):
    """what a spelling sounds like (MIDI number), written from the definition of scientific pitch notation"""
    return 12 * (octv + 1) + STEP_PC[step] + (alter or 0)


def respell(rng, step, alter, octv):
    """a different (step, alter, octave) with the same sounding pitch (G#4 / Ab4, B#3 / C4, Cb4 / B3, C##4 / D4 ...)"""
    m = midi_of(step, alter, octv)
    cands = [(s2, a2, o2) for s2 in STEPS for a2 in (-2, -1, 0, None, 1, 2) for o2 in (octv - 1, octv, octv + 1)
             if midi_of(s2, a2, o2) == m and (s2, a2 or 0, o2) != (step, alter or 0, octv)]
    return rng.choice(cands) if cands else (step, alter, octv)


def gen_part(rng):
    divs = rng.choice(DIVS)
    q = divs
    nbars = rng.randint(1, 6)
    off = rng.choice([0, 0, 0, 0, rng.randint(1, 3) * divs])
    late_first = rng.random() < 0.12
    ts, qd, bars = [], [], []
    t = off
    cur = None
    for b in range(nbars):
        if (b == 0 and not late_first) or (b > 0 and (cur is None or rng.random() < 0.35)):
            cand = rng.choice(TS_POOL)
            if b > 0 and rng.random() < 0.15:
                q2 = rng.choice([1, 2, 3, 4, 6, 8, 12, 24])
                if (4 * cand[0] * q2) % cand[1] == 0:
                    qd.append([t, q2])
                    q = q2
            if (4 * cand[0] * q) % cand[1] != 0:
                cand = (4, 4)
            if cand != cur or rng.random() < 0.2:
                ts.append([t, cand[0], cand[1]])
                cur = cand
        beats, bt = cur if cur else (4, 4)
        blen = 4 * beats * q // bt
        bars.append((t, t + blen))
        t += blen
    L = t
    adversarial = rng.random() < 0.2
    if adversarial and rng.random() < 0.5 and len(bars) > 1:
        # a signature change in the middle of a bar
        bs, be = bars[rng.randrange(len(bars))]
        if be - bs > 1:
            ts.append([rng.randint(bs + 1, be - 1), *rng.choice([(4, 4), (3, 4), (2, 4)])])
            ts.sort(key=lambda x: x[0])
    if rng.random() < 0.05:
        ts = []
    # existing measures
    mode = rng.choice(["none", "none", "all", "some", "some", "irregular", "irregular"])
    meas = []
    if mode == "all":
        meas = [[s, e, rng.choice([i + 1, None, 7])] for i, (s, e) in enumerate(bars)]
    elif mode == "some":
        meas = [[s, e, rng.choice([i + 1, None, 3])] for i, (s, e) in enumerate(bars) if rng.random() < 0.5]
    elif mode == "irregular":
        for i, (s, e) in enumerate(bars):
            r = rng.random()
            if e - s < 2 or r < 0.4:
                continue
            x = rng.randint(s + 1, e - 1)
            if r < 0.55:
                meas.append([s, x, None])          # pickup-like: short measure at the bar start
            elif r < 0.7:
                meas.append([x, e, 5])             # needs a filler before it
            elif r < 0.8:
                meas.append([s, x, 1]); meas.append([x, e, 2])
            elif r < 0.9 and e - s >= 3:
                y = rng.randint(x, e - 1)
                if y > x:
                    meas.append([x, y, None])      # island inside the bar
            else:
                meas.append([s, e, None])
    if adversarial and rng.random() < 0.3 and L > off + 2:
        a = rng.randint(off, L - 1)
        meas.append([a, rng.randint(a + 1, L), None])  # may overlap / straddle: correspondence only
        meas.sort(key=lambda m: m[0])
    # notes
    notes, slurs = [], []
    nid = 0
    nvoices = rng.randint(1, 2)
    palette = sorted(set(x for x in [q, 2 * q, 3 * q, 4 * q, q // 2, q // 4, 3 * q // 2, 3 * q // 4, q // 3, 2 * q // 3, q // 6, q // 5,
                                     7 * q // 4, 5 * q, 6 * q, 9 * q // 2] if x >= 1))
    span_end = L + (rng.randint(1, 2 * q) if rng.random() < 0.1 else 0)
    for v in range(1, nvoices + 1):
        staff = rng.choice([1, 1, 2]) if rng.random() < 0.3 else 1
        cross = rng.random() < 0.1   # a voice that wanders between the staves
        pos = off + (rng.randint(0, 2 * q) if rng.random() < 0.4 else 0)
        prev = None
        while pos < span_end and len(notes) < 40:
            r = rng.random()
            if r < 0.45:
                dur = rng.choice(palette)
            elif r < 0.75:
                dur = rng.randint(1, max(1, 4 * q))
            elif r < 0.9:
                dur = rng.randint(1, max(1, 3 * (bars[0][1] - bars[0][0])))   # multi-bar
            else:
                dur = rng.randint(1, 3)
            dur = max(1, min(dur, span_end - pos))
            if cross and prev is None:   # (a tied continuation stays on the staff of its predecessor)
                staff = rng.choice([1, 2, 3])
            r = rng.random()
            if r < 0.1:
                notes.append({"id": "r%d" % nid, "t": pos, "dur": dur, "kind": "rest", "voice": v, "staff": staff})
                nid += 1
                prev = None
            elif r < 0.18:
                prev = None  # gap
            else:
                if rng.random() < 0.06:
                    notes.append({"id": "g%d" % nid, "t": pos, "dur": 0, "kind": "grace", "step": rng.choice(STEPS),
                                  "alter": rng.choice([-1, 0, 0, 1]), "oct": rng.randint(2, 6), "voice": v, "staff": staff})
                    nid += 1
                    gref = notes[-1]
                else:
                    gref = None
                nch = 1 + (rng.random() < 0.2)
                for c in range(nch):
                    nv, nst, tv = v, staff, None
                    if prev is not None and c == 0:
                        step, alter, octv = prev["step"], prev["alter"], prev["oct"]
                        nv, nst = prev["voice"], prev["staff"]
                        # the continuation SOUNDS like its predecessor; how it is written may differ (round 5)
                        if rng.random() < 0.5:
                            tv = rng.choice(["alt0", "alt0", "enh", "enh", "voice", "staff", "idnone", "headnone"])
                            if tv == "alt0":      # None and 0 both mean 'unaltered'
                                if alter in (None, 0):
                                    alter = 0 if alter is None else None
                                else:
                                    tv = "enh"
                            if tv == "enh":       # another spelling of the same sounding pitch
                                step, alter, octv = respell(rng, step, alter, octv)
                            elif tv == "voice":
                                nv = prev["voice"] + 2
                            elif tv == "staff":
                                nst = prev["staff"] + rng.choice([1, 1, -1]) if prev["staff"] > 1 else prev["staff"] + 1
                            elif tv == "headnone":
                                prev["id"] = None
                    else:
                        step, alter, octv = rng.choice(STEPS), rng.choice([-1, 0, 0, 0, 1, None]), rng.randint(2, 6)
                    ident = "n%d" % nid
                    if rng.random() < 0.08 or tv == "idnone":
                        ident = None if tv == "idnone" else rng.choice(["n%da" % nid, "n%d-1" % nid, "n%da-1" % nid, "x%dz" % nid, None])
                    n = {"id": ident, "key": nid, "t": pos, "dur": dur, "kind": "note", "step": step, "alter": alter, "oct": octv,
                         "voice": nv, "staff": nst}
                    if tv:
                        n["tv"] = tv
                    if c == 0 and gref is not None:   # the grace note belongs to this note: same voice and staff
                        gref["voice"], gref["staff"] = nv, nst
                    nid += 1
                    if prev is not None and c == 0:
                        prev["tie"] = n["key"]
                    notes.append(n)
                    if c == 0:
                        prev = n if rng.random() < 0.15 else None
                if adversarial and rng.random() < 0.3:
                    pos -= rng.randint(0, dur)  # overlapping notes in one voice
                    prev = None
            pos += dur
        # a pending tie without continuation is dropped
    plain = [n for n in notes if n["kind"] == "note"]
    for _ in range(rng.choice([0, 0, 1, 2])):
        if len(plain) >= 2:
            a, b = sorted(rng.sample(range(len(plain)), 2))
            slurs.append([plain[a]["key"], plain[b]["key"]])
    return {"k": "part", "divs": divs, "qd": qd, "ts": ts, "meas": meas, "notes": notes, "slurs": slurs, "end": L,
            "mode": mode, "measurewise": rng.random() < 0.7, "wrap": rng.choice([None, None, "score", "score2"])}


def gen_tuplet_part(rng):
    """runs of equal-duration notes that start where the previous one ended (what find_tuplets looks for), read through a
    Note subclass without estimated symbolic duration"""
    d = gen_part(rng)
    d["k"] = "tuplets"
    q = d["divs"]
    cands = sorted(set(x for x in [q // 3, 2 * q // 3, q // 6, q // 5, 2 * q // 5, q // 7, q // 12, 4 * q // 3, 5 * q // 12, 16 * q // 3,
                                   q // 2, q, q // 4, 8 * q // 3, 10, 2, 1, 3, 6] if x >= 1))
    notes, nid = [], 0
    pos = d["ts"][0][0] if d["ts"] else 0
    end = max(d["end"], pos + 1)
    while pos < end and len(notes) < 36:
        r = rng.choice([1, 2, 3, 3, 3, 4, 5, 5, 6, 7, 9, 10, 12])
        dd = rng.choice(cands)
        for _ in range(r):
            if pos >= end or len(notes) >= 36:
                break
            notes.append({"id": "n%d" % nid, "key": nid, "t": pos, "dur": dd, "kind": "note", "step": rng.choice(STEPS), "alter": 0,
                          "oct": 4, "voice": 1, "staff": 1})
            nid += 1
            if rng.random() < 0.04:   # a chord note: starts where its neighbour starts, not where it ends
                notes.append({"id": "n%d" % nid, "key": nid, "t": pos, "dur": dd, "kind": "note", "step": rng.choice(STEPS), "alter": 0,
                              "oct": 5, "voice": 1, "staff": 1})
                nid += 1
            pos += dd
        if rng.random() < 0.3:
            pos += rng.randint(1, max(1, q))
    d["notes"] = notes
    d["slurs"] = []
    d["end"] = max(d["end"], pos)
    return d


# ---------------------------------------------------------------------------------------------- building / observing parts
def build(d, note_cls=None, keys=None):
    import partitura.score as S

    p = S.Part("P0", part_name="P0", quarter_duration=d["divs"])
    for t, qq in d.get("qd", []):
        p.set_quarter_duration(t, qq)
    for t, b, bt in d.get("ts", []):
        p.add(S.TimeSignature(b, bt), t)
    bykey = {}
    for n in d.get("notes", []):
        kw = dict(id=n["id"], voice=n.get("voice"), staff=n.get("staff"))
        k = n["kind"]
        if k == "rest":
            o = S.Rest(**kw)
        elif k == "grace":
            o = S.GraceNote("grace", step=n["step"], octave=n["oct"], alter=n.get("alter"), **kw)
        else:
            o = (note_cls or S.Note)(step=n["step"], octave=n["oct"], alter=n.get("alter"), **kw)
            bykey[n["key"]] = o
        p.add(o, n["t"], n["t"] + n["dur"])
        n["_o"] = o
    for n in d.get("notes", []):
        if n["kind"] == "note" and n.get("tie") is not None:
            a, b = bykey[n["key"]], bykey[n["tie"]]
            a.tie_next = b
            b.tie_prev = a
    for n in d.get("notes", []):
        if n["kind"] == "grace":
            for m in d["notes"]:
                if m["kind"] == "note" and m["t"] == n["t"] and m.get("voice") == n.get("voice"):
                    n["_o"].grace_next = m["_o"]
                    m["_o"].grace_prev = n["_o"]
                    break
    slurs = []
    for a, b in d.get("slurs", []):
        sl = S.Slur(bykey[a], bykey[b])
        p.add(sl, bykey[a].start.t, bykey[b].end.t)
        slurs.append(sl)
    for s, e, num in d.get("meas", []):
        p.add(S.Measure(number=num), s, e)
    if d.get("end") is not None and (p.last_point is None or p.last_point.t < d["end"]):
        p.add(S.Barline("light-heavy"), d["end"])
    for n in d.get("notes", []):
        n.pop("_o", None)
    if keys is not None:
        keys.update(bykey)
    return p, slurs


def sounding(part):
    rows = []
    for n in part.notes_tied:
        rows.append((int(n.start.t), int(n.duration_tied), int(n.midi_pitch), n.voice, n.id))
    return sorted(rows, key=lambda r: tuple(str(x) for x in r))


def na_rows(part):
    """the note array proper (Part.note_array): (onset_div, duration_div, pitch, voice, id), sorted; None when it cannot
    be computed"""
    na, exc = call(part.note_array)
    if exc is not None:
        return None
    try:
        return sorted(((int(r["onset_div"]), int(r["duration_div"]), int(r["pitch"]), int(r["voice"]), str(r["id"])) for r in na))
    except Exception:
        return None


def header(part):
    import partitura.score as S

    qd = list(zip(part._quarter_times, part._quarter_durations))
    ts = [(x.start.t, x.beats, x.beat_type) for x in part.iter_all(S.TimeSignature)]
    ms = [(m.start.t, m.end.t, m.number) for m in part.iter_all(S.Measure)]
    return " ".join([
        W.i(part.first_point.t), W.i(part.last_point.t), W.i(len(part._points)),
        W.lst(lambda x: "%d %d" % (x[0], x[1]), qd),
        W.lst(lambda x: "%d %d %d" % x, ts),
        W.lst(lambda x: "%d %d %s" % (x[0], x[1], W.opt(W.i, x[2])), ms)])


def pitch_tok(n):
    return "%s_%s_%s" % (n.step, "N" if n.alter is None else n.alter, n.octave)


def sym_field_req(v):
    if v is None:
        return "N"
    if not v:
        return "E"
    if not isinstance(v, dict):  # (a tuple of tied values stored on ONE note: never on the unchanged tree; see check_symbolic)
        return "S %s 0 - -" % W.s("not-a-dict:" + type(v).__name__)
    return "S %s %d %s %s" % (W.s(v.get("type")), v.get("dots", 0) or 0, W.opt(W.i, v.get("actual_notes")), W.opt(W.i, v.get("normal_notes")))


def notes_req(part, slur_index, cls=None):
    import partitura.score as S

    ns = list(part.iter_all(cls or S.Note))
    key = {id(n): i for i, n in enumerate(ns)}

    def one(n):
        return " ".join([
            W.i(key[id(n)]), W.opt(W.s, n.id), W.i(n.start.t), W.i(n.end.t), W.s(pitch_tok(n)), W.opt(W.i, n.voice), W.opt(W.i, n.staff),
            sym_field_req(n._sym_dur),
            W.opt(W.i, key.get(id(n.tie_prev)) if n.tie_prev is not None else None),
            W.opt(W.i, key.get(id(n.tie_next)) if n.tie_next is not None else None),
            W.lst(W.i, [slur_index[id(s)] for s in n.slur_stops if id(s) in slur_index])])

    return W.lst(one, ns), ns


def ref(n):
    return "-" if n is None else "%d:%d:%s" % (n.start.t, n.end.t, "-" if n.id is None else n.id)


def notes_obs(ns, slur_index):
    def one(n):
        sd = n._sym_dur
        return W.f_tuple("-" if n.id is None else str(n.id), W.f_int(n.start.t), W.f_int(n.end.t), pitch_tok(n), W.f_opt(W.f_int, n.voice),
                         W.f_opt(W.f_int, n.staff), "N" if sd is None else fmt_est(sd),
                         "-" if n.symbolic_duration is None else fmt_est(n.symbolic_duration), ref(n.tie_prev), ref(n.tie_next),
                         W.f_list(W.f_int, [slur_index[id(s)] for s in n.slur_stops if id(s) in slur_index]))

    return W.f_list(one, ns)


def snd_obs(ns):
    """rows (onset, duration_tied, midi_pitch, voice, id) of the notes without tie_prev, in iteration order"""
    return W.f_list(lambda n: W.f_tuple(W.f_int(n.start.t), W.f_int(n.duration_tied), W.f_opt(W.f_int, n.midi_pitch),
                                        W.f_opt(W.f_int, n.voice), "-" if n.id is None else str(n.id)),
                    [n for n in ns if n.tie_prev is None])


# ---------------------------------------------------------------------------------------------- oracle helpers
def numeric_exact(sd):
    """exact value in quarters of a symbolic duration, from the label table (None if the label is unknown)"""
    LAB = {"long": 16, "breve": 8, "whole": 4, "half": 2, "h": 2, "quarter": 1, "q": 1, "eighth": Fraction(1, 2), "e": Fraction(1, 2),
           "16th": Fraction(1, 4), "32nd": Fraction(1, 8), "64th": Fraction(1, 16), "128th": Fraction(1, 32), "256th": Fraction(1, 64)}
    DOT = [Fraction(1), Fraction(3, 2), Fraction(7, 4), Fraction(15, 8)]
    ty, dots = sd.get("type"), sd.get("dots", 0) or 0
    if ty not in LAB or not 0 <= dots <= 3:
        return None
    return Fraction(LAB[ty]) * DOT[dots] * Fraction(sd.get("normal_notes") or 1, sd.get("actual_notes") or 1)


def check_symbolic(part, stage, out, limit=3, exempt=()):
    import partitura.score as S
    import partitura.utils.music as M

    cnt = 0
    for n in part.iter_all(S.GenericNote, include_subclasses=True):
        if isinstance(n, S.GraceNote) or n.end is None or id(n) in exempt:
            continue
        sd = n.symbolic_duration
        if sd is not None and not isinstance(sd, dict):
            # "every symbolic duration the library assigns evaluates to the note's numeric duration": a tuple of
            # tied values on a single note does not evaluate at all (symbolic_to_numeric_duration raises on it)
            if cnt < limit:
                cnt += 1
                out.append("%s/symbolic: %s %s [%s,%s) has a symbolic duration that is not a single notated value: %r" % (
                    stage, type(n).__name__, n.id, n.start.t, n.end.t, sd))
            continue
        if not sd:
            continue
        q = n.start.quarter
        ex = numeric_exact(sd)
        num, e = call(M.symbolic_to_numeric_duration, sd, q)
        dur = n.end.t - n.start.t
        bad = e is not None or abs(num - dur) > 1e-9 * max(1, dur) or (ex is not None and ex * q != dur)
        if bad and cnt < limit:
            cnt += 1
            out.append("%s/symbolic: %s %s [%s,%s) quarter=%s has symbolic duration %s = %s divs, numeric duration %s" % (
                stage, type(n).__name__, n.id, n.start.t, n.end.t, q, sd, e or num, dur))


def inherited_links(part):
    """ids of the notes whose tie_prev link, AS ENTERED, joins two notes of different voice or staff: such a link can only
    be 'of one voice and staff' after untying it, which would change what sounds - it is not judged for voice/staff
    (the pieces the library creates copy voice and staff, so the link stays between a copy of the one and the other)"""
    import partitura.score as S

    out = set()
    for n in part.iter_all(S.Note, include_subclasses=True):
        nx = n.tie_next
        if nx is not None and (n.voice, n.staff) != (nx.voice, nx.staff):
            out.add(id(nx))
    return out


def check_chains(part, stage, out, inherited=()):
    import partitura.score as S

    def same(a, b):
        """a (earlier) tied to b: one SOUNDING pitch (alter None = 0, enharmonic spellings), one voice and staff"""
        if a.midi_pitch != b.midi_pitch:
            return False
        return id(b) in inherited or (a.voice, a.staff) == (b.voice, b.staff)

    for n in part.iter_all(S.Note, include_subclasses=True):
        nx, pv = n.tie_next, n.tie_prev
        if nx is not None and (nx.start is None or nx.start.t != n.end.t or not same(n, nx)):
            out.append("%s/chain: %s [%s,%s) is tied to %s [%s,%s): not contiguous or not the same pitch/voice/staff" % (
                stage, n.id, n.start.t, n.end.t, nx.id, getattr(nx.start, "t", None), getattr(nx.end, "t", None)))
            return
        if pv is not None and (pv.end is None or pv.end.t != n.start.t or not same(pv, n)):
            out.append("%s/chain: %s [%s,%s) has tie_prev %s [%s,%s): not contiguous or not the same pitch/voice/staff" % (
                stage, n.id, n.start.t, n.end.t, pv.id, getattr(pv.start, "t", None), getattr(pv.end, "t", None)))
            return


def measures_tile(part):
    import partitura.score as S

    ms = sorted((m.start.t, m.end.t) for m in part.iter_all(S.Measure))
    if not ms or ms[0][0] != part.first_point.t or ms[-1][1] != part.last_point.t:
        return None
    for a, b in zip(ms, ms[1:]):
        if a[1] != b[0]:
            return None
    if any(s >= e for s, e in ms):
        return None
    return ms


def check_within_measure(part, stage, out):
    import partitura.score as S

    ms = measures_tile(part)
    if ms is None:
        return
    for n in part.iter_all(S.Note, include_subclasses=False):
        if not any(s <= n.start.t and n.end.t <= e for s, e in ms):
            out.append("%s/one-measure: note %s [%s,%s) does not lie within one measure %s" % (stage, n.id, n.start.t, n.end.t, ms))
            return


def add_measures_pre(d, first, last):
    """the Reading's preconditions; returns (ok, bar length function) """
    ts = sorted([list(x) for x in d["ts"]], key=lambda x: x[0])
    qd = [[0, d["divs"]]] + [list(x) for x in d.get("qd", [])]
    tst = [x[0] for x in ts]
    if len(set(tst)) != len(tst):
        return False, None
    ex = sorted([m[:2] for m in d["meas"]])
    if any(s >= e for s, e in ex):
        return False, None
    if any(a[1] > b[0] for a, b in zip(ex, ex[1:])):
        return False, None
    if any(s < t < e for s, e in ex for t in tst):
        return False, None

    def in_force(t):
        cur = (4, 4)
        for tt, b, bt in ts:
            if tt <= t:
                cur = (b, bt)
        qq = d["divs"]
        for tt, x in qd:
            if tt <= t:
                qq = x
        return cur, qq

    def barlen(t):
        (b, bt), qq = in_force(t)
        return Fraction(4 * b * qq, bt)

    def bar_end(s):
        """exact end of a full bar starting at s: the position where the quarter map has advanced by the bar's
        length in quarters, walking through the quarter-duration changes (which need not coincide with signatures)"""
        (b, bt), _ = in_force(s)
        need = Fraction(4 * b, bt)  # quarters
        pos = Fraction(s)
        changes = sorted(t for t, _ in qd if t > s)
        while True:
            _, qq = in_force(pos)
            nxt = changes[0] if changes else None
            if nxt is None or (nxt - pos) / qq >= need:
                return pos + need * qq
            need -= Fraction(nxt - pos, 1) / qq
            pos = Fraction(nxt)
            changes.pop(0)

    cuts = sorted(set([first] + [t for t in tst if first < t < last]))
    if any(barlen(t) <= 0 for t in cuts):
        return False, None
    return True, bar_end


def bars_integral(d, first, last):
    """the side condition BarsIntegral of Props/C11Bar.lean, computed from the case description"""
    ts = sorted([list(x) for x in d["ts"]], key=lambda x: x[0])
    if not ts or first >= last:
        return None
    qd = [[0, d["divs"]]] + [list(x) for x in d.get("qd", [])]
    if any(b <= 0 or bt <= 0 for _, b, bt in ts) or any(q <= 0 for _, q in qd):
        return False
    starts = [t for t, _, _ in ts]
    if starts[0] > first:
        starts = [first] + starts
    ends = starts[1:] + [last]
    for s, e in zip(starts, ends):
        if s >= e:
            continue
        if any(s < t < e for t, _ in qd):
            return False
        bt = 4
        for t, _, x in ts:
            if t <= s:
                bt = x
        q = d["divs"]
        for t, x in qd:
            if t <= s:
                q = x
        if (4 * q) % bt != 0:
            return False
    return True


def reading_ok(part):
    """Python port of `readingOKB` (lean/PartituraModel/Model/MeasuresDec.lean): the side conditions TsOK, ExistingOK and
    BarsIntegral of the measure theorems computed from the real part, as the text the driver answers to `rok`.  It is NOT
    an oracle gate: it is compared with the model on every generated part and counted in the evidence."""
    import partitura.score as S

    first, last, npoints = int(part.first_point.t), int(part.last_point.t), len(part._points)
    qd = [(int(t), int(q)) for t, q in zip(part._quarter_times, part._quarter_durations)]
    ts = [(int(x.start.t), int(x.beats), int(x.beat_type)) for x in part.iter_all(S.TimeSignature)]
    ms = [(int(m.start.t), int(m.end.t)) for m in part.iter_all(S.Measure)]
    # stretches (the prologue of add_measures)
    tsl = [(t, b) for t, b, _ in ts]
    if tsl and tsl[0][0] > first:
        tsl = [(first, 4)] + tsl
    if tsl and tsl[-1][0] >= last:
        tsl = tsl[:-1]
    starts = [t for t, _ in tsl]
    tail = starts[1:]
    ends = tail + [last] if (not tail or tail[-1] < last) else tail
    if len(starts) != len(ends):
        return "none"
    st = [(max(a, 0), max(e, 0), b) for (a, b), e in zip(tsl, ends)]
    tst = [t for t, _, _ in ts]
    ts_ok = all(a <= b for i, a in enumerate(tst) for b in tst[i + 1:]) and all(first <= t <= last for t in tst) \
        and first < last and bool(ts)

    def td(n, l):
        for a, e in l:
            if not (n <= a and a < e):
                return False
            n = e
        return True

    ex_ok = td(first, ms) and all(e <= last for _, e in ms) and not any(a < x[1] < e for a, e in ms for x in st)
    wf = npoints >= 2 and first < last and all(q > 0 for _, q in qd) and all(b > 0 and bt > 0 for _, b, bt in ts)
    times = sorted(set([first, last] + [t for t, _ in qd] + tst))
    kps, cd, cb = [], Fraction(1), Fraction(1)
    for t in times:
        for tt, q in qd:
            if tt == t:
                cd = Fraction(q)
        for tt, _, bt in ts:
            if tt == t:
                cb = Fraction(bt, 4)
        kps.append((t, cd, cb))

    def beat_l(k):
        if k[2] == 0:
            return False
        r = k[1] / k[2]
        return r.denominator == 1 and r > 0

    def stretch_beat(x):
        return any(k[0] <= x[0] and x[1] <= k2[0] and beat_l(k) for k, k2 in zip(kps, kps[1:]))

    bars = wf and all(x[2] > 0 and (not x[0] < x[1] or stretch_beat(x)) for x in st)
    return W.f_tuple(*[W.f_bool(x) for x in (ts_ok and ex_ok and bars, ts_ok, ex_ok, bars)])


def check_add_measures(d, before, after, first, last, out):
    """before/after: [(s, e, number)] in time order"""
    if not d["ts"] or first == last:
        return
    ok, barlen = add_measures_pre(d, first, last)
    exs = sorted((s, e) for s, e, _ in before)
    aft = sorted((s, e) for s, e, _ in after)
    rest = list(aft)
    for m in exs:
        if m in rest:
            rest.remove(m)
        else:
            out.append("add_measures/existing: existing measure %s is gone or moved: %s" % (m, aft))
            return
    if not ok:
        return
    if aft[0][0] != first or aft[-1][1] != last or any(a[1] != b[0] for a, b in zip(aft, aft[1:])) or any(s >= e for s, e in aft):
        out.append("add_measures/tiling: measures %s do not tile [%s,%s) (existing %s)" % (aft, first, last, exs))
        return
    nums = [n for _, _, n in sorted(after, key=lambda m: (m[0], m[1]))]
    if nums != list(range(1, len(nums) + 1)):
        out.append("add_measures/numbers: measure numbers in time order are %s" % (nums,))
        return
    tst = [t for t, _, _ in d["ts"]]
    stops = set(tst) | set(s for s, _ in exs) | {last}
    for s, e in rest:  # the added ones
        if any(s < t < e for t in tst):
            out.append("add_measures/length: added measure [%s,%s) is not cut by the signature change inside it (%s)" % (s, e, tst))
            return
        be = barlen(s)  # exact end of a full bar from s (a Fraction; not judged when it is off the division grid)
        if be.denominator != 1:
            return
        if not (e == be or (e < be and e in stops)):
            out.append("add_measures/length: added measure [%s,%s) ends at %s, the signature and divisions in force imply a bar end at %s and nothing cuts it at %s" % (
                s, e, e, be, e))
            return


# ---------------------------------------------------------------------------------------------- evaluation
def eval_est(d, ev):
    import partitura.utils.music as M

    div = d["div"]
    com = d.get("com", False)
    durs = list(range(d["lo"], d["hi"])) if d["k"] == "estr" else d["durs"]
    outs = []
    nontrivial = False
    bad = 0
    for dur in durs:
        e, exc = call(M.estimate_symbolic_duration, dur, div, return_com_durations=com) if com else call(M.estimate_symbolic_duration, dur, div)
        if exc is not None:
            outs.append("err")
            if bad < 3:
                bad += 1
                ev.oracle.append("estimate/raises: estimate_symbolic_duration(%d, %d) raised %r" % (dur, div, exc))
            continue
        outs.append(fmt_est(e))
        if e:
            nontrivial = True
            parts = e if isinstance(e, tuple) else (e,)
            tot, exact = 0.0, Fraction(0)
            for sd in parts:
                tot += M.symbolic_to_numeric_duration(sd, div)
                x = numeric_exact(sd)
                exact = None if (x is None or exact is None) else exact + x * div
            wrong = abs(tot - dur) > 1e-9 * max(1, dur) or (exact is not None and exact != dur)
            if wrong and bad < 3:
                bad += 1
                kind = "composite" if isinstance(e, tuple) else ("tuplet" if "actual_notes" in e else "table")
                ev.oracle.append("estimate/back-%s: estimate_symbolic_duration(%d, %d) = %s which lasts %s divs" % (kind, dur, div, e, tot))
    if d["k"] == "estr":
        ev.requests.append("estr %d %d %d" % (div, d["lo"], d["hi"]))
    else:
        ev.requests.append("estl %d %s %s" % (div, W.b(com), W.lst(W.i, durs)))
    ev.impl.append("[" + ",".join(outs) + "]")
    ev.info = {"pairs": len(durs)}
    return nontrivial


def eval_split(d, ev):
    import partitura.utils.music as M

    s, e, div, mx = d["start"], d["end"], d["div"], d["max"]
    if mx is None:   # the default of the signature: the model takes it from Gen/C11Consts.lean
        import inspect

        r, exc = call(M.find_tie_split, s, e, div)
        ev.requests.append("splitd %d %d %d" % (s, e, div))
        mx = inspect.signature(M.find_tie_split).parameters["max_splits"].default
    else:
        r, exc = call(M.find_tie_split, s, e, div, mx)
        ev.requests.append("split %d %d %d %d" % (s, e, div, mx))
    if exc is not None:
        ev.impl.append("err")
        ev.oracle.append("split/raises: find_tie_split%r raised %r" % ((s, e, div, mx), exc))
        return False
    if r is None:
        ev.impl.append("-")
        return False
    ev.impl.append(W.f_list(lambda p: W.f_tuple(W.f_int(p[0]), W.f_int(p[1]), fmt_est(p[2])), r))
    # oracle: the parts tile [s, e), each has a value that lasts exactly its length, at most max+1 parts
    ok = len(r) <= mx + 1 and r[0][0] == s and r[-1][1] == e and all(a[1] == b[0] for a, b in zip(r, r[1:])) and all(a < b for a, b, _ in r)
    if not ok:
        ev.oracle.append("split/tiling: find_tie_split%r = %s does not tile the interval with at most %d parts" % ((s, e, div, mx), r, mx + 1))
    for a, b, sd in r:
        x = numeric_exact(sd) if sd else None
        if not sd or x is None or x * div != b - a:
            ev.oracle.append("split/value: find_tie_split%r part [%d,%d) has symbolic duration %s (= %s divs)" % ((s, e, div, mx), a, b, sd, None if x is None else x * div))
            break
    return len(r) > 1


SUBCLS = {}


def loose_note_class():
    """a Note whose `symbolic_duration` is None while nothing is stored - the only way to reach split_note,
    whose sanity assertion `note.symbolic_duration is None` can never hold for a plain Note in a part"""
    import partitura.score as S

    if "c" not in SUBCLS:
        class LooseNote(S.Note):
            @property
            def symbolic_duration(self):
                return self._sym_dur

            @symbolic_duration.setter
            def symbolic_duration(self, v):
                self._sym_dur = v

        SUBCLS["c"] = LooseNote
    return SUBCLS["c"]


def eval_part(d, ev):
    import partitura.score as S

    d = json.loads(json.dumps(d))
    part, slurs = build(d)
    slur_index = {id(s): i for i, s in enumerate(slurs)}
    if part.first_point is None:
        return False
    nontrivial = False
    first, last = part.first_point.t, part.last_point.t
    snd0 = sounding(part)
    na0 = na_rows(part)
    inherited = inherited_links(part)
    info = {"tie_variants": [n["tv"] for n in d["notes"] if n.get("tv")],
            "tie_links": sum(1 for n in d["notes"] if n.get("tie") is not None)}

    # ---- the rows of the note array as the model computes them from the note list (plain notes)
    def snd_stream():
        nreq, ns = notes_req(part, slur_index)
        ev.requests.append("snd " + nreq)
        ev.impl.append(snd_obs(ns))

    snd_stream()

    # ---- add_measures
    before = [(m.start.t, m.end.t, m.number) for m in part.iter_all(S.Measure)]
    # the executable side condition of the measure theorems (Props/C11Decide.lean), decided by the model for this part
    ev.requests.append("rok " + header(part))
    rok, rexc = call(reading_ok, part)
    ev.impl.append("err" if rexc is not None else rok)
    info["reading_ok"] = "err" if rexc is not None else rok
    ev.info = info
    ev.requests.append("addm " + header(part))
    _, exc = call(S.add_measures, part)
    after = [(m.start.t, m.end.t, m.number) for m in part.iter_all(S.Measure)]
    if exc is not None:
        ev.impl.append("err:assert" if isinstance(exc, AssertionError) else "err:" + type(exc).__name__)
        ok, _ = add_measures_pre(d, first, last)
        if ok and d["ts"]:
            ev.oracle.append("add_measures/raises: %r on a part satisfying the preconditions" % (exc,))
        return False
    ev.impl.append(W.f_list(lambda m: W.f_tuple(W.f_int(m[0]), W.f_int(m[1]), W.f_opt(W.f_int, m[2])), after))
    check_add_measures(d, before, after, first, last, ev.oracle)
    if sounding(part) != snd0:
        ev.oracle.append("add_measures/note-array: changed from %s to %s" % (snd0, sounding(part)))
    info["added"] = len(after) - len(before)
    info["bars_integral"] = bars_integral(d, first, last)
    nontrivial = nontrivial or len(after) > len(before)

    # ---- tie_notes
    nreq, ns0 = notes_req(part, slur_index)
    ev.requests.append("tie " + header(part) + " " + nreq)
    _, exc = call(S.tie_notes, part)
    if exc is not None:
        ev.impl.append("err:" + type(exc).__name__)
        ev.oracle.append("tie_notes/raises: %r" % (exc,))
        return nontrivial
    ns1 = list(part.iter_all(S.Note))
    ev.impl.append(notes_obs(ns1, slur_index))
    info["split"] = len(ns1) - len(ns0)
    nontrivial = nontrivial or len(ns1) > len(ns0)
    stages = [("tie_notes", None)]

    def judge(stage, exempt=()):
        snd = sounding(part)
        if snd != snd0:
            ev.oracle.append("%s/note-array: changed from %s to %s" % (stage, snd0, snd))
        elif na0 is not None:
            na = na_rows(part)   # "the note array before and after is identical", literally
            if na is not None and na != na0:
                ev.oracle.append("%s/note-array: Part.note_array() changed from %s to %s" % (stage, na0, na))
        check_chains(part, stage, ev.oracle, inherited)
        check_symbolic(part, stage, ev.oracle, exempt=exempt)

    judge("tie_notes")
    check_within_measure(part, "tie_notes", ev.oracle)
    snd_stream()

    # ---- find_tuplets
    from gen_score import fingerprint_part

    fp0 = fingerprint_part(part)
    nreq, _ = notes_req(part, slur_index)
    ev.requests.append("tupc " + header(part) + " " + nreq)
    _, exc = call(S.find_tuplets, part)
    if exc is not None:
        ev.impl.append("err:" + type(exc).__name__)
        ev.oracle.append("find_tuplets/raises: %r" % (exc,))
    else:
        ev.impl.append("0" if fingerprint_part(part) == fp0 else "changed")
        judge("find_tuplets")

    # ---- sanitize_part
    nreq, _ = notes_req(part, slur_index)
    ev.requests.append("sand " + nreq)   # default tie_tolerance: the model takes it from Gen/C11Consts.lean
    _, exc = call(S.sanitize_part, part)
    if exc is not None:
        ev.impl.append("err:" + type(exc).__name__)
        ev.oracle.append("sanitize_part/raises: %r" % (exc,))
    else:
        ev.impl.append(W.f_list(lambda n: W.f_tuple(ref(n), ref(n.tie_prev), ref(n.tie_next)), list(part.iter_all(S.Note))))
        judge("sanitize_part")

    # ---- fill_rests
    eval_fill(part, d, ev, info, judge)
    snd_stream()
    ev.info = info
    return nontrivial


# ---- quarter durations set in any time order (round 6, missed seed C11-l)
# The divisions "in force" at a time are a function of the HISTORY of set_quarter_duration calls as its docstring states
# it: a call at t takes effect from t until the next stored change; a value already stored at t is replaced; a call that
# neither replaces a stored value nor differs from the value in force just before t is redundant and stores nothing.
# The oracle below replays that history on a plain dict - it never reads TimePoint.quarter, _quarter_times or the maps.

def qd_replay(p0, calls):
    """-> sorted list of (t, q) after Part(quarter_duration=p0) and the calls [(t, q), ...] in that order"""
    st = {0: p0}
    for t, q in calls:
        if t in st:
            st[t] = q
            continue
        before = [x for x in st if x < t]
        if before and st[max(before)] == q:
            continue
        st[t] = q
    return sorted(st.items())


def qd_at(table, t):
    q = table[0][1]
    for tt, x in table:
        if tt <= t:
            q = x
    return q


def gen_qdord(rng):
    nsec = rng.choice([2, 2, 3, 3, 4])
    beats = rng.choice([4, 4, 3, 2])
    secs, t, prev = [], 0, None
    for i in range(nsec):
        q = rng.choice([x for x in (2, 4, 6, 8, 12, 16) if x != prev])
        prev = q
        nb = rng.randint(1, 3)
        secs.append({"t": t, "q": q, "end": t + nb * beats * q})
        t = secs[-1]["end"]
    L = t
    bounds = [s["t"] for s in secs[1:]]
    notes, nid = [], 0

    def add(t0, dur, voice):
        nonlocal nid
        notes.append({"id": "n%d" % nid, "key": nid, "t": t0, "dur": dur, "kind": "note", "step": rng.choice(STEPS), "alter": None,
                      "oct": rng.randint(2, 5), "voice": voice, "staff": 1})
        nid += 1

    # voice 1: a contiguous line on the half-quarter grid of each section (so every section boundary is an end and a start)
    for s in secs:
        pos, h = s["t"], s["q"] // 2
        while pos < s["end"]:
            dur = min(rng.choice([1, 2, 2, 3, 4, 6, 8]) * h, s["end"] - pos)
            add(pos, dur, 1)
            pos += dur
    # voice 2: notes that cross a boundary (tie_notes must type the continuation with the divisions of ITS start), and long
    # notes that start exactly on one
    for i, b in enumerate(bounds):
        a, c = secs[i], secs[i + 1]
        r = rng.random()
        if r < 0.6:
            s0 = b - rng.choice([1, 2, 3, 4]) * (a["q"] // 2)
            e0 = b + rng.choice([1, 2, 4, 6, 8]) * (c["q"] // 2)
            add(max(s0, a["t"]), min(e0, c["end"]) - max(s0, a["t"]), 2 + i)
        elif r < 0.9:
            add(b, c["end"] - b, 2 + i)
    # the order of the calls: a permutation, a suffix of which comes after the objects exist
    target = [(s["t"], s["q"]) for s in secs]
    for _ in range(12):
        p0 = rng.choice([secs[0]["q"], rng.choice([1, 3, 4, 5, 10, 24])])
        order = list(target)
        mode = rng.random()
        if mode < 0.45:
            order.reverse()
        elif mode < 0.9:
            rng.shuffle(order)
        if p0 == secs[0]["q"] and rng.random() < 0.5:
            order.remove(target[0])
        nlate = rng.randint(0, len(order))
        early, late = order[:len(order) - nlate], order[len(order) - nlate:]
        if qd_replay(p0, early + late) == target:
            break
    else:
        p0, early, late = secs[0]["q"], target[1:], []
    return {"k": "qdord", "divs": p0, "qd": [list(x) for x in early], "qd_late": [list(x) for x in late], "ts": [[0, beats, 4]],
            "meas": [], "notes": notes, "slurs": [], "end": L, "warm": rng.choice([0, 0, rng.randint(1, 63)])}


def eval_qdord(d, ev):
    import partitura.score as S
    import partitura.utils.music as M

    d = json.loads(json.dumps(d))
    part, _ = build(d)
    warm = d.get("warm", 0)

    def look():
        # read-only views between the steps: must not change anything
        if warm & 1:
            call(part.note_array)
        if warm & 2:
            [n.symbolic_duration for n in part.iter_all(S.GenericNote, include_subclasses=True)]
        if warm & 4:
            call(part.quarter_duration_map, 0)
        if warm & 8:
            call(part.beat_map, 0)

    look()
    for t, q in d.get("qd_late", []):
        part.set_quarter_duration(t, q)
        look()
    table = qd_replay(d["divs"], [tuple(x) for x in d.get("qd", []) + d.get("qd_late", [])])
    if part.first_point is None:
        return False
    out = ev.oracle
    # the maps the measures are computed from
    for t in sorted(set([x for x, _ in table] + [x - 1 for x, _ in table if x > 0] + [d["end"]])):
        r, exc = call(part.quarter_duration_map, t)
        if exc is not None or int(r) != qd_at(table, t):
            out.append("qdord/quarter-map: quarter_duration_map(%d) = %s, the calls put %d in force" % (t, exc or r, qd_at(table, t)))
            break
    snd0, na0 = sounding(part), na_rows(part)
    _, exc = call(S.add_measures, part)
    if exc is not None:
        out.append("add_measures/raises: %r on sections %s" % (exc, table))
        return False
    # bars: within every stretch of constant divisions, bars of beats*4/beat_type quarters from the stretch's start
    _, b, bt = d["ts"][0]
    exp, edges = [], [x for x, _ in table] + [d["end"]]
    for (s, q), e in zip(table, edges[1:]):
        blen = Fraction(4 * b * q, bt)
        if blen.denominator != 1 or s >= e:
            exp = None
            break
        pos = s
        while pos < e:
            exp.append((pos, min(pos + int(blen), e)))
            pos += int(blen)
    got = [(m.start.t, m.end.t) for m in part.iter_all(S.Measure)]
    if exp is not None and got != exp:
        out.append("qdord/measures: %s, expected %s for divisions %s" % (got, exp, table))
    if [m.number for m in part.iter_all(S.Measure)] != list(range(1, len(got) + 1)):
        out.append("qdord/numbers: %s" % [m.number for m in part.iter_all(S.Measure)])
    look()
    n0 = len(list(part.iter_all(S.Note)))
    _, exc = call(S.tie_notes, part)
    if exc is not None:
        out.append("tie_notes/raises: %r" % (exc,))
        return True
    if sounding(part) != snd0:
        out.append("qdord-tie_notes/note-array: changed from %s to %s" % (snd0, sounding(part)))
    elif na0 is not None and na_rows(part) not in (None, na0):
        out.append("qdord-tie_notes/note-array: Part.note_array() changed from %s to %s" % (na0, na_rows(part)))
    check_chains(part, "qdord-tie_notes", out)
    check_within_measure(part, "qdord-tie_notes", out)
    cnt = 0
    for n in part.iter_all(S.GenericNote, include_subclasses=True):
        sd = n.symbolic_duration
        if not sd:
            continue
        q = qd_at(table, n.start.t)   # the divisions in force at the note's start, from the history of calls alone
        dur = n.end.t - n.start.t
        ex = numeric_exact(sd) if isinstance(sd, dict) else None
        if ex is None:
            num, e = call(M.symbolic_to_numeric_duration, sd, q)
            bad = e is not None or abs(num - dur) > 1e-9 * max(1, dur)
        else:
            bad = ex * q != dur
        if bad and cnt < 3:
            cnt += 1
            out.append("qdord-tie_notes/symbolic: %s %s [%s,%s) has symbolic duration %s = %s divs under the %d divisions per quarter in "
                       "force at its start (calls: early %s, late %s), numeric duration %s" % (
                           type(n).__name__, n.id, n.start.t, n.end.t, sd, (ex * q) if ex is not None else "?", q,
                           d.get("qd"), d.get("qd_late"), dur))
    ev.info = {"qdord_late": len(d.get("qd_late", [])), "split": len(list(part.iter_all(S.Note))) - n0}
    return True


def _num(t):
    return W.q(W.as_fraction(t))


def eval_fill(part, d, ev, info, judge):
    """fill_rests against the model (the rests it adds) and the oracle (it completes; note array; symbolic durations)"""
    import partitura.score as S

    mw = bool(d.get("measurewise", True))
    gn = list(part.iter_all(S.GenericNote, include_subclasses=True))
    old = set(id(r) for r in part.iter_all(S.Rest))
    ms = [(m.start.t, m.end.t) for m in part.measures]
    qd = list(zip(part._quarter_times, part._quarter_durations))
    encodable = all(isinstance(n.voice, int) and isinstance(n.staff, int) and n.end is not None for n in gn)
    req = None
    if encodable:
        notes = W.lst(lambda n: "%s %s %d %d" % (_num(n.start.t), _num(n.end.t), n.voice, n.staff), gn)
        spans = W.lst(lambda m: "%s %s" % (_num(m[0]), _num(m[1])), ms)
        qds = W.lst(lambda x: "%d %d" % (x[0], x[1]), qd)
        if mw:
            req = "fillm %s %d %s %s" % (qds, part.number_of_staves, spans, notes)
        else:
            na, exc = call(part.note_array, include_staff=True)
            if exc is None:
                uvs = sorted(set((int(v), int(st)) for v, st in zip(na["voice"], na["staff"])))
                req = "fillg %s %s %s %s" % (qds, W.lst(lambda x: "%d %d" % x, uvs), spans, notes)
    # argument dispatch: the part itself, a Score holding it, or a Score in which it is the second part
    wrap = d.get("wrap")
    target = part
    if wrap == "score":
        target = S.Score([part])
    elif wrap == "score2":
        decoy = S.Part("P1", quarter_duration=4)
        decoy.add(S.TimeSignature(4, 4), 0)
        decoy.add(S.Note("C", 4, id="d0", voice=1, staff=1), 4, 8)
        decoy.add(S.Measure(number=1), 0, 16)
        target = S.Score([decoy, part])
    info["fill_wrap"] = str(wrap)
    _, exc = call(S.fill_rests, target, mw)
    info["fill_rests_raised"] = None if exc is None else type(exc).__name__
    new = [r for r in part.iter_all(S.Rest) if id(r) not in old]
    info["rests_added"] = len(new)
    info["fill_mode"] = "measurewise" if mw else "global"
    info["composite_rests"] = sum(1 for r in new if float(r.end.t) != int(r.end.t) or float(r.start.t) != int(r.start.t))
    if req is not None:
        ev.requests.append(req)
        if exc is not None:
            ev.impl.append("err")
        else:
            ev.impl.append(W.f_list(lambda r: W.f_tuple(_num(r.start.t), _num(r.end.t), W.f_int(r.voice), W.f_int(r.staff),
                                                         "N" if r._sym_dur is None else fmt_est(r._sym_dur)), new))
    if exc is not None:
        ev.oracle.append("fill_rests/raises: fill_rests(part, measurewise=%s) raised %r" % (mw, exc))
    # members of composite rests in a measure with a quarter-duration change strictly inside it are not judged (Reading)
    changes = [t for t, _ in qd[1:]]
    straddling = [(a, b) for a, b in ms if any(a < c < b for c in changes)]
    exempt = set(id(r) for r in new if any(a <= r.start.t < b for a, b in straddling))
    judge("fill_rests", exempt)


def eval_splitnote(d, ev):
    """split_note reached through a Note subclass that may have no symbolic duration"""
    import partitura.score as S
    import partitura.utils.music as M

    d = json.loads(json.dumps(d))
    cls = loose_note_class()
    part, slurs = build(d, note_cls=cls)
    slur_index = {id(s): i for i, s in enumerate(slurs)}
    S.add_measures(part)
    snd0 = sounding_cls(part, cls)
    inherited = inherited_links(part)
    ns = list(part.iter_all(cls))
    if not ns:
        return False
    k = d["which"] % len(ns)
    note = ns[k]
    divs = int(part.quarter_duration_map(note.start.t))
    nreq, _ = notes_req(part, slur_index, cls)
    ev.requests.append("splitnote %s %s %d %d" % (header(part), nreq, k, divs))
    splits = M.find_tie_split(note.start.t, note.end.t, divs, 3)
    if not splits:
        ev.impl.append("none")
        return False
    _, exc = call(S.split_note, part, note, splits)
    if exc is not None:
        ev.impl.append("err:" + type(exc).__name__)
        ev.oracle.append("split_note/raises: %r" % (exc,))
        return False
    # the model keeps one list in iteration order; here the pieces are plain Notes and the others LooseNotes:
    # per time point the LooseNote list comes first, then the Note list (new pieces start later than the first one)
    allnotes = []
    for tp in part._points:
        allnotes += list(tp.starting_objects.get(cls, [])) + list(tp.starting_objects.get(S.Note, []))
    ev.impl.append(W.f_list(lambda n: W.f_tuple("-" if n.id is None else str(n.id), W.f_int(n.start.t), W.f_int(n.end.t), pitch_tok(n),
                                                 W.f_opt(W.f_int, n.voice), W.f_opt(W.f_int, n.staff),
                                                 "N" if n._sym_dur is None else fmt_est(n._sym_dur), ref(n.tie_prev), ref(n.tie_next),
                                                 W.f_list(W.f_int, [slur_index[id(s)] for s in n.slur_stops if id(s) in slur_index])),
                            allnotes))
    snd = sounding_cls(part, cls)
    if snd != snd0:
        ev.oracle.append("split_note/note-array: changed from %s to %s" % (snd0, snd))
    check_chains(part, "split_note", ev.oracle, inherited)
    if not d.get("qd"):
        # find_tie_split works with one divisions value: a note across a quarter-duration change is outside its domain
        check_symbolic(part, "split_note", ev.oracle)
    return len(splits) >= 1


def eval_tuplets(d, ev):
    """steps 2-3 of find_tuplets, reached through a Note subclass that may have no symbolic duration (for the notes of
    the library step 1 finds no candidate: the `tupc` observation of eval_part)"""
    import partitura.score as S
    import partitura.utils.music as M

    d = json.loads(json.dumps(d))
    cls = loose_note_class()
    part, slurs = build(d, note_cls=cls)
    if part.first_point is None:
        return False
    _, exc = call(S.add_measures, part)
    if exc is not None:
        return False
    snd0 = sounding_cls(part, cls)
    nreq, ns = notes_req(part, {}, cls)
    ev.requests.append("tupl %s %s" % (header(part), nreq))
    _, exc = call(S.find_tuplets, part)
    if exc is not None:
        ev.impl.append("err:" + type(exc).__name__)
        ev.oracle.append("find_tuplets/raises: %r" % (exc,))
        return False
    tups = list(part.iter_all(S.Tuplet))
    ev.impl.append(W.f_tuple(W.f_list(lambda n: "N" if n._sym_dur is None else fmt_est(n._sym_dur), ns),
                             W.f_list(lambda t: W.f_tuple(ref(t.start_note), ref(t.end_note)), tups)))
    snd = sounding_cls(part, cls)
    if snd != snd0:
        ev.oracle.append("find_tuplets/note-array: changed from %s to %s" % (snd0, snd))
    wrong = 0
    for n in ns:
        sd = n._sym_dur
        if sd:
            x = numeric_exact(sd)
            if x is None or x * n.start.quarter != n.end.t - n.start.t:
                wrong += 1
    # (labels that do not last as long as their note are possible on this hypothetical class - Props/C11Tuplets.lean
    #  `tuplet_relabels_guess` - and are counted, not judged: the library's own notes never reach this code)
    ev.info = {"tuplets": len(tups), "tuplet_labels_wrong": wrong}
    return len(tups) > 0


def gen_sanit(rng):
    """a generated part plus the INCOMPLETE structures sanitize_part is there to remove: grace notes without a main note
    (alone or in sequences, with or without a note of their voice starting where they start), tuplets and slurs without
    start or end note, ties between notes that are not adjacent (gaps and overlaps of 1..40 divisions), next to complete
    ones; tie_tolerance 0..5"""
    d = gen_part(rng)
    d["k"] = "sanit"
    d["tol"] = rng.choice([0, 0, None, None, 1, 2, 5])   # None: sanitize_part(part), the documented default 0
    d["pre_tie"] = rng.random() < 0.3
    plain = [n for n in d["notes"] if n["kind"] == "note"]
    tied_to = set(n["tie"] for n in plain if n.get("tie") is not None)
    # ties between notes that are not adjacent
    xt = []
    if plain and not d["pre_tie"]:
        for _ in range(rng.choice([0, 1, 1, 2, 3])):
            free_a = [n for n in plain if n.get("tie") is None and n["key"] not in [x[0] for x in xt]]
            free_b = [n for n in plain if n.get("tie") is None and n["key"] not in tied_to and n["key"] not in [y for x in xt for y in x]]
            if not free_a or not free_b:
                break
            a = rng.choice(free_a)
            near = [b for b in free_b if b is not a and abs(b["t"] - (a["t"] + a["dur"])) <= max(5, (d["tol"] or 0) + 2)]
            b = rng.choice(near) if near and rng.random() < 0.6 else rng.choice(free_b)
            if b is a or b["key"] in [x[0] for x in xt] and a["key"] in [x[1] for x in xt]:
                continue
            xt.append([a["key"], b["key"]])
            tied_to.add(b["key"])
    d["xties"] = xt
    # grace-note sequences
    xg = []
    times = sorted(set(n["t"] for n in plain)) or [0]
    for _ in range(rng.choice([0, 1, 2, 2, 3])):
        t = rng.choice(times) if rng.random() < 0.8 else rng.randint(0, max(1, d["end"]))
        at = [n for n in plain if n["t"] == t]
        nseq = rng.choice([1, 1, 2, 3])
        voices = []
        for i in range(nseq):
            r = rng.random()
            voices.append(rng.choice(at)["voice"] if at and r < 0.6 else (None if r < 0.7 else rng.randint(1, 4)))
        xg.append({"t": t, "voices": voices, "main": rng.choice(at)["key"] if at and rng.random() < 0.35 else None,
                   "linked": rng.random() < 0.85})
    d["xgraces"] = xg
    # tuplets and slurs
    def span():
        if len(plain) < 2:
            return None
        a, b = sorted(rng.sample(range(len(plain)), 2))
        r = rng.random()
        return [plain[a]["key"] if r < 0.75 else None, plain[b]["key"] if not 0.6 < r < 0.9 else None, plain[a]["t"], plain[b]["t"] + plain[b]["dur"]]
    d["tuplets"] = [x for x in (span() for _ in range(rng.choice([0, 1, 2, 3]))) if x]
    d["xslurs"] = [x for x in (span() for _ in range(rng.choice([0, 1, 2]))) if x]
    return d


def eval_sanit(d, ev):
    """the whole of sanitize_part against the model, and the oracle: only INCOMPLETE structures go"""
    import partitura.score as S

    d = json.loads(json.dumps(d))
    objs = {}
    part, slurs = build(d, keys=objs)
    if part.first_point is None:
        return False
    _, exc = call(S.add_measures, part)
    if exc is not None:
        return False
    if d.get("pre_tie"):
        _, exc = call(S.tie_notes, part)
        if exc is not None:
            return False
    for a, b in d.get("xties", []):
        if a in objs and b in objs and objs[a].tie_next is None and objs[b].tie_prev is None and objs[b].tie_next is None and a != b:
            objs[a].tie_next = objs[b]
            objs[b].tie_prev = objs[a]
    nx = 0
    for g in d.get("xgraces", []):
        seq = []
        for v in g["voices"]:
            o = S.GraceNote("grace", step="C", octave=4, id="x%d" % nx, voice=v, staff=1)
            nx += 1
            part.add(o, g["t"], g["t"])
            seq.append(o)
        if g.get("linked", True):
            for a, b in zip(seq, seq[1:]):
                a.grace_next = b
                b.grace_prev = a
        if g.get("main") is not None and g["main"] in objs:
            seq[-1].grace_next = objs[g["main"]]
    for a, b, ta, tb in d.get("tuplets", []):
        o = S.Tuplet(objs.get(a) if a is not None else None, objs.get(b) if b is not None else None, 3, 2)
        part.add(o, ta, tb)
    extra_slurs = []
    for a, b, ta, tb in d.get("xslurs", []):
        o = S.Slur(objs.get(a) if a is not None else None, objs.get(b) if b is not None else None)
        part.add(o, ta, tb)
        extra_slurs.append(o)
    dflt = d.get("tol") is None
    tol = 0 if dflt else int(d["tol"])   # ("tie_tolerance ... Ideally, it is 0": the documented default)
    slur_index = {id(x): i for i, x in enumerate(slurs)}
    nreq, ns = notes_req(part, slur_index)
    nkey = {id(n): i for i, n in enumerate(ns)}
    graces = list(part.iter_all(S.GraceNote))
    gkey = {id(g): i for i, g in enumerate(graces)}
    tups = list(part.iter_all(S.Tuplet))
    sls = list(part.iter_all(S.Slur))

    def gnext(g):
        x = g.grace_next
        if x is None:
            return "N", "-"
        if isinstance(x, S.GraceNote):
            return "G %d" % gkey[id(x)], "g%d" % gkey[id(x)]
        return "M %d" % nkey[id(x)], "n%d" % nkey[id(x)]

    def main_of(g):   # (independent of GraceNote.main_note)
        seen = 0
        x = g.grace_next
        while isinstance(x, S.GraceNote) and seen < 1000:
            x = x.grace_next
            seen += 1
        return x

    greq = W.lst(lambda g: "%d %d %s %s" % (gkey[id(g)], g.start.t, W.opt(W.i, g.voice), gnext(g)[0]), graces)
    sreq = lambda l: W.lst(lambda x: "%d %s %s" % (x[0], W.b(x[1].start_note is not None), W.b(x[1].end_note is not None)), list(enumerate(l)))
    ev.requests.append("sanp %s %s %s %s %s" % ("-" if dflt else "%d" % tol, nreq, greq, sreq(tups), sreq(sls)))
    # ---- what the oracle needs from the state before
    had_main = [g for g in graces if main_of(g) is not None]
    complete_t = [t for t in tups if t.start_note is not None and t.end_note is not None]
    complete_s = [x for x in sls if x.start_note is not None and x.end_note is not None]
    chains = []
    for n in ns:
        if n.tie_prev is None and n.tie_next is not None:
            mem, x, tot = [n], n, n.end.t - n.start.t
            while x.tie_next is not None and len(mem) < 1000:
                x = x.tie_next
                mem.append(x)
                tot += x.end.t - x.start.t
            chains.append((mem, abs((mem[-1].end.t - n.start.t) - tot)))
    rows0 = sounding(part)
    orphan_rows = [(int(g.start.t), int(g.duration_tied), int(g.midi_pitch), g.voice, g.id) for g in graces if main_of(g) is None]
    _, exc = call(S.sanitize_part, part) if dflt else call(S.sanitize_part, part, tol)
    if exc is not None:
        ev.impl.append("err:" + type(exc).__name__)
        ev.oracle.append("sanitize_part/raises: %r" % (exc,))
        return False
    kept_g = list(part.iter_all(S.GraceNote))
    kept_ids = set(id(g) for g in kept_g)
    ns1 = list(part.iter_all(S.Note))
    ev.impl.append(W.f_tuple(
        W.f_list(lambda n: W.f_tuple(ref(n), ref(n.tie_prev), ref(n.tie_next)), ns1),
        W.f_list(lambda g: W.f_tuple(W.f_int(gkey[id(g)]), gnext(g)[1]), kept_g),
        W.f_list(W.f_int, [gkey[id(g)] for g in graces if id(g) not in kept_ids]),
        W.f_list(W.f_int, [i for i, t in enumerate(tups) if any(t is y for y in part.iter_all(S.Tuplet))]),
        W.f_list(W.f_int, [i for i, t in enumerate(sls) if any(t is y for y in part.iter_all(S.Slur))]),
        snd_obs(ns1)))
    # ---- oracle: sanitising removes INCOMPLETE structures only, and what it keeps sounds as before
    for g in had_main:
        if id(g) not in kept_ids:
            ev.oracle.append("sanitize_part/complete-removed: grace note %s at %s had main note %s and was removed" % (g.id, g.start and g.start.t, main_of(g).id))
            break
    for g in kept_g:
        if main_of(g) is None:
            ev.oracle.append("sanitize_part/incomplete-kept: grace note %s is kept without a main note" % (g.id,))
            break
    left_t = set(id(t) for t in part.iter_all(S.Tuplet))
    left_s = set(id(t) for t in part.iter_all(S.Slur))
    if any(id(t) not in left_t for t in complete_t) or any(id(t) not in left_s for t in complete_s):
        ev.oracle.append("sanitize_part/complete-removed: a tuplet or slur with both end notes was removed")
    if any(id(t) in left_t for t in tups if t not in complete_t) or any(id(t) in left_s for t in sls if t not in complete_s):
        ev.oracle.append("sanitize_part/incomplete-kept: a tuplet or slur without start or end note is still in the part")
    for mem, dev in chains:
        linked = all(a.tie_next is b and b.tie_prev is a for a, b in zip(mem, mem[1:]))
        if dev <= tol and not linked:
            ev.oracle.append("sanitize_part/untied: the chain %s (extent - summed duration = %s <= tolerance %s) was untied" % (
                [(m.id, m.start.t, m.end.t) for m in mem], dev, tol))
            break
        if dev > tol and any(m.tie_next is not None or m.tie_prev is not None for m in mem):
            ev.oracle.append("sanitize_part/wrong-tie-kept: the chain %s (extent - summed duration = %s > tolerance %s) is still tied" % (
                [(m.id, m.start.t, m.end.t) for m in mem], dev, tol))
            break
    if all(dev <= tol for _, dev in chains):
        rows1 = sounding(part)
        lost = list(rows0)
        extra = []
        for r in rows1:
            if r in lost:
                lost.remove(r)
            else:
                extra.append(r)
        spare = list(orphan_rows)
        unexplained = []
        for r in lost:
            if r in spare:
                spare.remove(r)
            else:
                unexplained.append(r)
        if extra or unexplained:
            ev.oracle.append("sanitize_part/note-array: rows %s appeared, rows %s disappeared (only grace notes without main note may go)" % (extra, unexplained))
    ev.info = {"sanit": {"graces": len(graces), "graces_removed": len(graces) - len(kept_g),
                         "graces_adopted": sum(1 for g in kept_g if g not in had_main),
                         "tuplets_removed": len(tups) - len(left_t & set(id(t) for t in tups)),
                         "slurs_removed": len(sls) - len(left_s & set(id(t) for t in sls)),
                         "chains": len(chains), "chains_untied": sum(1 for _, dev in chains if dev > tol),
                         "chains_off_within_tol": sum(1 for _, dev in chains if 0 < dev <= tol)}}
    return len(graces) - len(kept_g) + len(tups) + len(sls) + len(chains) > 0


def sym_value_req(v):
    """a stored symbolic duration of any shape: N = None, E = {}, S = one value, C = a tuple of tied values"""
    if isinstance(v, (list, tuple)):
        return "C " + W.lst(lambda x: sym_field_req(x)[2:], list(v))
    return sym_field_req(v)


def conv_shape(v):
    G = _tables()
    if v is None:
        return "none(estimated)"
    if isinstance(v, (list, tuple)):
        return "tuple" if v else "empty-tuple"
    if not v:
        return "empty-dict"
    if v.get("type") not in G.LABEL_DURS:
        return "unknown-type"
    if v.get("dots", 0) >= len(G.DOT_MULTIPLIERS):
        return "too-many-dots"
    if "actual_notes" in v and "normal_notes" in v:
        return "tuplet"
    if "actual_notes" in v or "normal_notes" in v:
        return "half-tuplet"
    return "dotted" if v.get("dots") else "plain"


def eval_conv(d, ev):
    """format_symbolic_duration and GenericNote.duration_from_symbolic against Model/SymConv.lean; the oracle judges the
    round trip of the property: a note without stored value reports no notated value or exactly its numeric duration"""
    import partitura.score as S
    import partitura.utils.music as M
    from collections import Counter

    q = d["q"]
    part = S.Part("P0", quarter_duration=q)
    fm, df = [], []
    shapes = Counter()
    bad = 0
    for i, it in enumerate(d["items"]):
        v = tuple(it["v"]) if isinstance(it["v"], list) else it["v"]
        shapes[conv_shape(v)] += 1
        r, exc = call(M.format_symbolic_duration, v)
        fm.append("err" if exc is not None else str(r))
        n = S.Note("C", 4, id="n%d" % i, voice=1, symbolic_duration=v)
        part.add(n, 0, it["dur"])
        r, exc = call(lambda: n.duration_from_symbolic)
        if exc is not None:
            df.append("err")
        elif r is None:
            df.append(None)
        else:
            df.append(float(r))
        if v is None and bad < 3 and 1 <= q <= 960:
            if exc is not None or (r is not None and abs(float(r) - it["dur"]) > 1e-9 * max(1, it["dur"])):
                bad += 1
                ev.oracle.append("convert/back: a note of %d divs at %d per quarter has symbolic duration %r and "
                                 "duration_from_symbolic %r" % (it["dur"], q, n.symbolic_duration, exc or r))
    ev.requests.append("fmtl " + W.lst(sym_value_req, [it["v"] for it in d["items"]]))
    ev.impl.append(W.f_list(lambda x: x, fm))
    ev.requests.append("dfsl %d %s" % (q, W.lst(lambda it: "%d %s" % (it["dur"], sym_value_req(it["v"])), d["items"])))
    ev.impl.append(("@approx", df, 1e-12))
    ev.info = {"conv": dict(shapes), "conv_results": dict(Counter("err" if x == "err" else ("None" if x is None else "value") for x in df))}
    return any(isinstance(x, float) for x in df)


def sounding_cls(part, cls):
    import partitura.score as S

    rows = []
    for n in part.iter_all(S.Note, include_subclasses=True):
        if n.tie_prev is None:
            rows.append((int(n.start.t), int(n.duration_tied), int(n.midi_pitch), n.voice, n.id))
    return sorted(rows, key=lambda r: tuple(str(x) for x in r))


def evaluate(d):
    import partitura.utils.music as M
    import partitura.score as S

    ev = Eval()
    k = d["k"]
    nontrivial = False
    if k in ("estr", "estl"):
        nontrivial = eval_est(d, ev)
    elif k == "split":
        nontrivial = eval_split(d, ev)
    elif k == "osplits":
        r, exc = call(M.order_splits, d["start"], d["end"], d["unit"])
        ev.requests.append("osplits %d %d %d" % (d["start"], d["end"], d["unit"]))
        ev.impl.append("err" if exc else W.f_list(W.f_int, [int(x) for x in r]))
        if not exc:
            if any(not (d["start"] < int(x) < d["end"]) for x in r) or len(set(int(x) for x in r)) != len(r):
                ev.oracle.append("order_splits/range: order_splits%r = %s" % ((d["start"], d["end"], d["unit"]), list(r)))
            nontrivial = len(r) > 0
    elif k == "unit":
        r, exc = call(M.find_smallest_unit, d["div"])
        ev.requests.append("unit %d" % d["div"])
        ev.impl.append("err" if exc else W.f_int(r))
        nontrivial = True
    elif k == "tid":
        r, exc = call(S._make_tied_note_id, d["id"])
        ev.requests.append("tid %s" % W.s(d["id"]))
        ev.impl.append("err" if exc else ("-" if r is None else r))
        nontrivial = r is not None
    elif k == "part":
        nontrivial = eval_part(d, ev)
    elif k == "splitnote":
        nontrivial = eval_splitnote(d, ev)
    elif k == "tuplets":
        nontrivial = eval_tuplets(d, ev)
    elif k == "sanit":
        nontrivial = eval_sanit(d, ev)
    elif k == "conv":
        nontrivial = eval_conv(d, ev)
    elif k == "qdord":
        nontrivial = eval_qdord(d, ev)
    ev.key = ("|".join(ev.requests)[:2000] or repr(d)) if nontrivial else None
    return ev


def finding_key(d, f):
    return f.split(":")[0]


def shrink(d):
    if d.get("k") == "estl" and len(d["durs"]) > 1:
        for x in d["durs"]:
            yield dict(d, durs=[x])
    if d.get("k") == "estr":
        for x in range(d["lo"], d["hi"]):
            yield {"k": "estl", "div": d["div"], "com": False, "durs": [x]}
    if d.get("k") == "conv" and len(d["items"]) > 1:
        for it in d["items"]:
            yield dict(d, items=[it])
    if d.get("k") == "sanit":
        for f in ("xties", "xgraces", "tuplets", "xslurs"):
            for i in range(len(d.get(f, []))):
                yield dict(d, **{f: d[f][:i] + d[f][i + 1:]})
    if d.get("k") == "qdord":
        for i in range(len(d["notes"])):
            yield dict(d, notes=d["notes"][:i] + d["notes"][i + 1:])
        if d.get("warm"):
            yield dict(d, warm=0)
        return
    if d.get("k") in ("part", "splitnote", "tuplets", "sanit"):
        ns = d["notes"]
        for i in range(len(ns)):
            key = ns[i].get("key")
            rest = [dict(n) for j, n in enumerate(ns) if j != i]
            for n in rest:
                if key is not None and n.get("tie") == key:
                    n.pop("tie", None)
            # stay inside the generated domain: a grace note keeps a main note (sanitize_part removes orphans by design)
            rest = [n for n in rest if n["kind"] != "grace" or any(
                m["kind"] == "note" and m["t"] == n["t"] and m.get("voice") == n.get("voice") for m in rest)]
            yield dict(d, notes=rest, slurs=[s for s in d["slurs"] if key not in s])
        for i in range(len(d["meas"])):
            yield dict(d, meas=d["meas"][:i] + d["meas"][i + 1:])
        for i in range(len(d["ts"])):
            if len(d["ts"]) > 1:
                yield dict(d, ts=d["ts"][:i] + d["ts"][i + 1:])
        if d["slurs"]:
            yield dict(d, slurs=[])
        if d.get("qd"):
            yield dict(d, qd=[])


def distribution(descs, results):
    from collections import Counter

    c = Counter(d["k"] for d in descs)
    pairs = sum((r.get("info") or {}).get("pairs", 0) for r in results)
    parts = [(d, r) for d, r in zip(descs, results) if d["k"] == "part"]
    return {
        "by_kind": dict(c),
        "estimator_pairs": pairs,
        "parts_by_existing_measures": dict(Counter(d.get("mode") for d, _ in parts)),
        "parts_by_divs": dict(Counter(d["divs"] for d, _ in parts)),
        "measures_added": sum((r.get("info") or {}).get("added", 0) for _, r in parts),
        "parts_with_BarsIntegral": dict(Counter(str((r.get("info") or {}).get("bars_integral")) for _, r in parts)),
        "parts_by_readingOKB(all,TsOK,ExistingOK,BarsIntegral)": dict(Counter(str((r.get("info") or {}).get("reading_ok")) for _, r in parts)),
        "notes_created_by_tie_notes": sum((r.get("info") or {}).get("split", 0) for _, r in parts),
        "fill_rests_raised": dict(Counter(str((r.get("info") or {}).get("fill_rests_raised")) for _, r in parts)),
        "rests_added": sum((r.get("info") or {}).get("rests_added", 0) for _, r in parts),
        "tuplets_found_through_subclass": sum((r.get("info") or {}).get("tuplets", 0) for r in results),
        "tuplet_labels_not_lasting_their_note": sum((r.get("info") or {}).get("tuplet_labels_wrong", 0) for r in results),
        "fill_mode": dict(Counter(str((r.get("info") or {}).get("fill_mode")) for _, r in parts)),
        "fill_rests_argument": dict(Counter(str((r.get("info") or {}).get("fill_wrap")) for _, r in parts)),
        "rests_with_non_integral_time": sum((r.get("info") or {}).get("composite_rests", 0) for _, r in parts),
        "tie_links_entered": sum((r.get("info") or {}).get("tie_links", 0) for _, r in parts),
        "tie_links_by_representation_variant": dict(Counter(t for _, r in parts for t in (r.get("info") or {}).get("tie_variants", []))),
        "sanitize_shapes": dict(sum((Counter((r.get("info") or {}).get("sanit") or {}) for r in results), Counter())),
        "sanitize_by_tolerance": dict(Counter(str(d.get("tol")) for d in descs if d["k"] == "sanit")),
        "conversion_values_by_shape": dict(sum((Counter((r.get("info") or {}).get("conv") or {}) for r in results), Counter())),
        "duration_from_symbolic_results": dict(sum((Counter((r.get("info") or {}).get("conv_results") or {}) for r in results), Counter())),
    }
